#!/usr/bin/env python3
"""tools/seedtable.py - regenerates the seeded-change table of DESIGN.md (between the SEEDTABLE markers)
from seeded/*/meta.json."""
import json, glob, os, re
rows = []
for m in sorted(glob.glob('/verif/seeded/*/meta.json')):
    d = json.load(open(m))
    caught = [c for c, v in d['caught_by'].items() if v['exit'] == 1]
    silent = [c for c, v in d['caught_by'].items() if v['exit'] != 1]
    needs = d['needs_to_manifest'].replace('|', '¦')
    rows.append(f"| {d['name']} | {needs} | {', '.join(caught) or '-'} | {', '.join(silent) or '-'} |")
table = "| seeded change | needs | caught (quick tier) by | also tried, silent (not that property's subject) |\n|---|---|---|---|\n" + "\n".join(rows) + "\n"
p = '/verif/DESIGN.md'
s = open(p).read()
s2 = re.sub(r'(<!-- SEEDTABLE -->\n).*?(<!-- /SEEDTABLE -->)', lambda m: m.group(1) + table + m.group(2), s, flags=re.S)
open(p, 'w').write(s2)
print(len(rows), 'rows')
