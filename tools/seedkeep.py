#!/usr/bin/env python3
"""tools/seedkeep.py <property> <agent out dir> <n> <name> <checks that must catch it, comma separated> "<needs>"
Confirms a seeded change in a scratch worktree of /repo (applies, compiles, pinned suite still passes, the
demonstration fails with the change and passes without it), runs the named checks against it, and stores it as
/verif/seeded/<name>/ (patch.diff, demo/, meta.json)."""
import sys, os, subprocess, json, shutil, re, hashlib
prop, outdir, n, name, checks, needs = sys.argv[1:7]
checks = [c for c in checks.split(',') if c]
env = dict(os.environ, GOFLAGS='-mod=mod', GOPROXY='off', GOSUMDB='off', GOTOOLCHAIN='local')
patch = os.path.join(outdir, f'patch{n}.diff')
demo = os.path.join(outdir, f'demo{n}')
wt = '/tmp/keep-' + hashlib.md5(patch.encode()).hexdigest()[:8]
def sh(cmd, cwd=None, check=False):
    p = subprocess.run(cmd, shell=True, cwd=cwd, env=env, capture_output=True, text=True, errors='replace')
    if check and p.returncode != 0:
        print(p.stdout[-2000:], p.stderr[-2000:]); raise SystemExit(f'FAILED: {cmd}')
    return p
sh(f'git -C /repo worktree remove --force {wt}; rm -rf {wt}')
sh(f'git -C /repo worktree add -q --detach {wt} HEAD', check=True)
ran = []
try:
    # demo module pointed at the scratch worktree
    dwork = wt + '-demo'
    shutil.rmtree(dwork, ignore_errors=True); shutil.copytree(demo, dwork)
    gm = open(os.path.join(dwork, 'go.mod')).read()
    gm = re.sub(r'=> \S+', '=> ' + wt, gm)
    open(os.path.join(dwork, 'go.mod'), 'w').write(gm)
    shutil.copy('/repo/go.sum', os.path.join(dwork, 'go.sum'))
    d0 = sh('go test ' + os.environ.get('DEMO_FLAGS','') + ' -count=1 ./...', cwd=dwork)
    ran.append(f'demo on the untouched tree: exit {d0.returncode}')
    if d0.returncode != 0:
        print(d0.stdout[-1500:]); raise SystemExit('demo does not pass on the untouched tree')
    sh(f'git -C {wt} apply {patch}', check=True)
    sh('go build ./... && go build -tags verif ./...', cwd=wt, check=True)
    ran.append('go build ./... (with and without -tags verif): ok')
    s = sh(f'python3 /verif/tools/baseline.py {wt}')
    ran.append('pinned suite with the change: ' + s.stdout.strip().splitlines()[0])
    if s.returncode != 0:
        print(s.stdout); raise SystemExit('suite fails with the change')
    d1 = sh('go test ' + os.environ.get('DEMO_FLAGS','') + ' -count=1 ./...', cwd=dwork)
    ran.append(f'demo with the change: exit {d1.returncode}')
    if d1.returncode == 0:
        raise SystemExit('demo does not fail with the change')
    caught = {}
    for c in checks:
        r = sh(f'VERIF_REPO={wt} ./run.sh {c} quick', cwd='/verif')
        m = re.search(r'distinct violations per clause[^\n]*', r.stdout)
        caught[c] = {'exit': r.returncode, 'clauses': m.group(0) if m else ''}
        ran.append(f'./run.sh {c} quick against the changed tree: exit {r.returncode} {m.group(0) if m else ""}')
    dest = f'/verif/seeded/{name}'
    shutil.rmtree(dest, ignore_errors=True); os.makedirs(dest)
    shutil.copy(patch, os.path.join(dest, 'patch.diff'))
    shutil.copytree(demo, os.path.join(dest, 'demo'))
    notes = os.path.join(outdir, 'notes.md')
    if os.path.exists(notes):
        shutil.copy(notes, os.path.join(dest, 'author_notes.md'))
    meta = {'property': prop, 'name': name, 'which_change_in_author_notes': int(n), 'needs_to_manifest': needs,
            'confirmed': ran, 'caught_by': caught, 'base_commit': sh('git -C /repo rev-parse --short HEAD').stdout.strip(),
            'how_to_rerun': f'tools/seedtest.sh {prop} seeded/{name}/patch.diff quick'}
    json.dump(meta, open(os.path.join(dest, 'meta.json'), 'w'), indent=1)
    print('KEPT', name, json.dumps(caught))
finally:
    sfx = hashlib.md5(wt.encode()).hexdigest()[:8]
    sh(f'git -C /repo worktree remove --force {wt}; rm -rf {wt} {wt}-demo /verif/out/alt.{sfx}.* /verif/out/bin/vcheck.{sfx} /verif/out/bin/vcheck-race.{sfx}')
