#!/usr/bin/env python3
"""Generates /verif/MANIFEST.json from the table below and validates it."""
import json, subprocess, os, sys
ROOT = os.path.dirname(os.path.dirname(os.path.abspath(__file__)))
props = [json.loads(l) for l in open(os.path.join(ROOT, 'properties.jsonl'))]
ids = [p['id'] for p in props]

hook_commits = subprocess.run(['git', '-C', '/repo', 'log', '--format=%H', '--grep=^verif:'], capture_output=True, text=True).stdout.split()

# id -> (technique, level text, level note, design_ref)
CHECKS = {}
def chk(id, technique, text, note):
    CHECKS[id] = dict(technique=technique, text=text, note=note)

exec(open(os.path.join(ROOT, 'tools', 'manifest_checks.py')).read())

NOT_YET = "check not built yet in this session (planned in DESIGN.md section 2); not claimed until it exists and is silent on the unchanged tree"
man = {
    "version": 1,
    "setup_cmd": "./setup.sh",
    "hooks": {
        "guard": "verif",
        "enable": "go build -tags verif (harness module replaces github.com/jsightapi/jsight-schema-core with /repo; run.sh rebuilds on every invocation)",
        "baseline_off_cmd": "cd /repo && GOFLAGS=-mod=mod GOPROXY=off GOSUMDB=off GOTOOLCHAIN=local go test -json -vet=off -count=1 -timeout 25m ./...",
        "source_commits": hook_commits,
        "add_only": True,
    },
    "engines": [
        {"name": "vcheck", "path": "harness/cmd/vcheck", "serves_properties": sorted(CHECKS), "kind_free_text": "Go harness built against /repo with -tags verif: coordinator + 16 logical worker shards (child processes, journalled cases, CPU-time watchdog), reference-model oracles, known-findings matcher, evidence writer"},
    ],
    "checks": [],
    "not_applicable": [],
    "notes": "All checks are runtime monitors over executions of the real library. exit 0 held / 1 VIOLATION / 2 check could not run or observed too little.",
}
for i in ids:
    if i in CHECKS:
        c = CHECKS[i]
        man["checks"].append({
            "property_id": i,
            "quick_cmd": f"./run.sh {i} quick",
            "thorough_cmd": f"./run.sh {i} thorough",
            "evidence_file": f"/verif/evidence/{i}.json",
            "replay_cmd_template": f"./run.sh {i} --replay {{path}}",
            "engine": "vcheck",
            "level_claimed": {"category": "exploration", "text": c['text'], "design_ref": f"DESIGN.md section 2, {i}"},
            "level_note": c['note'],
            "technique": c['technique'],
        })
    else:
        man["not_applicable"].append({"property_id": i, "reason": NOT_YET})
json.dump(man, open(os.path.join(ROOT, 'MANIFEST.json'), 'w'), indent=1)
print("MANIFEST.json written:", len(man['checks']), "checks,", len(man['not_applicable']), "not claimed")
