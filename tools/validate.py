#!/usr/bin/env python3
"""Validates MANIFEST.json and evidence/*.json against the given schemas (needs python3-vt's jsonschema)."""
import json, sys, glob, os
import jsonschema
ROOT = os.path.dirname(os.path.dirname(os.path.abspath(__file__)))
ok = True
ms = json.load(open('/root/.vp/MANIFEST.schema.json'))
es = json.load(open('/root/.vp/EVIDENCE.schema.json'))
try:
    jsonschema.validate(json.load(open(os.path.join(ROOT, 'MANIFEST.json'))), ms)
    print('MANIFEST ok')
except Exception as e:
    ok = False; print('MANIFEST INVALID', e)
for f in sorted(glob.glob(os.path.join(ROOT, 'evidence', '*.json'))):
    try:
        jsonschema.validate(json.load(open(f)), es)
        print(os.path.basename(f), 'ok')
    except Exception as e:
        ok = False; print(f, 'INVALID', str(e)[:300])
sys.exit(0 if ok else 1)
