#!/usr/bin/env python3
"""Keeps the 'commit' field of fixed entries in known_findings.jsonl in step with /repo history:
remembers each fix commit's subject (commit_subject) and re-resolves the hash by subject."""
import json, subprocess, sys
path = '/verif/known_findings.jsonl'
def git(*a):
    return subprocess.run(['git', '-C', '/repo'] + list(a), capture_output=True, text=True).stdout.strip()
subjects = {}
for ln in git('log', '--format=%h\t%s').splitlines():
    h, s = ln.split('\t', 1)
    subjects[s] = h
out = []
bad = 0
for ln in open(path):
    if not ln.strip():
        continue
    e = json.loads(ln)
    if e.get('status') == 'fixed':
        subj = e.get('commit_subject')
        if not subj:
            subj = git('show', '-s', '--format=%s', e['commit'])
            e['commit_subject'] = subj
        if subj in subjects:
            e['commit'] = subjects[subj]
        else:
            bad += 1
            print('NO COMMIT WITH SUBJECT:', subj, file=sys.stderr)
    out.append(json.dumps(e, ensure_ascii=False))
open(path, 'w').write('\n'.join(out) + '\n')
print('refreshed', len(out), 'entries;', bad, 'unresolved')
