#!/bin/bash
# tools/addfixed.sh <property> <clause> <key> <grep pattern for the fix commit subject> <what failed>
h=$(git -C /repo log --format=%h --grep="$4" | head -1)
[ -z "$h" ] && { echo "no commit matches $4" >&2; exit 1; }
python3 - "$1" "$2" "$3" "$h" "$5" >> /verif/known_findings.jsonl <<'PY'
import json,sys
print(json.dumps({"status":"fixed","property":sys.argv[1],"clause":sys.argv[2],"key":sys.argv[3],"what":sys.argv[5],"commit":sys.argv[4]}))
PY
