chk("C19", "runtime monitor: reference-model (insertion-ordered dict) comparison after every operation, exhaustive short operation sequences + random long ones",
    "Every operation sequence up to the bound is executed on the real containers and compared, after each step, with a reference dict: Len, Has/Get/GetValue, Each/EachSafe order, Filter visiting order, Find result, MarshalJSON validity/key order/entry count. Exhaustive over a 19-operation alphabet up to length 4 (quick) / 5 (thorough); random beyond. Held = no disagreement on the executions run.",
    "Trusts the 40-line reference dict and encoding/json as JSON validator; sequential use only (concurrent use is C11).")

chk("C20", "runtime monitor: exhaustive table comparison against documented vocabulary + repeated-execution determinism and cross-classifier agreement over enumerated literals",
    "All 18x18 type pairs and every documented name/near-miss are checked against tables typed in from the documentation; every enumerated JSON scalar literal (exhaustive small scope + random) is guessed 24 times on fresh state and compared with the schema scanner's own classifier. Held = no disagreement on the executions run.",
    "Trusts the hand-typed documented tables, encoding/json.Valid for literal membership; map-order dependence is sampled by repetition, not enumerated.")

chk("C13", "runtime monitor: differential oracle (RFC 8259 number regex + exact decimal arithmetic cross-checked with math/big.Rat) over exhaustive short strings, exhaustive small-scope pairs and random long numbers",
    "NewNumber's accept/reject decision, String(), LengthOfFractionalPart() and all six comparison methods are compared with an exact reference on every string up to the length bound, every ordered pair of short grammatical numbers, and millions of random long numbers incl. equal-by-shift and last-digit-neighbour pairs. Held = no disagreement on the executions run.",
    "Trusts Go regexp, the 100-line exact decimal reference and math/big; exponents beyond 3000 only probed at fixed points.")

chk("C12", "runtime monitor: differential oracle (encoding/json Valid / streaming Decoder / token tree) + lexeme-stream nesting and span checker over exhaustive short byte strings and generated/mutated documents; scanner-probe coverage",
    "Every byte string up to the bound over a 31-symbol alphabet and millions of generated/mutated documents are scanned by the real Document in strict and trailing mode; verdict, Len(), lexeme nesting/spans/literal coverage and the rebuilt token tree are compared with encoding/json. H3 probes report the (step function, byte class) pairs actually crossed. Held = no disagreement on the executions run.",
    "Trusts encoding/json as the RFC 8259 reference; invalid UTF-8 not distinguished; pruning only below prefixes rejected for an offending byte by both sides.")
