#!/bin/bash
# tools/seedtest.sh <property-id> <patch.diff> [quick|thorough] [more property ids...]
# Applies a seeded change to a scratch worktree of /repo (never to /repo), checks that it compiles and that the
# pinned suite still passes, then runs the given property's check against the scratch tree. Prints a verdict line.
set -u
ID="$1"; PATCH="$(readlink -f "$2")"; TIER="${3:-quick}"; shift 3 2>/dev/null || shift $#
export GOFLAGS=-mod=mod GOPROXY=off GOSUMDB=off GOTOOLCHAIN=local
WT="/tmp/mut-$(echo -n "$PATCH" | md5sum | cut -c1-8)"
git -C /repo worktree remove --force "$WT" 2>/dev/null; rm -rf "$WT"
git -C /repo worktree add -q --detach "$WT" HEAD || exit 2
cleanup() { git -C /repo worktree remove --force "$WT" 2>/dev/null; SFX=$(echo -n "$WT" | md5sum | cut -c1-8); rm -rf "$WT" /verif/out/alt.$SFX.* /verif/out/bin/vcheck.$SFX /verif/out/bin/vcheck-race.$SFX; }
trap cleanup EXIT
if ! git -C "$WT" apply "$PATCH"; then echo "SEEDTEST $ID $(basename "$PATCH"): PATCH DOES NOT APPLY"; exit 2; fi
if ! (cd "$WT" && go build ./... ); then echo "SEEDTEST $ID: DOES NOT COMPILE"; exit 2; fi
if [ "${SKIP_SUITE:-0}" != 1 ]; then
  python3 /verif/tools/baseline.py "$WT" > "$WT.suite" 2>&1 || { echo "SEEDTEST $ID: SUITE FAILS WITH THE CHANGE"; cat "$WT.suite" | head; rm -f "$WT.suite"; exit 2; }
  rm -f "$WT.suite"
fi
rc_all=0
for P in "$ID" "$@"; do
  out=$(cd /verif && VERIF_REPO="$WT" ./run.sh "$P" "$TIER" 2>&1); rc=$?
  nv=$(echo "$out" | grep -c '^VIOLATION')
  clauses=$(echo "$out" | grep 'distinct violations per clause' | head -1)
  echo "SEEDTEST $P $(basename "$(dirname "$PATCH")")/$(basename "$PATCH") tier=$TIER: exit=$rc violations=$nv $clauses"
  echo "$out" | grep -A1 '^  clause=' | head -6
  [ $rc -ne 1 ] && rc_all=1
done
# restore evidence for the real tree is the caller's business (evidence files are rewritten by every run)
exit $rc_all
