#!/bin/bash
# tools/sweep.sh <tier> [seed...]   runs every check in MANIFEST order; prints one line per check
cd "$(dirname "$0")/.."
TIER="${1:-quick}"; shift
SEEDS="${@:-1}"
for seed in $SEEDS; do
for id in $(python3 -c "import json;print(' '.join(c['property_id'] for c in json.load(open('MANIFEST.json'))['checks']))"); do
  out=$(VERIF_SEED=$seed ./run.sh $id $TIER 2>&1); rc=$?
  echo "seed=$seed $id rc=$rc $(echo "$out" | tail -1)"
  if [ $rc -ne 0 ]; then echo "$out" | grep -v '^KNOWN' | tail -15; fi
done
done
