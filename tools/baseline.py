#!/usr/bin/env python3
"""Runs the repository's test suite (guard OFF unless --tags given) and compares with BASELINE.json stable_pass.
usage: baseline.py [repo_dir] [--tags verif]"""
import json, subprocess, sys, os
repo = '/repo'
tags = []
args = sys.argv[1:]
i = 0
while i < len(args):
    if args[i] == '--tags':
        tags = ['-tags', args[i+1]]; i += 2
    else:
        repo = args[i]; i += 1
env = dict(os.environ, GOFLAGS='-mod=mod', GOPROXY='off', GOSUMDB='off', GOTOOLCHAIN='local')
base = json.load(open('/root/.vp/BASELINE.json'))
want = set(base['stable_pass'])
p = subprocess.run(['go', 'test'] + tags + ['-json', '-vet=off', '-count=1', '-timeout', '25m', './...'], cwd=repo, env=env, capture_output=True, text=True)
passed, failed = set(), set()
for ln in p.stdout.splitlines():
    try:
        e = json.loads(ln)
    except Exception:
        continue
    if 'Test' not in e:
        continue
    name = e['Package'] + '::' + e['Test']
    if e.get('Action') == 'pass':
        passed.add(name)
    elif e.get('Action') == 'fail':
        failed.add(name)
missing = sorted(want - passed)
print(f'baseline stable_pass={len(want)} passed_now={len(passed)} failed_now={len(failed)} missing_from_pass={len(missing)}')
for m in missing[:40]:
    print('  NOT PASSING:', m)
unexpected_fail = sorted(f for f in failed if f in want)
sys.exit(1 if missing else 0)
