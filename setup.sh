#!/bin/bash
# Pre-builds the harness (plain and -race) offline so that the first check does not pay for it.
set -e
cd "$(dirname "$0")"
export GOFLAGS=-mod=mod GOPROXY=off GOSUMDB=off GOTOOLCHAIN=local
mkdir -p out/bin evidence
cp /repo/go.sum harness/go.sum 2>/dev/null || true
(cd harness && go build -tags verif -o ../out/bin/vcheck ./cmd/vcheck)
(cd harness && go build -tags verif -race -o ../out/bin/vcheck-race ./cmd/vcheck)
echo setup ok
