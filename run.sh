#!/bin/bash
# ./run.sh <Cxx> quick|thorough        run a check (VERIF_SEED, VERIF_TIER, VERIF_REPO honoured)
# ./run.sh <Cxx> --replay <file>       re-execute one recorded case
set -u
cd "$(dirname "$0")"
ROOT="$(pwd)"
export GOFLAGS=-mod=mod GOPROXY=off GOSUMDB=off GOTOOLCHAIN=local
export VERIF_ROOT="$ROOT"
export VERIF_REPO="${VERIF_REPO:-/repo}"
ID="${1:?property id}"
MODE="${2:-${VERIF_TIER:-quick}}"

mkdir -p out/bin
# Build from the repository's current working tree, hooks on. A scratch copy is
# addressed through a generated -modfile so that /repo is never touched.
MODARGS=()
SUFFIX=""
if [ "$VERIF_REPO" != "/repo" ]; then
  SUFFIX=".$(echo -n "$VERIF_REPO" | md5sum | cut -c1-8)"
  MF="$ROOT/out/alt$SUFFIX.mod"
  sed "s#=> /repo#=> $VERIF_REPO#" harness/go.mod > "$MF"
  cp harness/go.sum "$ROOT/out/alt$SUFFIX.sum"
  MODARGS=(-modfile="$MF")
fi
build() { # $1 = output, rest = extra flags
  local out="$1"; shift
  (cd harness && go build "${MODARGS[@]}" -tags verif "$@" -o "$out" ./cmd/vcheck) || { echo "BUILD FAILED" >&2; exit 2; }
}
BIN="$ROOT/out/bin/vcheck$SUFFIX"
build "$BIN"
case "$ID" in
  C10|C11) RBIN="$ROOT/out/bin/vcheck-race$SUFFIX"; build "$RBIN" -race; export VERIF_RACE_EXE="$RBIN";;
esac
if [ "$MODE" = "--replay" ]; then
  exec "$BIN" replay "${3:?replay file}"
fi
exec "$BIN" run "$ID" "$MODE"
