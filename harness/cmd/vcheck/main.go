// vcheck is the single binary behind every check in MANIFEST.json.
//
//	vcheck run    <Cxx> <quick|thorough>        coordinator (reads VERIF_SEED)
//	vcheck worker <Cxx> <tier> <seed> <shard> <startFrom> <stopAfter>
//	vcheck replay <file>
//	vcheck child  <name> args...                helper processes some checks spawn
package main

import (
	"fmt"
	"os"
	"strconv"

	"verifharness/internal/mon"
	"verifharness/internal/props"
)

func env(k, d string) string {
	if v := os.Getenv(k); v != "" {
		return v
	}
	return d
}

func main() {
	if len(os.Args) < 2 {
		fmt.Fprintln(os.Stderr, "usage: vcheck run|worker|replay|child ...")
		os.Exit(2)
	}
	root := env("VERIF_ROOT", "/verif")
	repo := env("VERIF_REPO", "/repo")
	exe, _ := os.Executable()
	switch os.Args[1] {
	case "run":
		if len(os.Args) < 4 {
			fmt.Fprintln(os.Stderr, "usage: vcheck run <Cxx> <quick|thorough>")
			os.Exit(2)
		}
		def := props.Get(os.Args[2])
		if def == nil {
			fmt.Fprintln(os.Stderr, "unknown property", os.Args[2])
			os.Exit(2)
		}
		tier := os.Args[3]
		if tier != "quick" && tier != "thorough" {
			fmt.Fprintln(os.Stderr, "tier must be quick or thorough")
			os.Exit(2)
		}
		seed, err := strconv.ParseUint(env("VERIF_SEED", "1"), 10, 64)
		if err != nil {
			seed = 1
		}
		os.Exit(mon.RunCheck(def, tier, seed, root, repo, exe))
	case "worker":
		if len(os.Args) < 8 {
			os.Exit(2)
		}
		def := props.Get(os.Args[2])
		if def == nil {
			os.Exit(2)
		}
		seed, _ := strconv.ParseUint(os.Args[4], 10, 64)
		shard, _ := strconv.Atoi(os.Args[5])
		startFrom, _ := strconv.ParseInt(os.Args[6], 10, 64)
		stopAfter, _ := strconv.ParseInt(os.Args[7], 10, 64)
		r := mon.NewRun(def.ID, os.Args[3], seed, shard, repo, env("VERIF_OUTDIR", root+"/out/run/"+def.ID))
		r.Exe = exe
		r.StartWorker(startFrom, stopAfter)
		def.Run(r)
		if err := r.Finish(); err != nil {
			fmt.Fprintln(os.Stderr, err)
			os.Exit(4)
		}
	case "replay":
		if len(os.Args) < 3 {
			os.Exit(2)
		}
		prop, raw, err := mon.ReadReplay(os.Args[2])
		if err != nil {
			fmt.Fprintln(os.Stderr, err)
			os.Exit(2)
		}
		def := props.Get(prop)
		if def == nil || def.Replay == nil {
			fmt.Println("no programmatic replay for this property; the recorded case is printed above and in the file")
			os.Exit(0)
		}
		r := mon.NewRun(def.ID, "quick", 1, 0, repo, root+"/out/run/replay")
		r.Exe = exe
		r.OneShot = true
		def.Replay(r, raw)
		os.Exit(r.ReportReplay())
	case "child":
		os.Exit(props.Child(os.Args[2:]))
	default:
		fmt.Fprintln(os.Stderr, "unknown mode", os.Args[1])
		os.Exit(2)
	}
}
