package ref

import (
	"encoding/json"
	"fmt"
	"net/mail"
	"regexp"
	"strconv"
	"strings"
	"time"

	"verifharness/internal/gen"
)

// Verdict of the reference rule semantics for one example value.
type Verdict int

const (
	Sat Verdict = iota
	Viol
	Unspec
)

func (v Verdict) String() string { return [...]string{"satisfies", "violates", "unspecified"}[v] }

func and(a, b Verdict) Verdict {
	if a == Viol || b == Viol {
		return Viol
	}
	if a == Unspec || b == Unspec {
		return Unspec
	}
	return Sat
}

func anyOf(vs []Verdict) Verdict {
	r := Viol
	for _, v := range vs {
		if v == Sat {
			return Sat
		}
		if v == Unspec {
			r = Unspec
		}
	}
	return r
}

// Val is an example value: kind and raw literal.
type Val struct {
	Kind gen.Kind
	Lit  string
}

func unq(lit string) string {
	var s string
	if json.Unmarshal([]byte(lit), &s) != nil {
		return strings.Trim(lit, `"`)
	}
	return s
}

// Unq decodes a JSON string literal.
func Unq(lit string) string { return unq(lit) }

type evaluator struct {
	p     *gen.Project
	types map[string]*gen.Node
	regex map[string]*regexp.Regexp
	enums map[string][]string
	// Why collects the first violation explanation.
	Why string
}

// Finding describes the verdict for one judged element.
type Finding struct {
	Where   string
	Verdict Verdict
	Why     string
}

// EvalProject applies the documented rule semantics to every example value of
// the project (root and every registered type).
func EvalProject(p *gen.Project) (Verdict, []Finding) {
	e := &evaluator{p: p, types: map[string]*gen.Node{}, regex: map[string]*regexp.Regexp{}, enums: map[string][]string{}}
	for _, t := range p.Types {
		e.types[t.Name] = t.Node
	}
	for _, r := range p.Regexes {
		pat := strings.TrimSuffix(strings.TrimPrefix(r.Text, "/"), "/")
		if re, err := regexp.Compile(pat); err == nil {
			e.regex[r.Name] = re
		}
	}
	for _, en := range p.Enums {
		var raw []json.RawMessage
		if json.Unmarshal([]byte(en.Text), &raw) == nil {
			for _, it := range raw {
				e.enums[en.Name] = append(e.enums[en.Name], string(it))
			}
		}
	}
	total := Sat
	var fs []Finding
	judge := func(where string, root *gen.Node) {
		root.Walk(func(n *gen.Node) {
			v, why := e.evalNode(n)
			if v != Sat {
				fs = append(fs, Finding{where + ":" + describe(n), v, why})
			}
			total = and(total, v)
		})
	}
	judge("root", p.Root)
	for _, t := range p.Types {
		judge(t.Name, t.Node)
	}
	return total, fs
}

func describe(n *gen.Node) string {
	s := n.Lit
	if n.Kind == gen.KObject {
		s = "{…}"
	} else if n.Kind == gen.KArray {
		s = fmt.Sprintf("[%d items]", len(n.Children))
	} else if n.Kind == gen.KRef {
		s = strings.Join(n.Refs, " | ")
	}
	if n.KeyLit != "" {
		s = n.KeyLit + ": " + s
	}
	return s
}

func (e *evaluator) evalNode(n *gen.Node) (Verdict, string) {
	switch n.Kind {
	case gen.KArray:
		cnt := len(n.Children)
		v := Sat
		why := ""
		if rv, ok := n.Rule("minItems"); ok {
			if lim, err := strconv.Atoi(rv.Lit); err == nil && cnt < lim {
				v, why = Viol, fmt.Sprintf("%d items < minItems %d", cnt, lim)
			}
		}
		if rv, ok := n.Rule("maxItems"); ok {
			if lim, err := strconv.Atoi(rv.Lit); err == nil && cnt > lim {
				v, why = Viol, fmt.Sprintf("%d items > maxItems %d", cnt, lim)
			}
		}
		return v, why
	case gen.KObject, gen.KRef:
		return Sat, ""
	}
	return e.evalRules(Val{n.Kind, n.Lit}, n.Rules, false, 0)
}

func ruleLit(rules []gen.Rule, name string) (string, bool) {
	for _, r := range rules {
		if r.Name == name {
			return r.Val.Lit, true
		}
	}
	return "", false
}

func hasRule(rules []gen.Rule, name string) (gen.RV, bool) {
	for _, r := range rules {
		if r.Name == name {
			return r.Val, true
		}
	}
	return gen.RV{}, false
}

// evalRules judges value v against a rule list. own says whether the rules
// belong to another element (a referenced type or an `or` alternative) whose
// own example is exemplar for `const`.
func (e *evaluator) evalRules(v Val, rules []gen.Rule, foreign bool, depth int) (Verdict, string) {
	return e.evalRulesEx(v, rules, nil, depth)
}

// evalRulesEx: exemplar is the example value the rules were written next to
// (nil when it is v itself).
func (e *evaluator) evalRulesEx(v Val, rules []gen.Rule, exemplar *Val, depth int) (Verdict, string) {
	if depth > 12 {
		return Unspec, "reference depth"
	}
	typ, hasType := ruleLit(rules, "type")
	typName := unq(typ)
	nullable := false
	if nl, ok := ruleLit(rules, "nullable"); ok && nl == "true" {
		nullable = true
	}
	if v.Kind == gen.KNull && nullable {
		if hasType && typName != "null" && typName != "any" && typName != "enum" && typName != "mixed" {
			return Unspec, "null example next to an explicit non-null type with nullable"
		}
		if exemplar != nil {
			return Unspec, "null against a referenced type that is itself nullable (documentation silent)"
		}
		return Sat, ""
	}
	// or
	if orv, ok := hasRule(rules, "or"); ok {
		var vs []Verdict
		var whys []string
		for _, alt := range orv.List {
			// an alternative has no example of its own: `const: true` inside it means the annotated value
			av, why := e.evalAlternative(v, alt, exemplar, depth+1)
			vs = append(vs, av)
			whys = append(whys, why)
		}
		r := anyOf(vs)
		if r == Viol {
			return Viol, "no `or` alternative fits: " + strings.Join(whys, "; ")
		}
		return r, "an `or` alternative is unspecified"
	}
	// type reference
	if hasType && strings.HasPrefix(typName, "@") {
		return e.evalAgainstType(v, typName, depth+1)
	}
	res := Sat
	why := ""
	set := func(nv Verdict, w string) {
		if nv == Viol && res != Viol {
			why = w
		} else if nv == Unspec && res == Sat {
			why = w
		}
		res = and(res, nv)
	}
	// kind implied by the exemplar (a referenced type's own example) when no explicit type is given
	effType := ""
	if hasType {
		effType = typName
	} else if exemplar != nil {
		if _, isEnum := hasRule(rules, "enum"); !isEnum {
			effType = exemplar.Kind.String()
		}
	}
	if effType != "" {
		kv, w := kindFits(v, effType)
		set(kv, w)
		if kv == Viol {
			return res, why
		}
	}
	// enum
	if ev, ok := hasRule(rules, "enum"); ok {
		var items []string
		if ev.Bare != "" {
			its, known := e.enums[ev.Bare]
			if !known {
				return Unspec, "enum rule not registered"
			}
			items = its
		} else {
			for _, it := range ev.List {
				items = append(items, it.Lit)
			}
		}
		iv, w := enumHas(items, v)
		set(iv, w)
	}
	// const
	if c, ok := ruleLit(rules, "const"); ok && c == "true" && exemplar != nil {
		cv, w := sameValue(*exemplar, v)
		set(cv, "const: "+w)
	}
	for _, r := range rules {
		switch r.Name {
		case "min", "max":
			if v.Kind != gen.KInt && v.Kind != gen.KFloat {
				set(Unspec, r.Name+" on a non-number")
				continue
			}
			b, ok1 := ParseDec(r.Val.Lit)
			x, ok2 := ParseDec(v.Lit)
			if !ok1 || !ok2 || !JSONNumberRE.MatchString(r.Val.Lit) {
				set(Unspec, "unparsable number")
				continue
			}
			excl := false
			exName := "exclusiveMinimum"
			if r.Name == "max" {
				exName = "exclusiveMaximum"
			}
			if ex, ok := ruleLit(rules, exName); ok && ex == "true" {
				excl = true
			}
			c := x.Cmp(b)
			bad := false
			if r.Name == "min" {
				bad = c < 0 || (excl && c == 0)
			} else {
				bad = c > 0 || (excl && c == 0)
			}
			if bad {
				set(Viol, fmt.Sprintf("%s vs %s %s (exclusive=%v)", v.Lit, r.Name, r.Val.Lit, excl))
			}
		case "minLength", "maxLength":
			if v.Kind != gen.KString {
				set(Unspec, r.Name+" on a non-string")
				continue
			}
			s := unq(v.Lit)
			lim, err := strconv.Atoi(r.Val.Lit)
			if err != nil {
				if regexp.MustCompile(`^[0-9]+$`).MatchString(r.Val.Lit) {
					// a limit beyond the machine word: no string is that long
					if r.Name == "minLength" {
						set(Viol, "minLength "+r.Val.Lit+" exceeds any string")
					}
					continue
				}
				set(Unspec, "limit")
				continue
			}
			n := len([]rune(s)) // the length of a string is its number of characters (as in JSON Schema / OpenAPI)
			bad := n > lim
			if r.Name == "minLength" {
				bad = n < lim
			}
			if bad {
				set(Viol, fmt.Sprintf("length %d vs %s %d", n, r.Name, lim))
			}
		case "regex":
			if v.Kind != gen.KString {
				set(Unspec, "regex on a non-string")
				continue
			}
			re, err := regexp.Compile(unq(r.Val.Lit))
			if err != nil {
				set(Unspec, "pattern")
				continue
			}
			if !re.MatchString(unq(v.Lit)) {
				set(Viol, fmt.Sprintf("%s does not match %s", v.Lit, r.Val.Lit))
			}
		case "precision":
			if v.Kind != gen.KInt && v.Kind != gen.KFloat {
				set(Unspec, "precision on a non-number")
				continue
			}
			lim, err := strconv.Atoi(r.Val.Lit)
			x, ok := ParseDec(v.Lit)
			if err != nil || !ok {
				set(Unspec, "precision")
				continue
			}
			written := 0
			if i := strings.IndexByte(v.Lit, '.'); i >= 0 {
				written = len(v.Lit) - i - 1
			}
			sig := x.FracLen()
			if (written > lim) != (sig > lim) {
				set(Unspec, "trailing zeros decide the precision verdict")
			} else if sig > lim {
				set(Viol, fmt.Sprintf("%s has %d fraction digits > precision %d", v.Lit, sig, lim))
			}
		}
	}
	return res, why
}

// kindFits judges a value against a built-in type name.
func kindFits(v Val, t string) (Verdict, string) {
	bad := func() (Verdict, string) { return Viol, fmt.Sprintf("%s is not of type %s", v.Lit, t) }
	switch t {
	case "any":
		return Sat, ""
	case "string":
		if v.Kind != gen.KString {
			return bad()
		}
	case "integer":
		if v.Kind == gen.KFloat {
			if x, ok := ParseDec(v.Lit); ok && x.FracLen() == 0 {
				return Unspec, "float literal with integral value under type integer"
			}
			return bad()
		}
		if v.Kind != gen.KInt {
			return bad()
		}
	case "float", "decimal":
		if v.Kind == gen.KInt {
			return Unspec, "integer literal under type float"
		}
		if v.Kind != gen.KFloat {
			return bad()
		}
	case "boolean":
		if v.Kind != gen.KBool {
			return bad()
		}
	case "null":
		if v.Kind != gen.KNull {
			return bad()
		}
	case "object", "array":
		return bad() // v is a scalar
	case "email", "uri", "uuid", "date", "datetime":
		if v.Kind != gen.KString {
			return bad()
		}
		return formatFits(unq(v.Lit), t)
	case "enum", "mixed":
		return Sat, ""
	default:
		return Unspec, "unknown type name " + t
	}
	return Sat, ""
}

func inPool(s string, pool []string) bool {
	for _, p := range pool {
		if p == s {
			return true
		}
	}
	return false
}

// formatFits: independent checks for date/datetime/uuid; hand-labelled pools for email and uri.
func formatFits(s, f string) (Verdict, string) {
	no := func() (Verdict, string) { return Viol, fmt.Sprintf("%q is not a valid %s", s, f) }
	switch f {
	case "email":
		if inPool(s, gen.ValidEmails) {
			if _, err := mail.ParseAddress(s); err == nil {
				return Sat, ""
			}
		}
		if inPool(s, gen.InvalidEmails) {
			return no()
		}
		return Unspec, "email outside the labelled pools"
	case "uri":
		if inPool(s, gen.ValidURIs) {
			return Sat, ""
		}
		if inPool(s, gen.InvalidURIs) {
			return no()
		}
		return Unspec, "uri outside the labelled pools"
	case "uuid":
		if regexp.MustCompile(`^[0-9a-fA-F]{8}-[0-9a-fA-F]{4}-[0-9a-fA-F]{4}-[0-9a-fA-F]{4}-[0-9a-fA-F]{12}$`).MatchString(s) {
			return Sat, ""
		}
		canonical := regexp.MustCompile(`^[0-9a-fA-F]{8}-[0-9a-fA-F]{4}-[0-9a-fA-F]{4}-[0-9a-fA-F]{4}-[0-9a-fA-F]{12}$`)
		switch len(s) {
		case 45: // URN form; the prefix is case-insensitive (RFC 2141 / RFC 4122)
			if strings.EqualFold(s[:9], "urn:uuid:") && canonical.MatchString(s[9:]) {
				return Sat, ""
			}
			return no()
		case 38: // Microsoft form in braces
			if s[0] == '{' && s[37] == '}' && canonical.MatchString(s[1:37]) {
				return Sat, ""
			}
			return no()
		case 32: // 32 hex digits
			if regexp.MustCompile(`^[0-9a-fA-F]{32}$`).MatchString(s) {
				return Sat, ""
			}
			return no()
		}
		return no()
	case "date":
		if !regexp.MustCompile(`^[0-9]{4}-[0-9]{2}-[0-9]{2}$`).MatchString(s) {
			return no()
		}
		y, _ := strconv.Atoi(s[:4])
		m, _ := strconv.Atoi(s[5:7])
		d, _ := strconv.Atoi(s[8:])
		if m < 1 || m > 12 || d < 1 || d > daysIn(y, m) {
			return no()
		}
		return Sat, ""
	case "datetime":
		m := regexp.MustCompile(`^([0-9]{4})-([0-9]{2})-([0-9]{2})T([0-9]{2}):([0-9]{2}):([0-9]{2})(\.[0-9]+)?(Z|[+-][0-9]{2}:[0-9]{2})$`).FindStringSubmatch(s)
		if m == nil {
			return no()
		}
		y, _ := strconv.Atoi(m[1])
		mo, _ := strconv.Atoi(m[2])
		d, _ := strconv.Atoi(m[3])
		h, _ := strconv.Atoi(m[4])
		mi, _ := strconv.Atoi(m[5])
		se, _ := strconv.Atoi(m[6])
		if mo < 1 || mo > 12 || d < 1 || d > daysIn(y, mo) || h > 23 || mi > 59 || se > 59 {
			if se == 60 {
				return Unspec, "leap second"
			}
			return no()
		}
		if _, err := time.Parse(time.RFC3339, s); err != nil {
			return Unspec, "RFC 3339 corner"
		}
		return Sat, ""
	}
	return Unspec, ""
}

func daysIn(y, m int) int {
	switch m {
	case 4, 6, 9, 11:
		return 30
	case 2:
		if y%4 == 0 && (y%100 != 0 || y%400 == 0) {
			return 29
		}
		return 28
	}
	return 31
}

// sameValue: equality of two example values for enum / const.
func sameValue(a, b Val) (Verdict, string) {
	aNum := a.Kind == gen.KInt || a.Kind == gen.KFloat
	bNum := b.Kind == gen.KInt || b.Kind == gen.KFloat
	switch {
	case a.Kind == gen.KString && b.Kind == gen.KString:
		if unq(a.Lit) == unq(b.Lit) {
			return Sat, ""
		}
		return Viol, fmt.Sprintf("%s is not %s", b.Lit, a.Lit)
	case aNum && bNum:
		if a.Lit == b.Lit {
			return Sat, ""
		}
		x, ok1 := ParseDec(a.Lit)
		y, ok2 := ParseDec(b.Lit)
		if ok1 && ok2 && x.Cmp(y) == 0 {
			return Unspec, "numbers equal in value but not in text"
		}
		return Viol, fmt.Sprintf("%s is not %s", b.Lit, a.Lit)
	case a.Kind == b.Kind:
		if a.Lit == b.Lit {
			return Sat, ""
		}
		return Viol, fmt.Sprintf("%s is not %s", b.Lit, a.Lit)
	}
	return Viol, fmt.Sprintf("%s is not %s", b.Lit, a.Lit)
}

func enumHas(items []string, v Val) (Verdict, string) {
	r := Viol
	for _, it := range items {
		sv, _ := sameValue(Val{gen.KindOfLiteral(it), it}, v)
		if sv == Sat {
			return Sat, ""
		}
		if sv == Unspec {
			r = Unspec
		}
	}
	if r == Viol {
		return Viol, fmt.Sprintf("%s is not one of [%s]", v.Lit, strings.Join(items, ", "))
	}
	return r, "enum member equal in value but not in text"
}

// evalAlternative judges v against one item of an `or` list.
func (e *evaluator) evalAlternative(v Val, alt gen.RV, exemplar *Val, depth int) (Verdict, string) {
	switch {
	case alt.IsSet || len(alt.Set) > 0:
		var ex *Val
		if c, ok := ruleLit(alt.Set, "const"); ok && c == "true" {
			ex = exemplar // only the constant looks at it (nil: the value is the annotated value itself)
		}
		return e.evalRulesEx(v, alt.Set, ex, depth)
	case alt.Lit != "":
		name := unq(alt.Lit)
		if strings.HasPrefix(name, "@") {
			return e.evalAgainstType(v, name, depth)
		}
		return kindFits(v, name)
	}
	return Unspec, "odd alternative"
}

// evalAgainstType: is v a valid instance of the user type?
func (e *evaluator) evalAgainstType(v Val, name string, depth int) (Verdict, string) {
	if depth > 12 {
		return Unspec, "reference depth"
	}
	if re, ok := e.regex[name]; ok {
		if v.Kind != gen.KString {
			return Viol, fmt.Sprintf("%s is not a string for regex type %s", v.Lit, name)
		}
		if re.MatchString(unq(v.Lit)) {
			return Sat, ""
		}
		return Viol, fmt.Sprintf("%s does not match regex type %s", v.Lit, name)
	}
	t, ok := e.types[name]
	if !ok {
		return Unspec, "type " + name + " not registered"
	}
	if _, ok := t.Rule("or"); ok && (t.Kind == gen.KObject || t.Kind == gen.KArray) {
		// a container that is only the example of a choice of types: the alternatives decide
		ex := Val{t.Kind, t.Lit}
		return e.evalRulesEx(v, t.Rules, &ex, depth+1)
	}
	switch t.Kind {
	case gen.KObject, gen.KArray:
		if v.Kind == gen.KNull {
			if nl, ok := t.Rule("nullable"); ok && nl.Lit == "true" {
				return Unspec, "null against a referenced nullable container type (documentation silent)"
			}
		}
		return Viol, fmt.Sprintf("%s is a scalar, %s is %s", v.Lit, name, t.Kind)
	case gen.KRef:
		if v.Kind == gen.KNull {
			if nl, ok := t.Rule("nullable"); ok && nl.Lit == "true" {
				return Unspec, "null against a referenced nullable choice type (documentation silent)"
			}
		}
		var vs []Verdict
		for _, r := range t.Refs {
			rv, _ := e.evalAgainstType(v, r, depth+1)
			vs = append(vs, rv)
		}
		r := anyOf(vs)
		if r == Viol {
			return Viol, fmt.Sprintf("%s fits none of %s", v.Lit, strings.Join(t.Refs, " | "))
		}
		return r, ""
	}
	ex := Val{t.Kind, t.Lit}
	return e.evalRulesEx(v, t.Rules, &ex, depth+1)
}
