// Package ref holds the small reference models the oracles compare against.
package ref

import (
	"math/big"
	"regexp"
	"strconv"
	"strings"
)

// JSONNumberRE is the RFC 8259 number grammar.
var JSONNumberRE = regexp.MustCompile(`^-?(0|[1-9][0-9]*)(\.[0-9]+)?([eE][+-]?[0-9]+)?$`)

// Dec is an exact decimal: (-1)^Neg * Digits * 10^Exp, with Digits free of
// leading and trailing zeros ("" for zero, Neg false, Exp 0).
type Dec struct {
	Neg    bool
	Digits string
	Exp    int
}

// ParseDec parses a JSON number (grammar must have been checked) exactly.
// ok=false if the exponent does not fit an int.
func ParseDec(s string) (d Dec, ok bool) {
	if strings.HasPrefix(s, "-") {
		d.Neg = true
		s = s[1:]
	}
	exp := 0
	if i := strings.IndexAny(s, "eE"); i >= 0 {
		e, err := strconv.Atoi(s[i+1:])
		if err != nil {
			return Dec{}, false
		}
		exp = e
		s = s[:i]
	}
	if i := strings.IndexByte(s, '.'); i >= 0 {
		exp -= len(s) - i - 1
		s = s[:i] + s[i+1:]
	}
	s = strings.TrimLeft(s, "0")
	t := strings.TrimRight(s, "0")
	exp += len(s) - len(t)
	if t == "" {
		return Dec{}, true
	}
	d.Digits = t
	d.Exp = exp
	return d, true
}

// Cmp compares exactly.
func (a Dec) Cmp(b Dec) int {
	az, bz := a.Digits == "", b.Digits == ""
	switch {
	case az && bz:
		return 0
	case az:
		if b.Neg {
			return 1
		}
		return -1
	case bz:
		if a.Neg {
			return -1
		}
		return 1
	}
	if a.Neg != b.Neg {
		if a.Neg {
			return -1
		}
		return 1
	}
	m := cmpMag(a, b)
	if a.Neg {
		return -m
	}
	return m
}

func cmpMag(a, b Dec) int {
	// position of the most significant digit
	ma, mb := len(a.Digits)+a.Exp, len(b.Digits)+b.Exp
	if ma != mb {
		if ma < mb {
			return -1
		}
		return 1
	}
	n := len(a.Digits)
	if len(b.Digits) > n {
		n = len(b.Digits)
	}
	for i := 0; i < n; i++ {
		var x, y byte = '0', '0'
		if i < len(a.Digits) {
			x = a.Digits[i]
		}
		if i < len(b.Digits) {
			y = b.Digits[i]
		}
		if x != y {
			if x < y {
				return -1
			}
			return 1
		}
	}
	return 0
}

// FracLen is the minimal d >= 0 with value*10^d integral.
func (a Dec) FracLen() int {
	if a.Digits == "" || a.Exp >= 0 {
		return 0
	}
	return -a.Exp
}

// Rat converts to big.Rat (only sensible for small exponents).
func (a Dec) Rat() *big.Rat {
	if a.Digits == "" {
		return new(big.Rat)
	}
	n, _ := new(big.Int).SetString(a.Digits, 10)
	if a.Neg {
		n.Neg(n)
	}
	r := new(big.Rat).SetInt(n)
	p := new(big.Int).Exp(big.NewInt(10), big.NewInt(int64(abs(a.Exp))), nil)
	if a.Exp >= 0 {
		return r.Mul(r, new(big.Rat).SetInt(p))
	}
	return r.Quo(r, new(big.Rat).SetInt(p))
}

func abs(i int) int {
	if i < 0 {
		return -i
	}
	return i
}

// zeroExpRE is the carved-out family of the known finding "NewNumber rejects a
// zero integer mantissa followed directly by an exponent" (the repository's own
// TestNewNumber pins 0e0 and 0e2 as invalid, so it cannot be repaired here).
var zeroExpRE = regexp.MustCompile(`^-?0[eE][+-]?[0-9]+$`)

// ZeroExp reports membership in that family.
func ZeroExp(s string) bool { return zeroExpRE.MatchString(s) }
