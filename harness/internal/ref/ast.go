package ref

import (
	"fmt"
	"regexp"
	"strings"

	schema "github.com/jsightapi/jsight-schema-core"

	"verifharness/internal/gen"
)

// CompareAST walks the model and the AST the library returned in parallel and
// returns "" or "<clause>: description" for the first difference. Only what
// the statement of C04 names is compared: one node per element in source
// order, kind, key and key-shortcut flag, decoded scalar value / reference
// text, note, and the manually written rules (names, order, values).
func CompareAST(n *gen.Node, a schema.ASTNode, path string) string {
	if a.TokenType != n.Kind.TokenType() {
		return fmt.Sprintf("ast-kind: %s: TokenType %q, the source has a %s", path, a.TokenType, n.Kind.TokenType())
	}
	if a.Key != n.Key {
		return fmt.Sprintf("ast-key: %s: Key %q, the source key decodes to %q", path, a.Key, n.Key)
	}
	if a.IsKeyShortcut != n.KeyIsRef {
		return fmt.Sprintf("ast-key: %s: IsKeyShortcut=%v, source key %s", path, a.IsKeyShortcut, n.KeyLit)
	}
	switch n.Kind {
	case gen.KObject, gen.KArray:
		if a.Value != "" {
			return fmt.Sprintf("ast-value: %s: container with Value %q", path, a.Value)
		}
	case gen.KString:
		if want := Unq(n.Lit); a.Value != want {
			return fmt.Sprintf("ast-value: %s: Value %q, the literal %s decodes to %q", path, a.Value, n.Lit, want)
		}
	case gen.KRef:
		if want := strings.Join(n.Refs, " | "); pipeBlanks.ReplaceAllString(a.Value, " | ") != want {
			return fmt.Sprintf("ast-value: %s: Value %q, the source says %q", path, a.Value, want)
		}
	default:
		if a.Value != n.Lit {
			return fmt.Sprintf("ast-value: %s: Value %q, the source literal is %s", path, a.Value, n.Lit)
		}
	}
	if normNote(a.Comment) != normNote(n.Note) {
		return fmt.Sprintf("ast-note: %s: Comment %q, the annotation's note is %q", path, a.Comment, n.Note)
	}
	// rules
	var got []namedRule
	if a.Rules != nil {
		a.Rules.EachSafe(func(k string, v schema.RuleASTNode) {
			if v.Source != schema.RuleASTNodeSourceGenerated {
				got = append(got, namedRule{k, v})
			}
		})
	}
	if d := compareRuleList(n.Rules, got, path); d != "" {
		return d
	}
	if len(a.Children) != len(n.Children) {
		return fmt.Sprintf("ast-shape: %s: %d children, the source has %d", path, len(a.Children), len(n.Children))
	}
	for i, c := range n.Children {
		p := fmt.Sprintf("%s[%d]", path, i)
		if c.KeyLit != "" {
			p = path + "." + c.Key
		}
		if d := CompareAST(c, a.Children[i], p); d != "" {
			return d
		}
	}
	return ""
}

var pipeBlanks = regexp.MustCompile(`[ \t]*\|[ \t]*`)

type namedRule struct {
	name string
	v    schema.RuleASTNode
}

// normNote: the note is the text behind the dash (or the whole annotation text) without the blanks and line
// breaks around it: the generator's notes have none, so the AST must report them byte for byte.
func normNote(s string) string {
	return s
}

func compareRuleList(want []gen.Rule, got []namedRule, path string) string {
	names := func() (w, g []string) {
		for _, r := range want {
			w = append(w, r.Name)
		}
		for _, r := range got {
			g = append(g, r.name)
		}
		return
	}
	w, g := names()
	if strings.Join(w, ",") != strings.Join(g, ",") {
		return fmt.Sprintf("ast-rules: %s: rules %v, the annotation has %v", path, g, w)
	}
	for i, r := range want {
		if d := compareRV(r.Val, got[i].v, path+"{"+r.Name+"}"); d != "" {
			return d
		}
	}
	return ""
}

func compareRV(want gen.RV, got schema.RuleASTNode, path string) string {
	switch {
	case want.IsList || len(want.List) > 0:
		if got.TokenType != schema.TokenTypeArray {
			return fmt.Sprintf("ast-rules: %s: TokenType %q for a list value", path, got.TokenType)
		}
		if len(got.Items) != len(want.List) {
			return fmt.Sprintf("ast-rules: %s: %d items, the source list has %d", path, len(got.Items), len(want.List))
		}
		for i, it := range want.List {
			if d := compareRV(it, got.Items[i], fmt.Sprintf("%s[%d]", path, i)); d != "" {
				return d
			}
		}
		return ""
	case want.IsSet || len(want.Set) > 0:
		if got.TokenType != schema.TokenTypeObject {
			return fmt.Sprintf("ast-rules: %s: TokenType %q for a rule-set", path, got.TokenType)
		}
		var props []namedRule
		if got.Properties != nil {
			got.Properties.EachSafe(func(k string, v schema.RuleASTNode) { props = append(props, namedRule{k, v}) })
		}
		return compareRuleList(want.Set, props, path)
	case want.Bare != "":
		if got.Value != want.Bare || got.TokenType != schema.TokenTypeShortcut {
			return fmt.Sprintf("ast-rules: %s: %s %q, the source says %s", path, got.TokenType, got.Value, want.Bare)
		}
		return ""
	}
	lit := want.Lit
	switch gen.KindOfLiteral(lit) {
	case gen.KString:
		dec := Unq(lit)
		if got.Value != dec {
			return fmt.Sprintf("ast-rules: %s: Value %q, the source value %s decodes to %q", path, got.Value, lit, dec)
		}
		if got.TokenType != schema.TokenTypeString && !(strings.HasPrefix(dec, "@") && got.TokenType == schema.TokenTypeShortcut) {
			return fmt.Sprintf("ast-rules: %s: TokenType %q for the string value %s", path, got.TokenType, lit)
		}
	case gen.KInt, gen.KFloat:
		if got.TokenType != schema.TokenTypeNumber {
			return fmt.Sprintf("ast-rules: %s: TokenType %q for the number %s", path, got.TokenType, lit)
		}
		// "same values": the number as written (2.50 stays 2.50); a differently spelled but equal number is
		// tolerated only for the unsigned-integer rules, whose spelling has no freedom anyway
		if got.Value != lit {
			a, ok1 := ParseDec(lit)
			b, ok2 := ParseDec(got.Value)
			if !ok1 || !ok2 || !JSONNumberRE.MatchString(got.Value) || a.Cmp(b) != 0 || strings.ContainsAny(lit, ".eE-") {
				return fmt.Sprintf("ast-rules: %s: Value %q, the source says %s", path, got.Value, lit)
			}
		}
	case gen.KBool:
		if got.TokenType != schema.TokenTypeBoolean || got.Value != lit {
			return fmt.Sprintf("ast-rules: %s: %s %q, the source says %s", path, got.TokenType, got.Value, lit)
		}
	default:
		if got.TokenType != schema.TokenTypeNull || got.Value != lit {
			return fmt.Sprintf("ast-rules: %s: %s %q, the source says %s", path, got.TokenType, got.Value, lit)
		}
	}
	return ""
}
