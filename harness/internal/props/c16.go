package props

import (
	"strings"

	"verifharness/internal/mon"
)

func c16Judge(r *mon.Run) func(c call, hc hostileCase) {
	return func(c call, hc hostileCase) {
		if c.Panic != nil || c.Err == nil {
			return
		}
		if strings.HasPrefix(c.Entry, "openapi.") {
			return // the statement is about the schema, enum-rule, regex and JSON-document entry points
		}
		r.Count("rejections_judged", 1)
		r.Nontrivial("rej", c.Entry, c.Text, hc.Source)
		judgeError(r, c, hc)
	}
}

func init() {
	register(&mon.CheckDef{
		ID:                 "C16",
		Run:                func(r *mon.Run) { hostileRun(r, c16Judge(r)) },
		Replay:             hostileReplay(c16Judge),
		Rule:               "the same hostile workload as C02 (exhaustive token strings per entry-point family, every truncation / token mutation / CRLF and CR variant of every test-corpus literal, random soups, self-referencing type projects, nesting ladder); every call that returns an error is judged: dynamic type must be kit.JSchemaError / *errs.Err / errs.Err (never a runtime.Error), code not 1 and defined in errs/code.go, message non-empty and free of %!, 0xc0, 'runtime error', 'goroutine' (unless quoted from the input), Error() must not panic; for positioned errors without IncorrectUserType: index inside the text, line/column equal to the harness's 1-based computation for LF-only, CRLF-only and CR-only texts, rendered text quotes the source line. distinct_nontrivial = distinct (entry point, rejected text) pairs (hashed).",
		MinNontrivialQuick: 100000, MinNontrivialThorough: 1000000,
		Assumptions: []string{"line/column reference: a terminator byte belongs to the line it ends; mixed newline conventions are not judged for line/column", "positions of errors that carry IncorrectUserType are not judged (recorded finding: type-relative index under the root file name)",
			"message wording is not judged"},
		Exhaustive: "see C02: same enumerators",
		Finalize:   foldScanPairs,
	})
}
