package props

import (
	stdjson "encoding/json"
	"errors"
	"fmt"
	"math/rand/v2"
	"strings"
	"time"

	"github.com/jsightapi/jsight-schema-core/errs"
	"github.com/jsightapi/jsight-schema-core/kit"
	"github.com/jsightapi/jsight-schema-core/notations/jschema"
	"github.com/jsightapi/jsight-schema-core/verifhook"

	"verifharness/internal/gen"
	"verifharness/internal/mon"
)

// hostileCase is one unit of the shared C02/C16 workload.
type hostileCase struct {
	Kind    string   `json:"kind"` // text | project
	Which   entrySet `json:"which,omitempty"`
	Text    string   `json:"text,omitempty"`
	Project *project `json:"project,omitempty"`
	Source  string   `json:"source"`
}

var schemaAlpha = []string{"{", "}", "[", "]", ":", ",", `"`, `"a"`, `\`, "0", "1", "-", ".", "t", "true", "null", "@", "@a", "|", "//", "/*", "*/", "*", "/", "#", "##", "###", "{min:1}", "min", " ", "\n", "\r", `"k":`, "or"}

var enumAlpha = []string{"[", "]", ",", `"a"`, `"a.b"`, `"1"`, "1", "1.0", "-1", "true", "null", `"\ud83d"`, "//", " c", "/*", "*/", "*", "x", "\n", " ", "#", `"`, `\ud83d`, `\u00e9`, `\`}

var regexAlpha = []string{"/", `\`, "a", ".", "*", "+", "?", "(", ")", "[", "]", "^", "$", "|", "{", "}", "1", ",", "-", `"`, "\xc3\xa9", "\x7f", "\t"}

var numAlpha = []string{"0", "1", "9", "-", "+", ".", "e", "E", "x", " "}

var docAlpha = []string{"{", "}", "[", "]", ":", ",", `"`, `\`, "u", "0", "1", "-", ".", "e", "t", "true", "null", " ", "\n", "x"}

// reference templates for small projects of mutually/self-referencing types
var refTemplates = []string{
	`@A`, `@A | @B`, `{"k": @A}`, `{@A: 1}`, `[@A]`, `1 // {type: "@A"}`, `{} // {allOf: "@A"}`, `{} // {additionalProperties: "@A"}`,
	`1 // {or: ["@A", "@B"]}`, `{"k": @A | @B}`, `{"k": 1, "r": @A // {optional: true}}`, `[@A, @B]`, `{@A: @B}`, `"s" // {or: [{type: "@A"}, {type: "string"}]}`,
	`{"k": @A // {nullable: true}}`, `{} // {allOf: ["@A", "@B"]}`, `"x"`, `{"a": 1}`,
	// names that are never registered, alone and as one alternative of a choice
	`@A | @zz`, `@zz | @A`, `@zz`, `"abc"`, `{@A: 1, @B: 2}`, `"abc" // {type: "@zz"}`,
}

func instTemplate(t string, a, b string) string {
	return strings.ReplaceAll(strings.ReplaceAll(t, "@A", a), "@B", b)
}

// hostileWorkload enumerates the cases of this shard and hands them to run,
// which returns the number of leading bytes the schema scanner consumed when
// every schema entry point rejected the text (for pruning), or -1.
func hostileWorkload(r *mon.Run, run func(hostileCase) (consumedIfAllRejected int)) {
	text := func(which entrySet, s, src string) int {
		return run(hostileCase{Kind: "text", Which: which, Text: s, Source: src})
	}
	// (a) exhaustive token strings, per entry-point family
	type fam struct {
		name  string
		alpha []string
		which entrySet
		q, t  int
		prune bool
	}
	fams := []fam{
		{"schema tokens", schemaAlpha, epSchema, 4, 5, true},
		{"enum tokens", enumAlpha, epEnum, 4, 6, false},
		{"regex bytes", regexAlpha, epRegex, 4, 5, false},
		{"number bytes", numAlpha, epNumber | epGuess, 5, 7, false},
		{"document tokens", docAlpha, epDoc, 4, 5, false},
	}
	for _, f := range fams {
		L := r.Pick(f.q, f.t)
		var pruned, visited int64
		gen.TokensShardedAt(f.alpha, L, 2, r.Shard, mon.LogicalShards, func(s []byte, n int, dup bool) bool {
			if dup && !f.prune {
				return true
			}
			if !dup {
				visited++
			}
			consumed := text(f.which, string(s), f.name)
			if f.prune && consumed >= 0 && consumed+3 <= len(s) {
				if !dup {
					pruned++
				}
				return false
			}
			return true
		})
		r.Count("exhaustive:"+f.name+":visited", visited)
		if f.prune {
			r.Count("exhaustive:"+f.name+":pruned_subtrees", pruned)
		}
	}
	// (a'') number-shaped byte strings hosted where each scanner has its own copy of the JSON number grammar
	{
		L := r.Pick(5, 6)
		var visited int64
		gen.TokensShardedAt([]string{"0", "1", "-", "+", ".", "e", "x"}, L, 2, r.Shard, mon.LogicalShards, func(s []byte, n int, dup bool) bool {
			if dup {
				return true
			}
			visited++
			num := string(s)
			text(epEnum, "["+num+"]", "number bytes in an enum rule")
			text(epEnum, "[1, "+num, "number bytes in an enum rule")
			text(epSchema, `{"a": `+num+"}", "number bytes in a schema")
			text(epSchema, "1 // {min: "+num+"}", "number bytes in a schema rule")
			text(epSchema, "1 // {enum: [2, "+num+"]}", "number bytes in a schema rule")
			text(epDoc, "["+num+"]", "number bytes in a document")
			return true
		})
		r.Count("exhaustive:hosted number bytes:visited", visited)
	}
	// (a') annotation bodies: token strings placed inside `1 /* … */` and after `1 // `, so that rule values
	// (enum / or lists, rule-sets, references) meet comments, notes and line breaks in every order
	{
		annAlpha := []string{"{", "}", "{enum:", "{or:", "{min:", "{type:", "[", "]", ",", "1", `"a"`, `"string"`, `""`, "@e", "// c\n", "/* c */", "\n", " - note", "# c\n"}
		L := r.Pick(5, 6)
		var visited int64
		gen.TokensShardedAt(annAlpha, L, 2, r.Shard, mon.LogicalShards, func(s []byte, n int, dup bool) bool {
			if dup {
				return true
			}
			visited++
			text(epSchema, "1 /* "+string(s)+" */", "annotation body tokens (multi-line annotation)")
			text(epSchema, "1 // "+string(s), "annotation body tokens (inline annotation)")
			return true
		})
		r.Count("exhaustive:annotation body tokens:visited", visited)
	}
	// (a3) the same with an enum rule @e and a type @t registered, so that bare references inside an annotation are
	// resolved and the loader goes on to what follows them (line breaks, commas, further rules, notes)
	{
		refAlpha := []string{"{", "}", "{enum:", "{type:", "@e", `"@t"`, ",", "\n", " ", "minLength: 1", "// c\n", " - note", `"a"`}
		L := r.Pick(5, 6)
		var visited int64
		rules := []typeDef{{Name: "@e", Text: `["a", "z"]`}}
		types := []typeDef{{Name: "@t", Text: `"a" // {minLength: 1}`}}
		gen.TokensShardedAt(refAlpha, L, 2, r.Shard, mon.LogicalShards, func(s []byte, n int, dup bool) bool {
			if dup {
				return true
			}
			visited++
			p := project{Root: `"a" /* ` + string(s) + ` */`, Rules: rules, Types: types}
			run(hostileCase{Kind: "project", Project: &p, Source: "annotation body tokens with a registered rule and type"})
			if visited%3 == 0 {
				q := project{Root: "{\n  \"k\": \"a\" // " + strings.ReplaceAll(string(s), "\n", " ") + "\n}", Rules: rules, Types: types}
				run(hostileCase{Kind: "project", Project: &q, Source: "annotation body tokens with a registered rule and type"})
			}
			return true
		})
		r.Count("exhaustive:annotation body tokens with registered names:visited", visited)
	}
	// (f3) an or rule on every kind of example, written as names and as rule-sets, with and without nullable
	// (accepted ones are converted to OpenAPI)
	{
		oi := 0
		for _, ex := range []string{"null", "1", `"s"`, "true", "1.5", "{}", "[]", "@t"} {
			for _, list := range []string{`["null", "string"]`, `["integer", "string"]`, `[{type: "null"}, {type: "boolean"}]`, `["@t", "float"]`, `[{type: "@t", nullable: true}, "null"]`,
				`["object", "array"]`, `[{type: "enum", enum: [null, 1, "s"]}, "any"]`, `["mixed", "decimal"]`, `[{type: "string", minLength: 0}, {type: "integer", min: 0}, "null"]`} {
				for _, extra := range []string{"", ", nullable: true", ", nullable: false", ", optional: true", `, type: "mixed"`} {
					if r.Mine(oi) {
						types := []typeDef{{Name: "@t", Text: `1.5 // {min: 0}`}}
						for _, root := range []string{ex + " // {or: " + list + extra + "}", "{\n  \"k\": " + ex + " // {or: " + list + extra + "}\n}", "[\n  " + ex + " // {or: " + list + extra + "}\n]"} {
							p := project{Root: root, Types: types}
							run(hostileCase{Kind: "project", Project: &p, Source: "or rule on every kind of example"})
						}
					}
					oi++
				}
			}
		}
	}
	// (b) corpus: every truncation (quick: every literal of this shard; long literals sampled), single-token mutations (thorough: all)
	corpus := gen.Corpus(r.Repo)
	r.CountMax("max:corpus_literals", int64(len(corpus)))
	rng := r.Rand("c02-corpus")
	for i, lit := range corpus {
		if !r.Mine(i) {
			continue
		}
		step := 1
		if r.Quick() && len(lit) > 400 {
			step = 7
		}
		for cut := 0; cut <= len(lit); cut += step {
			text(epAll, lit[:cut], "corpus truncation")
		}
		text(epAll, lit, "corpus literal")
		toks := gen.SplitTokens(lit)
		nm := len(toks) * 3
		if r.Quick() && nm > 12 {
			nm = 12
		}
		for m := 0; m < nm; m++ {
			j := m / 3
			if r.Quick() {
				j = rng.IntN(len(toks))
			}
			mt := append([]string(nil), toks...)
			switch m % 3 {
			case 0:
				mt = append(mt[:j], mt[j+1:]...)
			case 1:
				mt = append(mt[:j+1], mt[j:]...)
			default:
				mt[j] = schemaAlpha[rng.IntN(len(schemaAlpha))]
			}
			text(epSchema|epEnum|epDoc, strings.Join(mt, ""), "corpus token mutation")
		}
		for _, nl := range []string{"\r\n", "\r"} {
			if strings.Contains(lit, "\n") && !strings.Contains(lit, "\r") {
				t := strings.ReplaceAll(lit, "\n", nl)
				for cut := 0; cut <= len(t); cut += 1 + len(t)/40 {
					text(epSchema|epEnum|epDoc, t[:cut], "corpus truncation, other newline convention")
				}
			}
		}
	}
	// (c) random soups
	soup := r.Rand("c02-soup")
	n := r.Share(r.Pick(20_000, 600_000))
	for i := 0; i < n; i++ {
		var sb strings.Builder
		ln := 1 + soup.IntN(60)
		if soup.IntN(50) == 0 {
			ln = 1000 + soup.IntN(8000)
		}
		switch soup.IntN(3) {
		case 0:
			for k := 0; k < ln; k++ {
				sb.WriteByte(byte(soup.IntN(256)))
			}
		case 1:
			for k := 0; k < ln; k++ {
				sb.WriteString(schemaAlpha[soup.IntN(len(schemaAlpha))])
			}
		default:
			all := [][]string{schemaAlpha, enumAlpha, regexAlpha, numAlpha, docAlpha}
			for k := 0; k < ln; k++ {
				a := all[soup.IntN(len(all))]
				sb.WriteString(a[soup.IntN(len(a))])
			}
		}
		text(epAll, sb.String(), "random soup")
	}
	// (d) small projects of mutually / self-referencing types
	names := []string{"@a", "@b", "@c"}
	idx := 0
	nt := len(refTemplates)
	two := func(k int) {
		// all assignments of templates to k types and the root, references drawn among the k names
		var rec func(level int, chosen []string)
		rec = func(level int, chosen []string) {
			if level == k+1 {
				if r.Mine(idx) {
					p := project{Root: chosen[0]}
					for i := 0; i < k; i++ {
						p.Types = append(p.Types, typeDef{Name: names[i], Text: chosen[i+1]})
					}
					run(hostileCase{Kind: "project", Project: &p, Source: fmt.Sprintf("reference templates over %d types", k)})
					// the root registered under its own name as well
					p2 := p
					p2.Types = append(append([]typeDef(nil), p.Types...), typeDef{Name: "@root", Text: chosen[0]})
					run(hostileCase{Kind: "project", Project: &p2, Source: fmt.Sprintf("reference templates over %d types + root as @root", k)})
				}
				idx++
				return
			}
			for ti := 0; ti < nt; ti++ {
				for v := 0; v < k; v++ {
					a, b := names[v], names[(v+1)%k]
					rec(level+1, append(chosen[:level:level], instTemplate(refTemplates[ti], a, b)))
				}
			}
		}
		rec(0, make([]string, 0, k+1))
	}
	two(1)
	if r.Thor {
		two(2)
	} else {
		// quick: sampled 2-type projects
		prng := r.Rand("c02-proj")
		for i := 0; i < r.Share(30_000); i++ {
			p := project{Root: instTemplate(refTemplates[prng.IntN(nt)], names[prng.IntN(2)], names[prng.IntN(2)])}
			for k := 0; k < 2; k++ {
				p.Types = append(p.Types, typeDef{Name: names[k], Text: instTemplate(refTemplates[prng.IntN(nt)], names[prng.IntN(2)], names[prng.IntN(2)])})
			}
			run(hostileCase{Kind: "project", Project: &p, Source: "sampled reference templates over 2 types"})
		}
	}
	if r.Thor {
		prng := r.Rand("c02-proj3")
		for i := 0; i < r.Share(400_000); i++ {
			p := project{Root: instTemplate(refTemplates[prng.IntN(nt)], names[prng.IntN(3)], names[prng.IntN(3)])}
			for k := 0; k < 3; k++ {
				p.Types = append(p.Types, typeDef{Name: names[k], Text: instTemplate(refTemplates[prng.IntN(nt)], names[prng.IntN(3)], names[prng.IntN(3)])})
			}
			run(hostileCase{Kind: "project", Project: &p, Source: "sampled reference templates over 3 types"})
		}
	}
	// (d') a defect that only Check() finds, placed inside a member that other types inherit through allOf or reach
	// through references: the diagnostic must point into the text that holds the member, whichever type is checked first
	{
		defects := []string{`1 // {min: 5}`, `"x" // {type: "@missing"}`, `"abc" // {regex: "^z"}`, `2.5 // {precision: 0}`, `"q" // {enum: [1, 2]}`, `[1] // {maxItems: 0}`, `null // {type: "string"}`,
			`{} // {allOf: "@missing"}`, `1 // {or: [{type: "string"}, {type: "@missing", nullable: true}]}`}
		pads := []string{"", "\n\n\n\n                                  ", "# a comment line before the member\r\n\t"}
		di := 0
		for _, defect := range defects {
			for _, pad := range pads {
				for _, names := range [][2]string{{"@a", "@m"}, {"@z", "@m"}, {"@m", "@a"}} {
					heir, base := names[0], names[1]
					if r.Mine(di) {
						baseText := "{\n" + pad + `"x": ` + defect + "\n}"
						for _, p := range []project{
							{Root: `{"r": ` + heir + `}`, Types: []typeDef{{Name: heir, Text: "{ // {allOf: \"" + base + "\"}\n \"k\": 1\n}"}, {Name: base, Text: baseText}}},
							{Root: "{ // {allOf: \"" + heir + "\"}\n \"own\": true\n}", Types: []typeDef{{Name: heir, Text: "{ // {allOf: \"" + base + "\"}\n \"k\": 1\n}"}, {Name: base, Text: baseText}}},
							{Root: `[` + heir + `]`, Types: []typeDef{{Name: heir, Text: `{"k": ` + base + `}`}, {Name: base, Text: baseText}}},
							{Root: "{ // {allOf: \"" + base + "\"}\n \"own\": true\n}", Types: []typeDef{{Name: base, Text: baseText}}},
						} {
							p := p
							run(hostileCase{Kind: "project", Project: &p, Source: "check-time defect inside an inherited / referenced member"})
						}
					}
					di++
				}
			}
		}
	}
	// (d2) inheritance shapes: every small allOf / additionalProperties graph of C07's exhaustive family and sampled
	// random ones (two parents carrying the same rule, chains of three, conflicts, refusals)
	{
		small, _ := c07Small()
		for i, gp := range small {
			if r.Mine(i) {
				p := toTexts(gp, gen.DefaultLayout)
				run(hostileCase{Kind: "project", Project: &p, Source: "small allOf / additionalProperties graphs"})
			}
		}
		irng := r.Rand("c02-inherit")
		for n := r.Share(r.Pick(1600, 40_000)); n > 0; n-- {
			p := toTexts(c07Random(irng), gen.DefaultLayout)
			run(hostileCase{Kind: "project", Project: &p, Source: "random allOf / additionalProperties projects"})
		}
	}
	// (d3) a first line longer than 4 KiB / 64 KiB, then a defect on a later line, under every newline convention
	{
		li := 0
		for _, n := range []int{100, 4090, 4096, 5000, 70_000} {
			for _, nl := range []string{"\n", "\r\n", "\r"} {
				if r.Mine(li) {
					long := strings.Repeat("a", n)
					text(epSchema|epEnum|epDoc, "[ \""+long+"\","+nl+"  1,"+nl+"  x"+nl+"]", "long first line, defect on a later line")
					text(epSchema, "{ # "+long+nl+"  \"k\": 1, // {min: 5}"+nl+"  \"z\": tru"+nl+"}", "long first line, defect on a later line")
					text(epSchema, "{"+nl+"  \"k\": \""+long+"\","+nl+"  \"z\": 1 // {min: 5}"+nl+"}", "long second line, defect on a later line")
					text(epEnum, "["+nl+" \""+long+"\", // "+long+nl+" 1, 1"+nl+"]", "long second line, defect on a later line")
				}
				li++
			}
		}
	}
	// (d5) a defect INSIDE a long line, at every distance from the line's end around the width an error excerpt
	// has (about 200 bytes): one-line lists, minified documents that are cut off, a long string before a bad token
	{
		di := 0
		for _, before := range []int{0, 150, 190, 196, 197, 198, 200, 203, 250, 400, 1000} {
			for _, after := range []int{0, 1, 5, 100, 190, 196, 197, 198, 250} {
				if r.Mine(di) {
					pre := strings.Repeat("1,", before/2)
					post := strings.Repeat(",1", after/2)
					text(epSchema|epEnum|epDoc, "["+pre+"x"+post+"]", "defect inside a long line")
					text(epSchema|epEnum|epDoc, "["+pre+post, "defect inside a long line")
					text(epSchema|epDoc, "{\"k\":\""+strings.Repeat("é", before/2)+"\",\"z\":tru,\"y\":\""+strings.Repeat("b", after)+"\"}", "defect inside a long line")
					text(epSchema, "\""+strings.Repeat("a", before)+"\" // {min: 1, note: \""+strings.Repeat("n", after)+"\"}", "defect inside a long line")
					text(epSchema, "{\n  \"k\": ["+pre+"1] // {minItems: "+fmt.Sprint(before)+"}"+strings.Repeat(" ", after)+"\n}", "defect inside a long line")
				}
				di++
			}
		}
	}
	// (d6) a line that is long because of its indentation: blanks or TABs of every length around the excerpt
	// width before a short or long visible part that holds the defect, as the last line and with lines behind it
	{
		qi := 0
		for _, ind := range []int{1, 100, 190, 196, 197, 198, 200, 203, 250, 400, 1000} {
			for _, vis := range []int{0, 1, 5, 100, 190, 196, 197, 198, 250} {
				for _, blank := range []string{" ", "\t"} {
					if r.Mine(qi) {
						indent := strings.Repeat(blank, ind)
						pre := strings.Repeat("1,", vis/2)
						text(epSchema|epEnum|epDoc, "[\n"+indent+pre+"x", "defect behind a long indentation")
						text(epSchema|epEnum|epDoc, "[\n"+indent+pre+"x,\n1\n]", "defect behind a long indentation")
						text(epSchema|epEnum|epDoc, "[\n"+indent+"x"+strings.Repeat(",1", vis/2)+"\n]", "defect behind a long indentation")
						text(epSchema, "{\n"+indent+"\"a\": x"+strings.Repeat(" ", vis), "defect behind a long indentation")
						text(epSchema, "{\n"+indent+"\"k\": 1 // {min: 5"+strings.Repeat(" ", vis)+"}\n}", "defect behind a long indentation")
						text(epSchema, "{\r\n"+indent+"\"k\": \""+strings.Repeat("é", vis/2)+"\", \"z\": tru\r\n}", "defect behind a long indentation")
					}
					qi++
				}
			}
		}
	}
	// (d4) layered projects: two types per layer, each referring to both types of the next layer, in every reference
	// form - the work must grow with the number of types, not with the number of routes (2^layers)
	{
		forms := []struct {
			name string
			mk   func(a, b string) string
		}{
			{"choice shortcut", func(a, b string) string { return a + " | " + b }},
			{"or list", func(a, b string) string { return `1 // {or: ["` + a + `", "` + b + `"]}` }},
			{"or rule-sets", func(a, b string) string {
				return `1 // {or: [{type: "` + a + `"}, {type: "` + b + `", nullable: true}]}`
			}},
			{"choice in an optional member", func(a, b string) string { return `{"k": ` + a + ` | ` + b + ` // {optional: true}` + "\n}" }},
			{"array of a choice", func(a, b string) string { return `[` + a + ` | ` + b + `]` }},
			{"additionalProperties + key shortcut", func(a, b string) string { return `{} // {additionalProperties: "` + a + `"}` }},
			{"allOf list", func(a, b string) string { return "{ // {allOf: [\"" + a + "\"]}\n}" }},
		}
		fi := 0
		for _, f := range forms {
			for _, layers := range []int{6, 16, 28, 40, 64} {
				if r.Mine(fi) {
					leaf := "1"
					if strings.HasPrefix(f.name, "choice in") || strings.HasPrefix(f.name, "additional") || strings.HasPrefix(f.name, "allOf") {
						leaf = "{}"
					}
					if strings.HasPrefix(f.name, "array") {
						leaf = "[]"
					}
					name := func(p string, i int) string { return fmt.Sprintf("@%s%d", p, i) }
					p := project{Root: f.mk(name("a", 0), name("b", 0))}
					for i := 0; i < layers; i++ {
						text := leaf
						if i+1 < layers {
							text = f.mk(name("a", i+1), name("b", i+1))
						}
						p.Types = append(p.Types, typeDef{Name: name("a", i), Text: text}, typeDef{Name: name("b", i), Text: text})
					}
					run(hostileCase{Kind: "project", Project: &p, Source: fmt.Sprintf("layered project, %d layers, %s", layers, f.name)})
				}
				fi++
			}
		}
	}
	// (f) numbers with exponents at the machine-word boundaries
	if r.Shard == 1 {
		for _, e := range []string{"2147483647", "2147483648", "4294967295", "4294967296", "9223372036854775806", "9223372036854775807", "9223372036854775808",
			"18446744073709551615", "18446744073709551616", "1000001", "99999999999999999999"} {
			for _, m := range []string{"1", "12", "1.5", "-1", "0.001"} {
				for _, sign := range []string{"", "+", "-"} {
					num := m + "e" + sign + e
					text(epNumber|epGuess|epDoc, num, "boundary exponent")
					text(epSchema, num+" // {min: "+num+"}", "boundary exponent in a rule")
					text(epEnum, "["+num+"]", "boundary exponent in an enum rule")
				}
			}
		}
	}
	// (f2) rule values of every magnitude on a matching example (accepted ones are also converted to OpenAPI)
	{
		mags := []string{"0", "1", "7", "400", "65535", "65536", "2147483647", "2147483648", "4294967295", "4294967296", "300000000", "300000000000000", "9007199254740993",
			"1000000000000000000", "9000000000000000000", "9223372036854775807", "9223372036854775808", "18446744073709551615", "18446744073709551616", "100000000000000000000"}
		shapes := []struct{ ex, rule string }{
			{"1.5", "precision"}, {`"abc"`, "minLength"}, {`"abc"`, "maxLength"}, {"[]", "minItems"}, {"[]", "maxItems"}, {"[\n  1\n]", "maxItems"}, {"5", "min"}, {"5", "max"}, {"5.5", "min"}, {"5.5", "max"},
		}
		mi := 0
		for _, sh := range shapes {
			for _, m := range mags {
				if r.Mine(mi) {
					ann := " // {" + sh.rule + ": " + m + "}"
					if strings.HasPrefix(sh.ex, "[\n") {
						text(epSchema, "[ // {"+sh.rule+": "+m+"}\n  1\n]", "rule value magnitudes")
					} else {
						text(epSchema, sh.ex+ann, "rule value magnitudes")
					}
					text(epSchema, "{\n  \"k\": "+strings.ReplaceAll(sh.ex, "\n", "")+ann+"\n}", "rule value magnitudes")
					text(epSchema, `1.5 // {or: [{type: "decimal", `+sh.rule+": "+m+`}, {type: "string"}]}`, "rule value magnitudes")
					text(epSchema, sh.ex+" // {"+sh.rule+": -"+m+"}", "rule value magnitudes")
					text(epSchema, sh.ex+" // {"+sh.rule+": "+m+".0}", "rule value magnitudes")
				}
				mi++
			}
		}
	}
	// (f4) every additionalProperties value next to every kind of member list
	// (plain members, one or two key shortcuts, an inherited object), on the root
	// and on a member (accepted ones are also converted to OpenAPI)
	{
		vals := []string{"true", "false", `"string"`, `"integer"`, `"float"`, `"decimal"`, `"boolean"`, `"null"`, `"object"`, `"array"`, `"any"`, `"enum"`, `"mixed"`, `"email"`, `"uri"`, `"uuid"`, `"date"`, `"datetime"`,
			`"@t"`, `"@k1"`, `"@gone"`, `"@t | @k1"`, `1`, `"comment"`, `"undefined"`, `"number"`, `"strin"`, `""`, `null`, `[]`, `{}`}
		bodies := []string{"", ` "id": 1`, ` @k1: 1`, " @k1: 1.5,\n @k2: 2", " \"id\": \"x\",\n @k1: true", " @k1: @t,\n \"z\": [@t]", " @k2: {\"in\": 1},\n @k1: [1]"}
		types := []typeDef{{Name: "@t", Text: `{"own": 1.5}`}, {Name: "@k1", Text: `"abc"`}, {Name: "@k2", Text: `"12" // {regex: "^[0-9]+$"}`}}
		ai := 0
		for _, v := range vals {
			for _, b := range bodies {
				for _, extra := range []string{"", `, allOf: "@t"`, ", nullable: true"} {
					if r.Mine(ai) {
						obj := func(ind string) string {
							body := strings.ReplaceAll(b, "\n", "\n"+ind)
							if body != "" {
								body = "\n" + ind + body
							}
							return "{ // {additionalProperties: " + v + extra + "}" + body + "\n" + ind + "}"
						}
						for _, root := range []string{obj(""), "{\n  \"m\": " + obj("  ") + "\n}", "[\n  " + obj("  ") + "\n]"} {
							p := project{Root: root, Types: types}
							run(hostileCase{Kind: "project", Project: &p, Source: "additionalProperties values next to member lists"})
						}
					}
					ai++
				}
			}
		}
	}
	// (g) stray bytes of multi-byte characters at every position of the last few
	// bytes (and at the start) of short texts of every kind: the error paths that
	// decode the character at the error position
	{
		strays := []string{"\xff", "\x80", "\xc3", "\xe2\x82", "\xf0\x9f\x98", "\xed\xa0\x80", "\xf4\x90", "é", "€", "😀"}
		bases := []string{"[1]", "[1,2,3]", `["a", 2]`, "[1] ", "[1, // c\n 2]", "1", `{"a": 1}`, `"abc" // {minLength: 1}`, "[1, 2]", "@t", "@t | @u", `{"a":[1,true]}`, "12.5", "/ab+/", "/a/ ", `1 /* {min: 0} */`, "true", `{@t: 1}`, "1e5", "-0.5"}
		gi := 0
		for _, b := range bases {
			for _, st := range strays {
				for back := 0; back <= 4; back++ {
					at := len(b) - back
					if back == 4 {
						at = 0
					}
					if at < 0 {
						continue
					}
					if r.Mine(gi) {
						text(epAll, b[:at]+st+b[at:], "stray bytes of a multi-byte character near the end")
						text(epAll, b[:at]+st, "stray bytes of a multi-byte character near the end")
					}
					gi++
				}
			}
		}
	}
	// (e) nesting ladder
	li := 0
	for _, d := range []int{10, 100, 1000, r.Pick(2000, 10_000)} {
		for _, pair := range [][2]string{{"[", "]"}, {`{"a":`, "}"}} {
			for _, trunc := range []bool{false, true} {
				if r.Mine(li) {
					s := strings.Repeat(pair[0], d) + "1" + strings.Repeat(pair[1], d)
					if trunc {
						text(epSchema|epDoc, s[:len(s)/2], fmt.Sprintf("nesting depth %d, truncated", d))
					} else {
						text(epSchema|epDoc|epEnum, s, fmt.Sprintf("nesting depth %d", d))
					}
				}
				li++
			}
		}
	}
}

func randOf(rng *rand.Rand, ss []string) string { return ss[rng.IntN(len(ss))] }

// runHostile executes one case and gives every call to judge.
func runHostile(r *mon.Run, hc hostileCase, judge func(c call, hc hostileCase)) (consumedIfAllRejected int) {
	if !r.Begin(func() []byte { b, _ := stdjson.Marshal(hc); return b }) {
		return -1
	}
	r.Eval(1)
	allRejected := true
	var consumed int
	visit := func(c call) {
		r.Count("calls", 1)
		if c.Panic != nil || c.Err == nil {
			if strings.HasPrefix(c.Entry, "JSchema.") && c.Entry != "JSchema.AddType" {
				allRejected = false
			}
		}
		if c.Err != nil {
			r.Count("calls_rejected", 1)
		}
		judge(c, hc)
	}
	if hc.Kind == "project" {
		runProjectEntries(*hc.Project, visit)
		return -1
	}
	consumed = runEntries(hc.Text, hc.Which, visit)
	if hc.Which&epSchema == 0 || !allRejected {
		return -1
	}
	return consumed
}

func c02Judge(r *mon.Run) func(c call, hc hostileCase) {
	return func(c call, hc hostileCase) {
		if c.Panic != nil {
			if c.Entry == "openapi.JSchema" && hc.Kind == "text" && schemaHasNoRootValue(hc.Text) {
				// recorded finding, identified by its input class
				r.Violate("panic", "openapi.JSchema on an accepted schema without a root value", fmt.Sprintf("OpenAPI conversion panics (%s) for the annotation-only schema %s", mon.Trunc(c.Panic.Value, 80), caseDesc(hc)), hc)
				return
			}
			r.Violate("panic", c.Entry+"/"+c.Panic.Site, fmt.Sprintf("%s let a panic escape (%s) on %s", c.Entry, mon.Trunc(c.Panic.Value, 160), caseDesc(hc)), hc)
			return
		}
		if c.Err != nil {
			// what the entry point returned is read the way every caller reads it: printed
			if p := mon.Guard(func() { _ = c.Err.Error() }); p != nil {
				r.Violate("panic", c.Entry+" error.Error()/"+p.Site, fmt.Sprintf("printing the error returned by %s panicked (%s) on %s", c.Entry, mon.Trunc(p.Value, 160), caseDesc(hc)), hc)
				return
			}
			r.Count("returned_errors_printed", 1)
		}
		if c.Steps >= 0 && c.Steps > int64(2*len(c.Text)+8) {
			r.Violate("step-bound", c.Entry, fmt.Sprintf("%s took %d scanner steps on a %d-byte text (bound 2*len+8): %s", c.Entry, c.Steps, len(c.Text), caseDesc(hc)), hc)
		}
		if c.Steps >= 0 {
			r.CountMax("max:scanner_steps_minus_len", c.Steps-int64(len(c.Text)))
		}
	}
}

func caseDesc(hc hostileCase) string {
	if hc.Kind == "project" {
		b, _ := stdjson.Marshal(hc.Project)
		return mon.Trunc(string(b), 300)
	}
	return fmt.Sprintf("%q", mon.Trunc(hc.Text, 200))
}

func hostileRun(r *mon.Run, judge func(c call, hc hostileCase)) {
	verifhook.SetScanProbes(true)
	loadKnownCodes(r.Repo)
	seenSrc := map[string]int{}
	srcTime := map[string]time.Duration{}
	hostileWorkload(r, func(hc hostileCase) int {
		if hc.Kind == "text" {
			r.Nontrivial("t", fmt.Sprint(hc.Which), hc.Text)
		} else {
			b, _ := stdjson.Marshal(hc.Project)
			r.Nontrivial("p", string(b))
		}
		seenSrc[hc.Source]++
		if seenSrc[hc.Source] == 3 && len(hc.Text) < 200 {
			r.Sample(hc)
		}
		t0 := time.Now()
		res := runHostile(r, hc, judge)
		srcTime[hc.Source] += time.Since(t0)
		return res
	})
	for src, n := range seenSrc {
		r.Count("source:"+src, int64(n))
		r.CountMax("max:shard_ms:"+src, srcTime[src].Milliseconds()) // cost accounting only; never part of a verdict
	}
	for kind, name := range map[int]string{verifhook.KindSchema: "schema", verifhook.KindEnum: "enum", verifhook.KindJSONDoc: "jsondoc", verifhook.KindNumber: "number"} {
		for st, cnt := range verifhook.ScanPairs()[kind] {
			r.Count("pair:"+name+":"+shortState(st), cnt)
		}
	}
	if o := verifhook.ScanOverrun.Load(); o > 0 {
		r.Violate("scan-overrun", "scanner index", fmt.Sprintf("a scanner index ran beyond size+1 %d times", o), nil)
	}
}

func hostileReplay(judgeOf func(r *mon.Run) func(c call, hc hostileCase)) func(r *mon.Run, raw stdjson.RawMessage) {
	return func(r *mon.Run, raw stdjson.RawMessage) {
		var hc hostileCase
		if err := stdjson.Unmarshal(raw, &hc); err != nil || hc.Kind == "" {
			// a process-death record from the coordinator
			var d struct {
				Desc string `json:"journal_desc_b64"`
			}
			stdjson.Unmarshal(raw, &d)
			var b []byte
			stdjson.Unmarshal([]byte(`"`+d.Desc+`"`), &b)
			if stdjson.Unmarshal(b, &hc) != nil {
				fmt.Println("cannot decode the recorded case")
				return
			}
		}
		verifhook.SetScanProbes(true)
		loadKnownCodes(r.Repo)
		runHostile(r, hc, judgeOf(r))
	}
}

func init() {
	register(&mon.CheckDef{
		ID:                 "C02",
		Run:                func(r *mon.Run) { hostileRun(r, c02Judge(r)) },
		Replay:             hostileReplay(c02Judge),
		Rule:               "hostile inputs to every public entry point (JSchema Len/Check/Example/GetAST/UsedUserTypes/AddType/AddRule, Enum Len/Check/Values/GetAST, RSchema Check/Len/Example/GetAST/Pattern/AddType, Document Check/Len/NextLexeme in both modes, NewNumber, GuessSchemaType, OpenAPI conversion of accepted schemas), each call on fresh objects under a recover: (a) every token string up to a length bound per family (schema 34 tokens, len 3 quick / 5 thorough, with viable-prefix pruning from the H3 scanner probe; enum, regex, number, document alphabets; every number-shaped byte string over 0 1 - + . e x up to 5 / 6 hosted in an enum rule, a schema value, a rule value and a document; annotation bodies: 19 compound tokens (incl. the empty string) up to 5 / 6 inside `1 /* … */` and after `1 // `), (a3) 13 annotation tokens up to 5 / 6 with an enum rule and a type registered, (f3) an or rule (9 lists x 5 extras) on every kind of example in three placements, (b) every truncation, token deletion/duplication/substitution and CRLF/CR variant of every string literal harvested from the repository's tests, (c) random byte and token soups up to 9 KiB, (d) all 1-type (and, thorough, 2-type; sampled 2/3-type) projects of self/mutually referencing user types from 24 reference templates (incl. names that are never registered), (d') 81 x 4 projects with a check-time defect inside a member that other types inherit through allOf or reach by reference (heir named before and after the base, member behind padding lines), (d2) C07's exhaustive small allOf / additionalProperties graphs and 1.6k / 40k random ones, (d3) texts whose first or second line is 100 B .. 70 KB long with a defect on a later line under LF / CRLF / CR, (d5) one-line texts with a defect at 11 x 9 distances from the beginning and the end of a long line (0 .. 1000 bytes, dense around 197), (d6) 11 x 9 x 2 texts whose defect stands behind an indentation of 1 .. 1000 blanks or TABs with a visible part of 0 .. 250 bytes, as the last line and with lines behind it, (d4) layered projects of 6..64 layers with two types per layer in seven reference forms (work must not grow with the number of routes), (f2) every numeric rule with 20 magnitudes from 0 to 10^20 on a matching example, (g) 10 stray byte sequences of multi-byte characters at the last four positions and the start of 20 short texts of every kind (inputs are handed over without spare capacity behind them, so that reading beyond the text panics), (f4) 31 additionalProperties values x 7 member lists (plain, one / two key shortcuts, references) x 3 extras x 3 placements, (e) nesting ladder up to 2000 (quick) / 10000 (thorough). A violation is an escaped panic (from the call, or from printing the error it returned), a worker death or CPU-budget overrun that reproduces in a fresh process, or a scan using more than 2*len+8 steps. distinct_nontrivial = distinct (entry family, text) / projects (hashed).",
		MinNontrivialQuick: 100000, MinNontrivialThorough: 1000000,
		Assumptions: []string{"inputs up to 64 KiB and nesting up to 10^4 (deeper nesting costs tens of CPU-seconds per call on this tree: slow, but it returns); exponents above 10^6 are rejected by the library since the fix recorded in known_findings.jsonl", "OpenAPI conversion is only exercised for accepted schemas",
			"a process death counts only if it reproduces on the same case in a fresh process; CPU budget 300 s per case (process CPU time, not wall clock)"},
		Exhaustive: "token strings up to the stated lengths per family; all projects over 1 (thorough: 2) types from the reference templates; all truncations of all corpus literals (quick: stride 7 on literals > 400 bytes)",
		Finalize:   foldScanPairs,
	})
}

// schemaHasNoRootValue tells whether the text is accepted but consists of
// annotations/comments only (Example() answers "empty schema").
func schemaHasNoRootValue(text string) bool {
	s := jschema.New("root", text)
	if s.Check() != nil {
		return false
	}
	_, err := s.Example()
	var je kit.JSchemaError
	if errors.As(err, &je) {
		return je.ErrCode() == int(errs.ErrEmptySchema)
	}
	return false
}
