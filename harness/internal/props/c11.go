package props

// C11 — concurrent use is race-free and gives the sequential results.
//
// Layout of the check
//
//   - The worker shards (plain binary) only organise: each shard writes the
//     classified test corpus to a file, derives its batches from (seed, batch
//     number) and runs them one after the other as child processes of the -race
//     build (VERIF_RACE_EXE child c11-batch <spec file>). All 16 logical shards
//     run under the coordinator's usual parallelism, so up to 16 race children
//     are alive at a time (each with its own GOMAXPROCS), which over-subscribes
//     the machine on purpose.
//   - A batch child computes the sequential reference results first (hooks
//     quiet), then runs the same calls from G goroutines (hooks: seeded yield in
//     the buffer pools, hand-off events, poison on Put) and compares. Race
//     reports go to <run dir>/race/b<batch>.<pid> (GORACE log_path) and are
//     parsed by the shard after the child has ended; the exit code is ignored.
//   - Inside the concurrent phase the harness uses no synchronisation besides
//     the start channel and the WaitGroup: work lists are precomputed per
//     goroutine, results go to per-goroutine slices, operation begin/end stamps
//     are monotonic clock readings (time.Since), NOT an atomic counter. An
//     atomic counter touched at the begin and end of every operation would order
//     all operations of all goroutines for the race detector (atomics are
//     acquire/release for it) and hide every race between operations that do
//     not overlap physically.
//
// Clauses: data-race, result-differs, poison, child-death; harness-race is the
// self-check (a race report without any repository frame).

import (
	stdjson "encoding/json"
	"errors"
	"fmt"
	"io"
	"math/rand/v2"
	"os"
	"os/exec"
	"path/filepath"
	"regexp"
	"runtime"
	"sort"
	"strconv"
	"strings"
	"sync"
	"time"

	schema "github.com/jsightapi/jsight-schema-core"
	cbytes "github.com/jsightapi/jsight-schema-core/bytes"
	jdoc "github.com/jsightapi/jsight-schema-core/formats/json"
	ljson "github.com/jsightapi/jsight-schema-core/json"
	"github.com/jsightapi/jsight-schema-core/notations/jschema"
	"github.com/jsightapi/jsight-schema-core/notations/regex"
	"github.com/jsightapi/jsight-schema-core/openapi"
	"github.com/jsightapi/jsight-schema-core/rules/enum"
	"github.com/jsightapi/jsight-schema-core/verifhook"

	"verifharness/internal/gen"
	"verifharness/internal/mon"
)

const c11Mod = "github.com/jsightapi/jsight-schema-core"

// ---- batch specification and child output --------------------------------------

type c11Spec struct {
	Batch  int    `json:"batch"`
	Seed   uint64 `json:"seed"`
	Plan   string `json:"plan"` // own | shared-jschema | shared-rschema | shared-enum | shared-type
	G      int    `json:"goroutines"`
	Procs  int    `json:"gomaxprocs"`
	Ops    int    `json:"ops"`
	Quiet  bool   `json:"quiet"` // hooks (yield, events, poison) off in the concurrent phase
	Corpus string `json:"corpus"`
	Out    string `json:"out"`
}

type c11Viol struct {
	Clause string `json:"clause"`
	Key    string `json:"key"`
	What   string `json:"what"`
	Input  any    `json:"input,omitempty"`
}

type c11Out struct {
	Done         bool             `json:"done"`
	Ops          int64            `json:"ops"`
	SeqOps       int64            `json:"seq_ops"`
	Rounds       int64            `json:"rounds"`
	Overlaps     map[string]int64 `json:"overlaps"`
	OverlapTotal int64            `json:"overlap_total"`
	Nontrivial   []string         `json:"nontrivial"`
	Pool         map[string]int64 `json:"pool"`
	Viol         []c11Viol        `json:"viol"`
	Incon        map[string]int64 `json:"inconclusive"`
	Counts       map[string]int64 `json:"counts"`
	WallMs       int64            `json:"wall_ms"`
}

type c11CorpusItem struct {
	T string `json:"t"`
	F int    `json:"f"` // 1 schema accepted, 2 enum accepted, 4 regex accepted, 8 document accepted
}

// ---- cases and objects ------------------------------------------------------------

type c11Case struct {
	Kind    string   `json:"kind"` // schema | project | enum | regex | doc
	Text    string   `json:"text,omitempty"`
	Project *project `json:"project,omitempty"`
	Seed    int64    `json:"regex_seed,omitempty"`
}

func (c c11Case) id() string {
	if c.Project != nil {
		b, _ := stdjson.Marshal(c.Project)
		return c.Kind + "\x00" + string(b)
	}
	return c.Kind + "\x00" + c.Text + "\x00" + strconv.FormatInt(c.Seed, 10)
}

// short renders the input for messages (80 bytes at most).
func (c c11Case) short() string {
	if c.Project != nil {
		b, _ := stdjson.Marshal(c.Project)
		return c.Kind + " " + c11Trunc(string(b), 80)
	}
	return c.Kind + " " + strconv.Quote(c11Trunc(c.Text, 80))
}

func c11Trunc(s string, n int) string {
	if len(s) <= n {
		return s
	}
	return s[:n]
}

type c11Obj struct {
	kind     string
	js       *jschema.JSchema
	en       *enum.Enum
	rs       *regex.RSchema
	doc      schema.Document
	text     string
	buildErr string
}

func c11Build(c c11Case) *c11Obj {
	o := &c11Obj{kind: c.Kind, text: c.Text}
	switch c.Kind {
	case "schema":
		o.js = jschema.New("root", c.Text)
	case "project":
		var err error
		if p := mon.Guard(func() { o.js, err = c.Project.build() }); p != nil {
			o.buildErr = "PANIC: " + p.Value + " @ " + p.Site
		} else if err != nil {
			o.buildErr = "ERR: " + c11ErrText(err)
		}
		o.kind = "schema"
	case "enum":
		o.en = enum.New("@e", c.Text)
	case "regex":
		if c.Seed != 0 {
			o.rs = regex.New("r", c.Text, regex.WithGeneratorSeed(c.Seed))
		} else {
			o.rs = regex.New("r", c.Text)
		}
	case "doc":
		o.doc = jdoc.New("doc", c.Text)
	case "lit":
		// a scalar literal: the package-level helpers work on the bytes directly
	}
	return o
}

func c11ErrText(err error) (msg string) {
	if p := mon.Guard(func() { msg = err.Error() }); p != nil {
		return "ERROR-RENDER-PANIC: " + p.Value
	}
	return msg
}

type c11Op struct {
	name string
	f    func(o *c11Obj) (out string, raw []byte, err error)
}

var c11OpsByKind = map[string][]c11Op{
	"schema": {
		{"JSchema.Len", func(o *c11Obj) (string, []byte, error) {
			n, err := o.js.Len()
			return strconv.Itoa(int(n)), nil, err
		}},
		{"JSchema.Check", func(o *c11Obj) (string, []byte, error) { return "", nil, o.js.Check() }},
		{"JSchema.Example", func(o *c11Obj) (string, []byte, error) {
			b, err := o.js.Example()
			return "", b, err
		}},
		{"JSchema.GetAST", func(o *c11Obj) (string, []byte, error) {
			s, err := astString(o.js.GetAST())
			return s, nil, err
		}},
		{"JSchema.UsedUserTypes", func(o *c11Obj) (string, []byte, error) {
			l, err := o.js.UsedUserTypes()
			return strings.Join(l, ","), nil, err
		}},
		{"openapi.Marshal(JSchema)", func(o *c11Obj) (string, []byte, error) {
			if o.js.Check() != nil {
				return "(rejected)", nil, nil
			}
			b, err := openapi.NewSchemaObject(o.js).MarshalJSON()
			return "", b, err
		}},
		{"openapi.Dereference(JSchema)", func(o *c11Obj) (string, []byte, error) {
			if o.js.Check() != nil {
				return "(rejected)", nil, nil
			}
			var sb strings.Builder
			for _, inf := range openapi.Dereference(o.js) {
				fmt.Fprintf(&sb, "[%d %q", inf.Type(), inf.Annotation())
				if oi, ok := inf.(openapi.ObjectInformer); ok {
					for _, pi := range oi.PropertiesInfos() {
						fmt.Fprintf(&sb, " %q:%d:%v", pi.Key(), pi.Type(), pi.Optional())
					}
				}
				b, err := inf.SchemaObject().MarshalJSON()
				if err != nil {
					return "", nil, err
				}
				sb.Write(b)
				sb.WriteString("]")
			}
			return sb.String(), nil, nil
		}},
	},
	"enum": {
		{"Enum.Check", func(o *c11Obj) (string, []byte, error) { return "", nil, o.en.Check() }},
		{"Enum.Len", func(o *c11Obj) (string, []byte, error) {
			n, err := o.en.Len()
			return strconv.Itoa(int(n)), nil, err
		}},
		{"Enum.Values", func(o *c11Obj) (string, []byte, error) {
			vv, err := o.en.Values()
			if err != nil {
				return "", nil, err
			}
			var sb strings.Builder
			for _, v := range vv {
				fmt.Fprintf(&sb, "%s|%s|%q;", v.Type, v.Value.String(), v.Comment)
			}
			return sb.String(), nil, nil
		}},
		{"Enum.GetAST", func(o *c11Obj) (string, []byte, error) {
			s, err := astString(o.en.GetAST())
			return s, nil, err
		}},
	},
	"regex": {
		{"RSchema.Check", func(o *c11Obj) (string, []byte, error) { return "", nil, o.rs.Check() }},
		{"RSchema.Len", func(o *c11Obj) (string, []byte, error) {
			n, err := o.rs.Len()
			return strconv.Itoa(int(n)), nil, err
		}},
		{"RSchema.Pattern", func(o *c11Obj) (string, []byte, error) {
			s, err := o.rs.Pattern()
			return s, nil, err
		}},
		{"RSchema.GetAST", func(o *c11Obj) (string, []byte, error) {
			s, err := astString(o.rs.GetAST())
			return s, nil, err
		}},
		{"openapi.Marshal(RSchema)", func(o *c11Obj) (string, []byte, error) {
			if o.rs.Check() != nil {
				return "(rejected)", nil, nil
			}
			b, err := openapi.NewSchemaObject(o.rs).MarshalJSON()
			return "", b, err
		}},
		// Example is last: on a shared object it is the only call whose successive
		// results differ (c11RegexExample is its index).
		{"RSchema.Example", func(o *c11Obj) (string, []byte, error) {
			b, err := o.rs.Example()
			return "", b, err
		}},
	},
	"lit": {
		{"GuessSchemaType", func(o *c11Obj) (string, []byte, error) {
			t, err := schema.GuessSchemaType([]byte(o.text))
			return string(t), nil, err
		}},
		{"json.NewNumber", func(o *c11Obj) (string, []byte, error) {
			n, err := ljson.NewNumber(cbytes.NewBytes(o.text))
			if err != nil {
				return "", nil, err
			}
			return n.String() + " " + strconv.Itoa(int(n.LengthOfFractionalPart())), nil, nil
		}},
		{"json.Guess", func(o *c11Obj) (string, []byte, error) {
			return ljson.Guess(cbytes.NewBytes(o.text)).JsonType().String(), nil, nil
		}},
	},
	"doc": {
		{"Document.Check", func(o *c11Obj) (string, []byte, error) { return "", nil, o.doc.Check() }},
		{"Document.Len", func(o *c11Obj) (string, []byte, error) {
			n, err := o.doc.Len()
			return strconv.Itoa(int(n)), nil, err
		}},
		{"Document.NextLexeme*", func(o *c11Obj) (string, []byte, error) {
			var sb strings.Builder
			n := 0
			for {
				lex, err := o.doc.NextLexeme()
				if errors.Is(err, io.EOF) {
					return sb.String(), nil, nil
				}
				if err != nil {
					return "", nil, err
				}
				fmt.Fprintf(&sb, "%d:%d-%d ", lex.Type(), lex.Begin(), lex.End())
				n++
				if n > 4*len(o.text)+16 {
					panic("NextLexeme does not terminate")
				}
			}
		}},
	},
}

const c11RegexExample = 5

func c11Ops(kind string) []c11Op {
	if kind == "project" {
		kind = "schema"
	}
	return c11OpsByKind[kind]
}

// c11Call runs one operation and renders its outcome. raw is the byte slice
// the library handed out (held by the caller and re-read later).
func c11Call(o *c11Obj, op c11Op) (dig string, raw []byte) {
	var out string
	var err error
	if p := mon.Guard(func() { out, raw, err = op.f(o) }); p != nil {
		return "PANIC: " + p.Value + " @ " + p.Site, nil
	}
	if err != nil {
		return "ERR: " + c11ErrText(err), nil
	}
	if raw != nil {
		return "OK: " + string(raw), raw
	}
	return "OK: " + out, nil
}

// c11All runs the full call set of an object sequentially.
func c11All(o *c11Obj) []string {
	if o.buildErr != "" {
		return []string{"BUILD " + o.buildErr}
	}
	ops := c11Ops(o.kind)
	res := make([]string, len(ops))
	for i, op := range ops {
		res[i], _ = c11Call(o, op)
	}
	return res
}

// ---- generated inputs -----------------------------------------------------------------

// c11Projects returns generated projects; half accepted, half rejected.
func c11Projects(rng *rand.Rand) []project {
	n := func() string { return strconv.Itoa(1 + rng.IntN(900)) }
	w := func() string { return []string{"alpha", "beta", "gamma", "delta", "kappa", "omega"}[rng.IntN(6)] }
	k1, k2, k3 := w()+"1", w()+"2", w()+"3"
	status := []typeDef{{Name: "@status", Text: `["new", "open", // first two
 "done", 7, null, true]`}}
	return []project{
		// ---- accepted
		{Root: "{\n \"id\": " + n() + ", // {min: 1}\n \"user\": @user,\n \"tags\": [@tag],\n \"status\": \"open\" // {enum: @status}\n}",
			Types: []typeDef{{Name: "@user", Text: "{\n \"name\": \"" + w() + "\",\n \"age\": " + n() + " // {min: 0, optional: true}\n}"}, {Name: "@tag", Text: `"t" // {minLength: 1}`}}, Rules: status},
		{Root: "{ // {allOf: [\"@base1\", \"@base2\"]}\n \"" + k1 + "\": " + n() + "\n}",
			Types: []typeDef{{Name: "@base1", Text: "{\"b1\": " + n() + "}"}, {Name: "@base2", Text: "{\n \"b2\": \"x\", // {optional: true}\n \"b3\": [1, 2]\n}"}}},
		{Root: "{\n \"" + k1 + "\": \"foo\", // {or: [{type: \"string\"}, {type: \"integer\"}]}\n \"" + k2 + "\": @a | @b,\n \"" + k3 + "\": 1 // {or: [\"@a\", \"integer\"]}\n}",
			Types: []typeDef{{Name: "@a", Text: "{\"a\": " + n() + "}"}, {Name: "@b", Text: "[1, \"s\", null]"}}},
		{Root: "{\"tree\": @node, \"n\": " + n() + "}",
			Types: []typeDef{{Name: "@node", Text: "{\n \"v\": " + n() + ",\n \"kids\": [ // {optional: true}\n  @node\n ],\n \"next\": @node // {optional: true}\n}"}}},
		{Root: "{\n \"code\": @code,\n @key: " + n() + ",\n \"mail\": \"a@b.cc\" // {type: \"email\"}\n}",
			Types: []typeDef{{Name: "@code", Text: `/[A-Z]{3}-\d{2}/`, Regex: true}, {Name: "@key", Text: `"key_1" // {regex: "key_\\d+"}`}}},
		{Root: "{ // {additionalProperties: \"@ap\"}\n \"" + k1 + "\": " + n() + "\n}",
			Types: []typeDef{{Name: "@ap", Text: `"s" // {maxLength: 9}`}}},
		{Root: n() + " // {type: \"@num\"}", Types: []typeDef{{Name: "@num", Text: "1 // {min: 0}"}}},
		// every spelling the format types accept (uuid: plain, urn:uuid:, braces, 32 hex digits; mixed case), several per
		// schema and differing between cases
		{Root: "{\n \"a\": \"urn:uuid:abcdef01-2345-6789-abcd-ef0123456" + n()[:1] + "89\", // {type: \"uuid\"}\n \"b\": \"URN:UUID:ABCDEF01-2345-6789-ABCD-EF0123456789\", // {type: \"uuid\"}\n \"c\": \"{abcdef01-2345-6789-abcd-ef0123456789}\", // {type: \"uuid\"}\n \"d\": \"abcdef0123456789abcdef0123456" + n()[:1] + "89\", // {type: \"uuid\"}\n \"e\": \"abcdef01-2345-6789-abcd-ef0123456789\" // {type: \"uuid\"}\n}"},
		{Root: "\"urn:uuid:abcdef01-2345-6789-abcd-ef012345" + n()[:1] + "789\" // {type: \"uuid\"}"},
		{Root: "\"urx:uuid:abcdef01-2345-6789-abcd-ef012345" + n()[:1] + "789\" // {type: \"uuid\"}"},
		{Root: "{\n \"d\": \"2021-0" + n()[:1] + "-02\", // {type: \"date\"}\n \"t\": \"2021-01-02T07:23:1" + n()[:1] + "+03:00\", // {type: \"datetime\"}\n \"m\": \"" + w() + "@example.com\", // {type: \"email\"}\n \"u\": \"https://example.com/" + w() + "?q=" + n() + "\" // {type: \"uri\"}\n}"},
		// long rule values (expressions of 32+ bytes, several per schema, differing from case to case): anything the
		// library remembers across schemas for the sake of speed shows between goroutines
		{Root: "{\n \"when\": \"2021-0" + n()[:1] + "-02T07:23:12+03:00\", // {regex: \"^\\\\d{4}-0" + n()[:1] + "-\\\\d{2}T\\\\d{2}:\\\\d{2}:\\\\d{2}[+-]\\\\d{2}:\\\\d{2}$\"}\n \"id\": \"abcdef01-2345-6789-abcd-ef0123456789\" // {regex: \"^[0-9a-f]{8}-[0-9a-f]{4}-[0-9a-f]{4}-[0-9a-f]{4}-[0-9a-f]{12}$\"}\n}"},
		{Root: "\"" + w() + "-" + w() + "-0123456789\" // {regex: \"^(alpha|beta|gamma|delta|kappa|omega)-(alpha|beta|gamma|delta|kappa|omega)-[0-9]{10}$\", minLength: 5}"},
		{Root: "{\"v\": @long}", Types: []typeDef{{Name: "@long", Text: "\"" + w() + "_" + n() + "\" // {regex: \"^(alpha|beta|gamma|delta|kappa|omega)_[0-9]{1,3}$|^never-" + n() + "-matches-anything-at-all$\"}"}}},
		{Root: "\"x\" // {enum: [\"x\", \"a-very-long-enumeration-item-number-" + n() + "-with-padding\", \"another-long-enumeration-item-" + n() + "-with-padding\"]}"},
		{Root: "[\n @item, @item\n]",
			Types: []typeDef{{Name: "@item", Text: "{\n \"p\": 1.25, // {precision: 2}\n \"q\": 1, // {nullable: true}\n \"e\": 2, // {enum: @nums}\n \"s\": \"new\" // {enum: @status}\n}"}},
			Rules: append([]typeDef{{Name: "@nums", Text: "[1, 2, 3]"}}, status...)},
		{Root: "{\n \"deep\": @d1\n}",
			Types: []typeDef{{Name: "@d1", Text: "{\"x\": @d2}"}, {Name: "@d2", Text: "{\"y\": @d3, \"z\": [@d3]}"}, {Name: "@d3", Text: "{ // {allOf: \"@d4\"}\n \"w\": " + n() + "\n}"}, {Name: "@d4", Text: "{\"v\": \"" + w() + "\"}"}}},
		{Root: "@a | @b", Types: []typeDef{{Name: "@a", Text: "\"" + w() + "\""}, {Name: "@b", Text: n()}}},
		// or alternatives written as rule-sets and as names, with every format type: conversions of one shared
		// object work on the rule-sets the schema keeps
		{Root: "{\n \"a\": \"2021-01-02T07:23:1" + n()[:1] + "+03:00\", // {or: [{type: \"datetime\"}, {type: \"integer\"}]}\n \"b\": \"" + w() + "@example.com\", // {or: [{type: \"email\"}, {type: \"date\"}]}\n \"c\": \"https://example.com/" + w() + "\", // {or: [{type: \"uri\"}, {type: \"uuid\"}, \"datetime\"]}\n \"d\": " + n() + " // {or: [{type: \"integer\", min: 0}, {type: \"string\", maxLength: 3}, {type: \"@a\"}]}\n}",
			Types: []typeDef{{Name: "@a", Text: "{\"a\": " + n() + "}"}}},
		{Root: "\"2021-0" + n()[:1] + "-02\" // {or: [{type: \"date\"}, {type: \"datetime\"}, {type: \"float\", precision: 2}]}"},
		// ---- rejected
		{Root: "{\"u\": @missing, \"v\": " + n() + "}"},
		{Root: "\"zzz\" // {enum: @status}", Rules: status},
		{Root: "{\"a\": @a}", Types: []typeDef{{Name: "@a", Text: "{\"a\": @a, \"n\": " + n() + "}"}}},
		{Root: "{ // {allOf: \"@s\"}\n \"k\": 1\n}", Types: []typeDef{{Name: "@s", Text: "\"str\""}}},
		{Root: "{ // {allOf: \"@b\"}\n \"k\": " + n() + "\n}", Types: []typeDef{{Name: "@b", Text: "{\"k\": 2}"}}},
		{Root: "{\"t\": @t}", Types: []typeDef{{Name: "@t", Text: "{\"broken\": " + n() + ",,}"}}},
		{Root: "{\n \"n\": 1 // {min: " + n() + "0}\n}"},
		{Root: n() + " // {foo: 1}"},
		{Root: "1 // {enum: @bad}", Rules: []typeDef{{Name: "@bad", Text: "[1, 1, " + n() + "]"}}},
		{Root: "\"x\" // {type: \"@num\"}", Types: []typeDef{{Name: "@num", Text: n() + " // {min: 0}"}}},
		{Root: "{\"p\": @p, \"n\": " + n() + "}", Types: []typeDef{{Name: "@p", Text: "{\"q\": @gone}"}}},
		{Root: "{\n \"a\": 1,\n \"a\": " + n() + "\n}"},
	}
}

var c11Regexes = []string{
	`/[a-z]{3,8}-\d{2}/`, `/(foo|bar|baz)+x?/`, `/\w+@\w+\.(com|org)/`, `/[A-Z][a-z]*( [A-Z][a-z]*){0,3}/`, `/^\d{4}-\d{2}-\d{2}$/`,
	`/a.c/`, `/x{2,5}[^abc]\/y/`, `/[-1}/`, `/unfinished`, `nostart/`, `/(?:GET|POST) \/.*/`, `/[\x21-\x7e]{1,12}/`,
}

var c11Enums = []string{
	`[1, 2, 3]`, `["a", "b", // comment
 "c"]`, `[
  "x", // first
  1.5, // second
  true, null
]`, `[1, 1]`, `["a", "b"`, `[]`, `[ /* a */ "p", "q" /* b */ ]`, `["a", "b", -0.5, false]`, `[1, x]`,
}

var c11Docs = []string{
	`{"a": [1, 2, {"b": null}], "c": "sé\n", "d": -1.5e3, "e": true}`, `[[[[]]], {}, "x"]`, `{"a": 1,}`, `[1 2]`, `"lonely"`, ` 12.50 `, `{"k": {"k": {"k": [false]}}}`, `{"a": tru}`, ``,
}

var c11Lits = []string{
	"42", "-1", "0", "1.5", "-0.25", "1e2", "1.5e1", "2.50E2", "12.50", "1e-3", "123456789012345678901234567890", "9223372036854775808", "0.000000000000000000001",
	`"a"`, `"a.b"`, `"1e5"`, `"42"`, `""`, "true", "false", "null", "{", "[", "1e1000001", "1.", "-", "tru", `"abc`, "01", "1e99999999999999999999",
}

// c11Inputs picks the distinct cases of a batch.
type c11Inputs struct {
	corpus   []c11CorpusItem
	byFlag   map[int][]int
	projects []project
	rng      *rand.Rand
}

func c11NewInputs(corpus []c11CorpusItem, rng *rand.Rand) *c11Inputs {
	in := &c11Inputs{corpus: corpus, byFlag: map[int][]int{}, rng: rng, projects: c11Projects(rng)}
	for i, it := range corpus {
		for _, f := range []int{1, 2, 4, 8} {
			if it.F&f != 0 {
				in.byFlag[f] = append(in.byFlag[f], i)
			}
		}
	}
	return in
}

// text draws a corpus string; with probability 3/4 one that the given kind accepts.
func (in *c11Inputs) text(flag int, fallback []string) string {
	rng := in.rng
	if l := in.byFlag[flag]; len(l) > 0 && rng.IntN(4) != 0 {
		return in.corpus[l[rng.IntN(len(l))]].T
	}
	if len(fallback) > 0 && rng.IntN(2) == 0 {
		return fallback[rng.IntN(len(fallback))]
	}
	if len(in.corpus) == 0 {
		return fallback[rng.IntN(len(fallback))]
	}
	return in.corpus[rng.IntN(len(in.corpus))].T
}

func (in *c11Inputs) draw(kind string) c11Case {
	rng := in.rng
	switch kind {
	case "project":
		p := in.projects[rng.IntN(len(in.projects))]
		return c11Case{Kind: "project", Project: &p}
	case "enum":
		return c11Case{Kind: "enum", Text: in.text(2, c11Enums)}
	case "regex":
		c := c11Case{Kind: "regex", Text: in.text(4, c11Regexes)}
		if rng.IntN(2) == 0 {
			c.Seed = int64(1 + rng.IntN(1000))
		}
		return c
	case "doc":
		return c11Case{Kind: "doc", Text: in.text(8, c11Docs)}
	case "lit":
		return c11Case{Kind: "lit", Text: c11Lits[rng.IntN(len(c11Lits))]}
	}
	return c11Case{Kind: "schema", Text: in.text(1, []string{`{"a": 1}`, `[1, "x"] // {minItems: 1}`, `{"k": @t}`, `{`})}
}

func (in *c11Inputs) drawAny() c11Case {
	switch x := in.rng.IntN(22); {
	case x >= 20:
		return in.draw("lit")
	case x < 8:
		return in.draw("schema")
	case x < 13:
		return in.draw("project")
	case x < 15:
		return in.draw("enum")
	case x < 17:
		return in.draw("regex")
	default:
		return in.draw("doc")
	}
}

// ---- the batch child ------------------------------------------------------------------------

type c11Stamp struct {
	name   string
	t0, t1 int64
	g      int
	ci     int
}

type c11Res struct {
	ci, op int
	dig    string
	raw    []byte
	held   string // set when the held byte slice no longer reads as it did on return
	t0, t1 int64
}

type c11Child struct {
	spec     c11Spec
	rng      *rand.Rand
	in       *c11Inputs
	out      c11Out
	seenV    map[string]bool
	ntSeen   map[string]bool
	seqCache map[string]*c11SeqSet
	base     time.Time
}

func (ch *c11Child) viol(clause, key, what string, input any) {
	id := clause + "\x00" + key
	if ch.seenV[id] {
		ch.out.Counts["duplicate_violation_reports"]++
		return
	}
	ch.seenV[id] = true
	if len(ch.out.Viol) < 40 {
		ch.out.Viol = append(ch.out.Viol, c11Viol{clause, key, what, input})
	}
}

func (ch *c11Child) hooksConcurrent() {
	if ch.spec.Quiet {
		return
	}
	verifhook.SetPoolEvents(true)
	verifhook.SetPoolPoison(true)
	verifhook.SetPoolYield(200000, ch.spec.Seed*1000003+uint64(ch.spec.Batch))
}

func (ch *c11Child) hooksQuiet() {
	verifhook.SetPoolYield(0, 1)
	verifhook.SetPoolPoison(false)
	verifhook.SetPoolEvents(false)
}

// overlaps counts, by operation-name pair, the pairs of operations of different
// goroutines whose [begin, end] intervals intersect, and records the cases
// that took part in one.
func (ch *c11Child) overlaps(st []c11Stamp, caseID func(ci int) string) {
	sort.Slice(st, func(i, j int) bool { return st[i].t0 < st[j].t0 })
	var active []c11Stamp
	for _, s := range st {
		k := 0
		for _, a := range active {
			if a.t1 >= s.t0 {
				active[k] = a
				k++
			}
		}
		active = active[:k]
		for _, a := range active {
			if a.g == s.g {
				continue
			}
			x, y := a.name, s.name
			if y < x {
				x, y = y, x
			}
			ch.out.Overlaps[x+" | "+y]++
			ch.out.OverlapTotal++
			for _, ci := range []int{a.ci, s.ci} {
				id := caseID(ci)
				if !ch.ntSeen[id] && len(ch.out.Nontrivial) < 4000 {
					ch.ntSeen[id] = true
					ch.out.Nontrivial = append(ch.out.Nontrivial, mon.Hash(ch.spec.Plan, id))
				}
			}
		}
		active = append(active, s)
	}
}

func c11PoisonCount(s string) int { return strings.Count(s, string([]byte{verifhook.PoisonByte})) }

// judge compares one concurrent result with the sequential one. recompute
// produces a fresh sequential result for the same call (hooks quiet). A case
// whose fresh sequential computations do not all agree (map iteration order
// and the like: other properties' business) is not judged at all: up to
// `tries` recomputations are made, once per (case, operation), and the set of
// results seen is kept.
func (ch *c11Child) judge(plan string, c c11Case, opName, want, got, held string, tries int, recompute func() string) {
	input := map[string]any{"case": c, "spec": ch.spec}
	if held != "" {
		clause := "result-differs"
		if c11PoisonCount(held) > c11PoisonCount(want) {
			clause = "poison"
		}
		ch.viol(clause, plan+" "+opName+" (returned bytes changed after the call returned)",
			fmt.Sprintf("%s of %s returned %q; read again at the end of the goroutine the same slice held %q (the slice aliases a buffer that was put back into a pool)", opName, c.short(), mon.Trunc(got, 120), mon.Trunc(held, 120)), input)
	}
	if got == want {
		return
	}
	clause := "result-differs"
	if c11PoisonCount(got) > c11PoisonCount(want) {
		clause = "poison"
	}
	key := plan + " " + opName
	if ch.seenV[clause+"\x00"+key] {
		ch.out.Counts["duplicate_violation_reports"]++
		return
	}
	if recompute != nil {
		ck := plan + "\x00" + opName + "\x00" + c.id()
		e := ch.seqCache[ck]
		if e == nil {
			e = &c11SeqSet{seen: map[string]bool{want: true}}
			ch.seqCache[ck] = e
		}
		for e.tries < tries && len(e.seen) == 1 {
			e.seen[recompute()] = true
			e.tries++
			ch.out.SeqOps++
		}
		if len(e.seen) > 1 {
			ch.out.Incon["sequentially-nondeterministic "+opName]++
			return
		}
	}
	ch.viol(clause, key,
		fmt.Sprintf("%s of %s: under concurrency %q, sequentially %q (and so in %d fresh sequential recomputations)", opName, c.short(), mon.Trunc(got, 160), mon.Trunc(want, 160), tries), input)
}

type c11SeqSet struct {
	seen  map[string]bool
	tries int
}

// run starts one goroutine per work function, releases them together and waits.
func c11Go(n int, work func(g int)) {
	var wg sync.WaitGroup
	start := make(chan struct{})
	wg.Add(n)
	for g := 0; g < n; g++ {
		go func(g int) {
			defer wg.Done()
			<-start
			work(g)
		}(g)
	}
	close(start)
	wg.Wait()
}

func (ch *c11Child) now() int64 { return int64(time.Since(ch.base)) }

// pause yields the processor at an operation boundary with probability 1/4
// (not in quiet batches). Gosched is no synchronisation for the race detector.
// Every goroutine has its own generator.
func (ch *c11Child) pauser(g int) func() {
	if ch.spec.Quiet {
		return func() {}
	}
	rng := rand.New(rand.NewPCG(ch.spec.Seed+uint64(ch.spec.Batch)*131+7, uint64(g)+uint64(ch.out.Rounds)*1009))
	return func() {
		if rng.IntN(4) == 0 {
			runtime.Gosched()
		}
	}
}

// rereadHeld compares every held byte slice with what it read on return.
func c11Reread(res []c11Res) {
	for i := range res {
		if res[i].raw != nil {
			if now := "OK: " + string(res[i].raw); now != res[i].dig {
				res[i].held = now
			}
		}
	}
}

// ---- plan A: every goroutine works on its own objects -------------------------------------

// planOwn: every goroutine works on objects of its own. In the cold variant the
// concurrent phase is the first use this process makes of the library (whatever
// the library sets up on first use is set up by racing goroutines), and the
// sequential results are computed afterwards.
func (ch *c11Child) planOwn(cold bool) {
	rng := ch.rng
	nd := 40 + rng.IntN(40)
	cases := make([]c11Case, nd)
	refs := make([][]string, nd)
	unstable := make([]bool, nd)
	ch.hooksQuiet()
	seqRefs := func(i int, redraw bool) {
		// a case whose three fresh sequential computations disagree is not used
		for try := 0; ; try++ {
			if redraw {
				cases[i] = ch.in.drawAny()
			}
			refs[i] = c11All(c11Build(cases[i]))
			ch.out.SeqOps += 3 * int64(len(refs[i]))
			if c11SameStrings(refs[i], c11All(c11Build(cases[i]))) && c11SameStrings(refs[i], c11All(c11Build(cases[i]))) || try > 50 {
				break
			}
			ch.out.Counts["cases_dropped_sequentially_nondeterministic"]++
			if !redraw {
				unstable[i] = true
				break
			}
		}
	}
	for i := range cases {
		if cold {
			cases[i] = ch.in.drawAny()
		} else {
			seqRefs(i, true)
		}
	}
	G := ch.spec.G
	work := make([][]int, G)
	total := 0
	for total < ch.spec.Ops {
		ci := rng.IntN(nd)
		g := rng.IntN(G)
		work[g] = append(work[g], ci)
		if cold {
			total += 6
		} else {
			total += len(refs[ci])
		}
	}
	results := make([][]c11Res, G)
	ch.hooksConcurrent()
	pausers := make([]func(), G)
	for g := range pausers {
		pausers[g] = ch.pauser(g)
	}
	c11Go(G, func(g int) {
		var res []c11Res
		for _, ci := range work[g] {
			o := c11Build(cases[ci])
			if o.buildErr != "" {
				res = append(res, c11Res{ci: ci, op: -1, dig: "BUILD " + o.buildErr})
				continue
			}
			for oi, op := range c11Ops(o.kind) {
				pausers[g]()
				t0 := ch.now()
				dig, raw := c11Call(o, op)
				res = append(res, c11Res{ci: ci, op: oi, dig: dig, raw: raw, t0: t0, t1: ch.now()})
			}
		}
		c11Reread(res)
		results[g] = res
	})
	ch.hooksQuiet()
	if cold {
		ch.out.Counts["cold_batches_concurrent_phase_first"]++
		for i := range cases {
			seqRefs(i, false)
		}
	}
	var stamps []c11Stamp
	for g, res := range results {
		for _, x := range res {
			ch.out.Ops++
			c := cases[x.ci]
			if unstable[x.ci] {
				continue
			}
			if x.op < 0 {
				ch.judge("own", c, "build", refs[x.ci][0], x.dig, "", 400, func() string { return c11All(c11Build(c))[0] })
				continue
			}
			op := c11Ops(c.Kind)[x.op]
			stamps = append(stamps, c11Stamp{op.name, x.t0, x.t1, g, x.ci})
			want := ""
			if x.op < len(refs[x.ci]) {
				want = refs[x.ci][x.op]
			}
			oi := x.op
			ch.judge("own", c, op.name, want, x.dig, x.held, 400, func() string {
				r := c11All(c11Build(c))
				if oi < len(r) {
					return r[oi]
				}
				return r[0]
			})
		}
	}
	ch.out.Rounds++
	ch.overlaps(stamps, func(ci int) string { return cases[ci].id() })
}

// ---- plan B: one shared object ------------------------------------------------------------

// sharedRound runs perms of the operations of one shared object from G
// goroutines. multiset names the index of the one operation (if >= 0) whose
// results are compared as a multiset against sequential calls number 1..n.
func (ch *c11Child) sharedRound(plan string, c c11Case, multiset int) {
	rng := ch.rng
	ch.hooksQuiet()
	ref := c11All(c11Build(c))
	ch.out.SeqOps += int64(len(ref))
	shared := c11Build(c)
	if shared.buildErr != "" || len(ref) == 1 && strings.HasPrefix(ref[0], "BUILD ") {
		ch.out.Counts["shared_rounds_skipped_build_error"]++
		return
	}
	ops := c11Ops(shared.kind)
	if multiset < 0 {
		// every operation must be idempotent sequentially, or the case says nothing
		again := c11All(c11Build(c))
		o2 := c11Build(c)
		rev := make([]string, len(ops))
		for i := len(ops) - 1; i >= 0; i-- {
			rev[i], _ = c11Call(o2, ops[i])
		}
		for i := range ref {
			if again[i] != ref[i] || rev[i] != ref[i] {
				ch.out.Incon["sequentially-order-dependent "+ops[i].name]++
				return
			}
		}
	}
	G := ch.spec.G
	reps := 1 + rng.IntN(2)
	perms := make([][]int, G)
	nMulti := 0
	for g := range perms {
		for k := 0; k < reps; k++ {
			perms[g] = append(perms[g], rng.Perm(len(ops))...)
		}
		for _, oi := range perms[g] {
			if oi == multiset {
				nMulti++
			}
		}
	}
	results := make([][]c11Res, G)
	ch.hooksConcurrent()
	pausers := make([]func(), G)
	for g := range pausers {
		pausers[g] = ch.pauser(g)
	}
	c11Go(G, func(g int) {
		res := make([]c11Res, 0, len(perms[g]))
		for _, oi := range perms[g] {
			pausers[g]()
			t0 := ch.now()
			dig, raw := c11Call(shared, ops[oi])
			res = append(res, c11Res{op: oi, dig: dig, raw: raw, t0: t0, t1: ch.now()})
		}
		c11Reread(res)
		results[g] = res
	})
	ch.hooksQuiet()
	var stamps []c11Stamp
	var multi []string
	for g, res := range results {
		for _, x := range res {
			ch.out.Ops++
			stamps = append(stamps, c11Stamp{ops[x.op].name, x.t0, x.t1, g, 0})
			if x.op == multiset && strings.HasPrefix(x.dig, "OK: ") {
				multi = append(multi, x.dig)
				if x.held != "" {
					ch.judge(plan, c, ops[x.op].name, x.dig, x.dig, x.held, 0, nil)
				}
				continue
			}
			oi := x.op
			ch.judge(plan, c, ops[x.op].name, ref[x.op], x.dig, x.held, 400, func() string {
				d, _ := c11Call(c11Build(c), ops[oi])
				return d
			})
		}
	}
	if multiset >= 0 && len(multi) > 0 {
		seq := func() []string {
			o := c11Build(c)
			l := make([]string, nMulti)
			for i := range l {
				l[i], _ = c11Call(o, ops[multiset])
			}
			sort.Strings(l)
			return l
		}
		want := seq()
		ch.out.SeqOps += int64(nMulti)
		sort.Strings(multi)
		if !c11SameStrings(want, multi) {
			if !c11SameStrings(want, seq()) {
				ch.out.Incon["sequentially-nondeterministic "+ops[multiset].name]++
			} else {
				clause := "result-differs"
				if c11PoisonCount(strings.Join(multi, "")) > c11PoisonCount(strings.Join(want, "")) {
					clause = "poison"
				}
				ch.viol(clause, plan+" "+ops[multiset].name+" (multiset)",
					fmt.Sprintf("%d concurrent %s calls on one %s returned a multiset different from the first %d sequential results of an equal fresh object; first difference: concurrent %q, sequential %q",
						len(multi), ops[multiset].name, c.short(), nMulti, c11FirstDiff(multi, want), c11FirstDiff(want, multi)),
					map[string]any{"case": c, "spec": ch.spec})
			}
		}
	}
	ch.out.Rounds++
	ch.overlaps(stamps, func(int) string { return c.id() })
}

func c11SameStrings(a, b []string) bool {
	if len(a) != len(b) {
		return false
	}
	for i := range a {
		if a[i] != b[i] {
			return false
		}
	}
	return true
}

// c11FirstDiff returns the first element of sorted a that sorted b lacks.
func c11FirstDiff(a, b []string) string {
	cnt := map[string]int{}
	for _, s := range b {
		cnt[s]++
	}
	for _, s := range a {
		if cnt[s] == 0 {
			return mon.Trunc(s, 100)
		}
		cnt[s]--
	}
	return "(none)"
}

func (ch *c11Child) planShared() {
	for attempts := 0; ch.out.Ops < int64(ch.spec.Ops) && attempts < 600; attempts++ {
		switch ch.spec.Plan {
		case "shared-jschema":
			if ch.rng.IntN(5) < 3 {
				ch.sharedRound("shared", ch.in.draw("project"), -1)
			} else {
				ch.sharedRound("shared", ch.in.draw("schema"), -1)
			}
		case "shared-rschema":
			ch.sharedRound("shared", ch.in.draw("regex"), c11RegexExample)
		case "shared-enum":
			ch.sharedRound("shared", ch.in.draw("enum"), -1)
		case "shared-type":
			ch.sharedTypeRound()
		}
	}
}

// ---- plan B, last part: one type object (and one rule object) registered in several roots --

type c11TypeSet struct {
	Root  string    `json:"root"`
	Type  string    `json:"type"`            // text of the shared type @t
	Regex bool      `json:"regex,omitempty"` // @t is a regex schema
	Bases []typeDef `json:"bases,omitempty"` // further types registered in @t and in every root (shared objects too)
	Rule  string    `json:"rule,omitempty"`  // text of the shared enum rule @r
}

func c11TypeSets(rng *rand.Rand) []c11TypeSet {
	n := func() string { return strconv.Itoa(1 + rng.IntN(900)) }
	return []c11TypeSet{
		{Root: "{\"a\": @t, \"b\": [@t], \"n\": " + n() + "}", Type: "{\n \"x\": " + n() + ",\n \"y\": \"s\" // {optional: true}\n}"},
		{Root: "{\"a\": @t}", Type: "{ // {allOf: \"@base\"}\n \"own\": " + n() + "\n}", Bases: []typeDef{{Name: "@base", Text: "{\"b1\": 1, \"b2\": [true]}"}}},
		{Root: "{ // {allOf: \"@t\"}\n \"mine\": " + n() + "\n}", Type: "{ // {allOf: \"@base\"}\n \"t1\": 1\n}", Bases: []typeDef{{Name: "@base", Text: "{\"b1\": \"v\"}"}}},
		{Root: "{\n \"r\": @t,\n \"s\": \"open\" // {enum: @r}\n}", Type: "{\n \"self\": @t, // {optional: true}\n \"e\": \"new\" // {enum: @r}\n}", Rule: `["new", "open", "done"]`},
		{Root: "{\"code\": @t, @t: 1}", Type: `/[A-Z]{2}\d{2,4}/`, Regex: true},
		{Root: "[@t, @t]", Type: "@u | @v", Bases: []typeDef{{Name: "@u", Text: "{\"u\": " + n() + "}"}, {Name: "@v", Text: "[1, 2, 3]"}}},
		{Root: "{\n \"k\": 1 // {type: \"@t\"}\n}", Type: n() + " // {min: 0}"},
		{Root: "{\"a\": @t, \"b\": @gone}", Type: "{\"x\": 1}"},
		{Root: "{ // {additionalProperties: \"@t\"}\n \"z\": 0\n}", Type: "{\"ap\": [@base]}", Bases: []typeDef{{Name: "@base", Text: "\"leaf\""}}},
		// the shared type names a key: a union of string types, an alias, a string with rules
		{Root: "{\"id\": " + n() + ", @t: 2}", Type: "@u | @v", Bases: []typeDef{{Name: "@u", Text: "\"abc\""}, {Name: "@v", Text: "\"de\" // {minLength: 1}"}}},
		{Root: "{@t: [1], \"w\": @t}", Type: "@u", Bases: []typeDef{{Name: "@u", Text: "\"k" + n() + "\" // {regex: \"^k\"}"}}},
		{Root: "{\n @t: {\"in\": @t} // {optional: true}\n}", Type: "\"key\" // {or: [{minLength: 2}, {type: \"email\"}]}"},
	}
}

type c11Roots struct {
	roots []*jschema.JSchema
	typ   *jschema.JSchema // nil when @t is a regex schema
	err   string
}

func (ts c11TypeSet) build(k int) (b c11Roots) {
	var err error
	if p := mon.Guard(func() {
		var rule *enum.Enum
		if ts.Rule != "" {
			rule = enum.New("@r", ts.Rule)
		}
		var t schema.Schema
		bases := map[string]*jschema.JSchema{}
		for _, bd := range ts.Bases {
			bases[bd.Name] = jschema.New(bd.Name, bd.Text)
		}
		if ts.Regex {
			t = regex.New("@t", ts.Type)
		} else {
			tj := jschema.New("@t", ts.Type)
			if rule != nil {
				if err = tj.AddRule("@r", rule); err != nil {
					return
				}
			}
			for _, bd := range ts.Bases {
				if err = tj.AddType(bd.Name, bases[bd.Name]); err != nil {
					return
				}
			}
			if err = tj.AddType("@t", tj); err != nil {
				return
			}
			t = tj
			b.typ = tj
		}
		for i := 0; i < k; i++ {
			r := jschema.New("root", ts.Root)
			if rule != nil {
				if err = r.AddRule("@r", rule); err != nil {
					return
				}
			}
			if err = r.AddType("@t", t); err != nil {
				return
			}
			for _, bd := range ts.Bases {
				if err = r.AddType(bd.Name, bases[bd.Name]); err != nil {
					return
				}
			}
			b.roots = append(b.roots, r)
		}
	}); p != nil {
		b.err = "PANIC: " + p.Value + " @ " + p.Site
	} else if err != nil {
		b.err = "ERR: " + c11ErrText(err)
	}
	return b
}

// seq runs the full call set on every root in the given order (and on the type
// itself last or first) and returns the results per object; index len(roots)
// is the type object.
func (b c11Roots) seq(order []int, typeFirst bool) [][]string {
	out := make([][]string, len(b.roots)+1)
	if typeFirst && b.typ != nil {
		out[len(b.roots)] = c11All(&c11Obj{kind: "schema", js: b.typ})
	}
	for _, i := range order {
		out[i] = c11All(&c11Obj{kind: "schema", js: b.roots[i]})
	}
	if !typeFirst && b.typ != nil {
		out[len(b.roots)] = c11All(&c11Obj{kind: "schema", js: b.typ})
	}
	return out
}

func (ch *c11Child) sharedTypeRound() {
	rng := ch.rng
	sets := c11TypeSets(rng)
	ts := sets[rng.IntN(len(sets))]
	k := 2 + rng.IntN(3)
	c := c11Case{Kind: "typeset", Text: func() string { b, _ := stdjson.Marshal(ts); return string(b) }()}
	ch.hooksQuiet()
	fresh := func() c11Roots { return ts.build(k) }
	rb := fresh()
	if rb.err != "" {
		ch.out.Counts["shared_rounds_skipped_build_error"]++
		return
	}
	fwd := make([]int, k)
	bwd := make([]int, k)
	for i := range fwd {
		fwd[i], bwd[i] = i, k-1-i
	}
	ref := rb.seq(fwd, false)
	alt := fresh().seq(bwd, true)
	ops := c11Ops("schema")
	ch.out.SeqOps += int64(2 * (k + 1) * len(ops))
	for i := range ref {
		if ref[i] == nil {
			continue
		}
		for j := range ref[i] {
			// identical roots must agree with each other and in either order
			if ref[i][j] != alt[i][j] || (i < k && ref[i][j] != ref[0][j]) {
				ch.out.Incon["sequentially-order-dependent typeset"]++
				return
			}
		}
	}
	sh := fresh()
	withType := sh.typ != nil && rng.IntN(2) == 0
	G := ch.spec.G
	target := make([]int, G)
	perms := make([][]int, G)
	for g := range perms {
		target[g] = g % k
		if withType && g%5 == 4 {
			target[g] = k
		}
		perms[g] = rng.Perm(len(ops))
	}
	objs := make([]*c11Obj, k+1)
	for i, r := range sh.roots {
		objs[i] = &c11Obj{kind: "schema", js: r}
	}
	if sh.typ != nil {
		objs[k] = &c11Obj{kind: "schema", js: sh.typ}
	}
	results := make([][]c11Res, G)
	ch.hooksConcurrent()
	pausers := make([]func(), G)
	for g := range pausers {
		pausers[g] = ch.pauser(g)
	}
	c11Go(G, func(g int) {
		res := make([]c11Res, 0, len(perms[g]))
		o := objs[target[g]]
		for _, oi := range perms[g] {
			pausers[g]()
			t0 := ch.now()
			dig, raw := c11Call(o, ops[oi])
			res = append(res, c11Res{ci: target[g], op: oi, dig: dig, raw: raw, t0: t0, t1: ch.now()})
		}
		c11Reread(res)
		results[g] = res
	})
	ch.hooksQuiet()
	var stamps []c11Stamp
	for g, res := range results {
		for _, x := range res {
			ch.out.Ops++
			name := ops[x.op].name
			stampName := name
			if x.ci == k {
				stampName += " (on the registered type)"
			}
			stamps = append(stamps, c11Stamp{stampName, x.t0, x.t1, g, 0})
			ti, oi := x.ci, x.op
			ch.judge("shared-type", c, name, ref[x.ci][x.op], x.dig, x.held, 100, func() string {
				// any sequential order may explain a result
				ord := rng.Perm(k)
				return fresh().seq(ord, rng.IntN(2) == 0)[ti][oi]
			})
		}
	}
	ch.out.Rounds++
	ch.overlaps(stamps, func(int) string { return c.id() })
}

// c11BatchMain is the entry of the batch child process.
func c11BatchMain(args []string) int {
	if len(args) < 1 {
		fmt.Fprintln(os.Stderr, "usage: child c11-batch <spec.json>")
		return 2
	}
	sb, err := os.ReadFile(args[0])
	if err != nil {
		fmt.Fprintln(os.Stderr, err)
		return 2
	}
	var spec c11Spec
	if err := stdjson.Unmarshal(sb, &spec); err != nil {
		fmt.Fprintln(os.Stderr, err)
		return 2
	}
	var corpus []c11CorpusItem
	if cb, err := os.ReadFile(spec.Corpus); err == nil {
		stdjson.Unmarshal(cb, &corpus)
	}
	if len(corpus) == 0 {
		fmt.Fprintln(os.Stderr, "c11-batch: empty corpus", spec.Corpus)
		return 2
	}
	t0 := time.Now()
	runtime.GOMAXPROCS(spec.Procs)
	rng := rand.New(rand.NewPCG(spec.Seed*0x9E3779B97F4A7C15+77, uint64(spec.Batch)+1))
	ch := &c11Child{spec: spec, rng: rng, in: c11NewInputs(corpus, rng), seenV: map[string]bool{}, ntSeen: map[string]bool{}, seqCache: map[string]*c11SeqSet{}, base: time.Now()}
	ch.out.Overlaps = map[string]int64{}
	ch.out.Incon = map[string]int64{}
	ch.out.Counts = map[string]int64{}
	if spec.Plan == "own" || spec.Plan == "own-cold" {
		ch.planOwn(spec.Plan == "own-cold")
	} else {
		ch.planShared()
	}
	ch.out.Pool = map[string]int64{
		"gets": verifhook.PoolGets.Load(), "puts": verifhook.PoolPuts.Load(), "reuses": verifhook.PoolReuses.Load(),
		"cross_goroutine_handoffs": verifhook.PoolCrossHandoffs.Load(), "yields": verifhook.PoolYields.Load(),
	}
	ch.out.WallMs = time.Since(t0).Milliseconds()
	ch.out.Done = true
	ob, _ := stdjson.Marshal(&ch.out)
	if err := os.WriteFile(spec.Out, ob, 0o644); err != nil {
		fmt.Fprintln(os.Stderr, err)
		return 2
	}
	return 0
}

// ---- race log parsing -------------------------------------------------------------------------

type c11Report struct {
	Key     string // "<entry A> <-> <entry B>", sorted
	Harness bool   // no repository frame in either stack
	Sig     string // both stacks, functions only
	Text    string
}

var c11GenericRE = regexp.MustCompile(`\[[^\]]*\]`)

func c11CleanFn(fn string) string {
	fn = strings.TrimSpace(fn)
	fn = strings.TrimSuffix(fn, "()")
	fn = c11GenericRE.ReplaceAllString(fn, "")
	return fn
}

// c11RepoFn tells whether a function belongs to the repository (the verif
// hook package does not count) and returns its name without the module path.
func c11RepoFn(fn string) (string, bool) {
	const root = "github.com/jsightapi/jsight-schema-core"
	if !strings.HasPrefix(fn, root) {
		return "", false
	}
	rest := fn[len(root):]
	switch {
	case strings.HasPrefix(rest, "/verifhook."):
		return "", false
	case strings.HasPrefix(rest, "/"):
		return rest[1:], true
	case strings.HasPrefix(rest, "."):
		return "jsight-schema-core" + rest, true // the root package
	}
	return "", false
}

// c11Entry returns the outermost repository function of a stack (innermost
// first). A stack without repository frames is harness (or standard library)
// code working on a value the library handed out.
func c11Entry(fns []string) (string, bool) {
	for i := len(fns) - 1; i >= 0; i-- {
		if name, ok := c11RepoFn(fns[i]); ok {
			return name, true
		}
	}
	if len(fns) == 0 {
		return "(stack not restored)", false
	}
	return "(caller, on a value the library returned)", false
}

func c11ParseRace(text string) []c11Report {
	var out []c11Report
	for _, blk := range strings.Split(text, "==================") {
		if !strings.Contains(blk, "WARNING: DATA RACE") {
			continue
		}
		blk = strings.TrimSpace(blk)
		var stacks [][]string
		for _, sec := range strings.Split(blk, "\n\n") {
			lines := strings.Split(sec, "\n")
			if len(lines) > 0 && strings.HasPrefix(lines[0], "WARNING: DATA RACE") {
				lines = lines[1:]
			}
			if len(lines) == 0 {
				continue
			}
			h := lines[0]
			if strings.HasPrefix(h, "Goroutine ") || !(strings.Contains(h, " by goroutine ") || strings.Contains(h, " by main goroutine")) {
				continue
			}
			var fns []string
			for _, ln := range lines[1:] {
				if strings.HasPrefix(ln, "  ") && !strings.HasPrefix(ln, "   ") {
					if fn := c11CleanFn(ln); !strings.HasPrefix(fn, "[failed to restore") {
						fns = append(fns, fn)
					}
				}
			}
			stacks = append(stacks, fns)
		}
		for len(stacks) < 2 {
			stacks = append(stacks, nil)
		}
		a, okA := c11Entry(stacks[0])
		b, okB := c11Entry(stacks[1])
		sa, sb := strings.Join(stacks[0], ";"), strings.Join(stacks[1], ";")
		if b < a {
			a, b = b, a
		}
		if sb < sa {
			sa, sb = sb, sa
		}
		out = append(out, c11Report{Key: a + " <-> " + b, Harness: !okA && !okB, Sig: sa + "\n" + sb, Text: blk})
	}
	return out
}

// ---- the worker shard -------------------------------------------------------------------------

var c11Plans = []string{"own", "own-cold", "own", "own-cold", "own", "shared-jschema", "shared-jschema", "shared-rschema", "shared-enum", "shared-type"}

func c11MakeSpec(seed uint64, batch int) c11Spec {
	rng := rand.New(rand.NewPCG(seed*0x9E3779B97F4A7C15+5, uint64(batch)+1))
	return c11Spec{Batch: batch, Seed: seed, Plan: c11Plans[batch%len(c11Plans)],
		G: []int{2, 4, 16, 64}[rng.IntN(4)], Procs: []int{1, 2, 4, 16}[rng.IntN(4)], Ops: 2000, Quiet: rng.IntN(4) == 0}
}

func c11WriteCorpus(repo, path string) (int, error) {
	var items []c11CorpusItem
	texts := gen.Corpus(repo)
	// results larger than the buffer pools' initial sizes (512 / 1024 bytes): the place where a pooled,
	// grown buffer handed out without a copy shows under concurrency
	for _, n := range []int{60, 150, 400} {
		var nums, members []string
		for i := 0; i < n; i++ {
			nums = append(nums, fmt.Sprintf("%d", 1000+i))
			members = append(members, fmt.Sprintf("%q: %q", fmt.Sprintf("key%03d", i), strings.Repeat("v", 6+i%5)))
		}
		for rep := 0; rep < 6; rep++ { // several copies so that random draws hit them often
			texts = append(texts, fmt.Sprintf("[%s, %d]", strings.Join(nums, ", "), rep), fmt.Sprintf("{%s, \"rep\": %d}", strings.Join(members, ", "), rep))
		}
	}
	for _, s := range texts {
		it := c11CorpusItem{T: s}
		mon.Guard(func() {
			if jschema.New("root", s).Check() == nil {
				it.F |= 1
			}
		})
		mon.Guard(func() {
			if enum.New("@e", s).Check() == nil {
				it.F |= 2
			}
		})
		mon.Guard(func() {
			if regex.New("r", s).Check() == nil {
				it.F |= 4
			}
		})
		mon.Guard(func() {
			if jdoc.New("doc", s).Check() == nil {
				it.F |= 8
			}
		})
		items = append(items, it)
	}
	b, _ := stdjson.Marshal(items)
	return len(items), os.WriteFile(path, b, 0o644)
}

const c11ChildWall = 15 * time.Minute

// c11RunBatch runs one batch child and folds what it saw into r. It returns
// the number of violations the batch produced.
func c11RunBatch(r *mon.Run, spec c11Spec, raceExe, tag string) int {
	dir := filepath.Join(r.OutDir, "c11")
	raceDir := filepath.Join(r.OutDir, "race")
	os.MkdirAll(dir, 0o755)
	os.MkdirAll(raceDir, 0o755)
	name := fmt.Sprintf("b%d%s", spec.Batch, tag)
	spec.Out = filepath.Join(dir, name+".out.json")
	specPath := filepath.Join(dir, name+".spec.json")
	sb, _ := stdjson.Marshal(spec)
	if err := os.WriteFile(specPath, sb, 0o644); err != nil {
		r.Inconclusive("cannot-write-spec")
		return 0
	}
	os.Remove(spec.Out)
	logPath := filepath.Join(dir, name+".log")
	lf, err := os.Create(logPath)
	if err != nil {
		r.Inconclusive("cannot-create-log")
		return 0
	}
	cmd := exec.Command(raceExe, "child", "c11-batch", specPath)
	racePrefix := filepath.Join(raceDir, name)
	cmd.Env = append(os.Environ(), "GORACE=halt_on_error=0 atexit_sleep_ms=0 log_path="+racePrefix) // the default exit sleep of 1 s would double the cost of a batch
	cmd.Stdout = lf
	cmd.Stderr = lf
	viol := 0
	// A type (or rule) object registered in several roots that are then compiled
	// concurrently is outside the statement of C11 (neither "own objects" nor
	// "one schema object"): what the shared-type batches show is counted, never
	// raised.
	judged := spec.Plan != "shared-type"
	violate := func(clause, key, what string, input any) {
		if !judged {
			switch clause {
			case "data-race", "harness-race":
				r.Count("not_judged:shared_type_across_roots_distinct_race_pairs_per_batch", 1)
			case "child-death":
				r.Count("not_judged:shared_type_across_roots_child_deaths", 1)
			default:
				r.Count("not_judged:shared_type_across_roots_result_differs", 1)
			}
			return
		}
		viol++
		r.Violate(clause, key, what, input)
	}
	timedOut := false
	runErr := cmd.Start()
	if runErr == nil {
		done := make(chan error, 1)
		go func() { done <- cmd.Wait() }()
		select {
		case runErr = <-done:
		case <-time.After(c11ChildWall):
			cmd.Process.Kill()
			<-done
			timedOut = true
		}
	}
	lf.Close()
	r.Count("batches", 1)
	r.Count("batches_plan_"+spec.Plan, 1)
	r.Count(fmt.Sprintf("batches_goroutines_%02d", spec.G), 1)
	r.Count(fmt.Sprintf("batches_gomaxprocs_%02d", spec.Procs), 1)
	if spec.Quiet {
		r.Count("batches_hooks_quiet", 1)
	}

	// (1) the child's own report
	var out c11Out
	ob, rerr := os.ReadFile(spec.Out)
	if rerr == nil {
		stdjson.Unmarshal(ob, &out)
	}
	switch {
	case timedOut:
		r.Inconclusive("child-wall-clock-limit")
		r.Note(fmt.Sprintf("batch %d (%s) exceeded %v wall clock and was killed", spec.Batch, spec.Plan, c11ChildWall))
	case !out.Done:
		log := c11FileHead(logPath, 1<<16)
		fatal, site := c11Death(log)
		if fatal == "" {
			fatal = fmt.Sprintf("no result file (%v)", runErr)
		}
		key := digitsRE.ReplaceAllString(fatal, "N") + " @ " + site
		violate("child-death", key, fmt.Sprintf("batch child (plan %s, %d goroutines, GOMAXPROCS %d) died: %s; log head: %s", spec.Plan, spec.G, spec.Procs, fatal, mon.Trunc(log, 300)), map[string]any{"spec": spec})
	default:
		r.Eval(int(out.Ops))
		r.Count("operations_run_concurrently", out.Ops)
		r.Count("operations_run_sequentially_for_reference", out.SeqOps)
		r.Count("rounds", out.Rounds)
		r.Count("overlapping_operation_pairs_total", out.OverlapTotal)
		if out.OverlapTotal == 0 {
			r.Count("batches_without_any_overlap", 1)
		}
		for k, v := range out.Overlaps {
			r.Count("overlap:"+k, v)
		}
		for _, h := range out.Nontrivial {
			r.Nontrivial(h)
		}
		for k, v := range out.Pool {
			r.Count("pool_"+k, v)
		}
		for k, v := range out.Incon {
			for i := int64(0); i < v && i < 50; i++ {
				r.Inconclusive(k)
			}
		}
		for k, v := range out.Counts {
			if !judged && k == "duplicate_violation_reports" {
				continue
			}
			r.Count(k, v)
		}
		for _, v := range out.Viol {
			violate(v.Clause, v.Key, v.What, v.Input)
		}
		if spec.Batch%97 == 3 || spec.Batch < 2 {
			r.Sample(map[string]any{"batch_spec": spec, "operations": out.Ops, "overlapping_pairs": out.OverlapTotal, "pool": out.Pool, "wall_ms": out.WallMs})
		}
	}

	// (2) the race detector's log files of this child (and of nobody else)
	files, _ := filepath.Glob(racePrefix + ".*")
	seenKey := map[string]bool{}
	seenSig := map[string]bool{}
	for _, f := range files {
		b, err := os.ReadFile(f)
		if err != nil {
			continue
		}
		reps := c11ParseRace(string(b))
		if judged {
			r.Count("race_reports_total", int64(len(reps)))
		} else {
			r.Count("not_judged:shared_type_across_roots_races", int64(len(reps)))
		}
		for _, rep := range reps {
			if !seenSig[rep.Sig] {
				seenSig[rep.Sig] = true
				if judged {
					r.Count("race_reports_distinct_stack_pairs_per_batch", 1)
				}
			}
			if seenKey[rep.Key] {
				continue
			}
			seenKey[rep.Key] = true
			clause := "data-race"
			if rep.Harness {
				clause = "harness-race"
			}
			prefix := "report-"
			if !judged {
				prefix = "notjudged-report-"
			}
			os.WriteFile(filepath.Join(dir, prefix+mon.Hash(clause, c11PlanClass(spec.Plan), rep.Key)+".txt"), []byte("key: "+c11PlanClass(spec.Plan)+": "+rep.Key+"\nbatch: "+string(sb)+"\n\n"+rep.Text+"\n"), 0o644)
			violate(clause, c11PlanClass(spec.Plan)+": "+rep.Key, c11Head(rep.Text, 14), map[string]any{"spec": spec})
		}
		if len(b) > 1<<20 { // keep the head only
			os.WriteFile(f, append(b[:1<<20], []byte("\n[truncated by the harness]\n")...), 0o644)
		}
	}
	return viol
}

func c11FileHead(path string, n int) string {
	f, err := os.Open(path)
	if err != nil {
		return ""
	}
	defer f.Close()
	buf := make([]byte, n)
	k, _ := io.ReadFull(f, buf)
	return string(buf[:k])
}

// c11Death extracts the fatal line of a dead child's log and the first
// repository function of the first goroutine dump that has one.
func c11Death(log string) (fatal, site string) {
	for _, ln := range strings.Split(log, "\n") {
		if strings.HasPrefix(ln, "fatal error:") || strings.HasPrefix(ln, "panic:") || strings.HasPrefix(ln, "runtime: ") || strings.HasPrefix(ln, "SIG") {
			fatal = mon.Trunc(ln, 200)
			break
		}
	}
	site = "?"
	for _, blk := range strings.Split(log, "\n\n") {
		var fns []string
		for _, ln := range strings.Split(blk, "\n") {
			if strings.HasPrefix(ln, c11Mod) {
				fns = append(fns, ln)
			}
		}
		if len(fns) > 0 {
			site = mon.SiteOf(strings.Join(fns, "\n"))
			break
		}
	}
	return fatal, site
}

// c11PlanClass names what the goroutines of a plan share: nothing, one object,
// or a type/rule object registered in several roots.
func c11PlanClass(plan string) string {
	switch plan {
	case "own", "own-cold":
		return "own"
	case "shared-type":
		return "shared-type"
	}
	return "shared"
}

func c11Head(s string, n int) string {
	lines := strings.Split(s, "\n")
	var keep []string
	for _, ln := range lines {
		t := strings.TrimSpace(ln)
		if t == "" || strings.HasPrefix(ln, "      ") { // drop file:line rows, keep functions
			continue
		}
		keep = append(keep, t)
		if len(keep) >= n {
			break
		}
	}
	return strings.Join(keep, " / ")
}

func c11Run(r *mon.Run) {
	raceExe := os.Getenv("VERIF_RACE_EXE")
	if raceExe == "" {
		r.Note("VERIF_RACE_EXE is not set: no -race build to run the batches in (use run.sh)")
		r.Inconclusive("no-race-binary")
		return
	}
	corpusPath := filepath.Join(r.OutDir, fmt.Sprintf("c11-corpus.%d.json", r.Shard))
	n, err := c11WriteCorpus(r.Repo, corpusPath)
	if err != nil || n == 0 {
		r.Note(fmt.Sprintf("cannot prepare the corpus: %v (%d items)", err, n))
		r.Inconclusive("no-corpus")
		return
	}
	r.CountMax("max:corpus_literals", int64(n))
	for _, k := range []string{"race_reports_total", "race_reports_distinct_stack_pairs_per_batch", "pool_cross_goroutine_handoffs", "overlapping_operation_pairs_total"} {
		r.Count(k, 0) // the counters exist in the evidence even when nothing was seen
	}
	batches := r.Pick(120, 1600)
	for i := 0; i < batches; i++ {
		if !r.Mine(i) {
			continue
		}
		spec := c11MakeSpec(r.Seed, i)
		spec.Corpus = corpusPath
		if !r.Begin(func() []byte { b, _ := stdjson.Marshal(spec); return b }) {
			continue
		}
		c11RunBatch(r, spec, raceExe, "")
	}
}

// c11Finalize folds the per-pair overlap counters and the race report samples
// into compact evidence entries.
func c11Finalize(c *mon.Coord) {
	pairs := 0
	var total int64
	type kv struct {
		k string
		v int64
	}
	var all []kv
	for k, v := range c.Merged.Counters {
		if strings.HasPrefix(k, "overlap:") {
			pairs++
			total += v
			all = append(all, kv{strings.TrimPrefix(k, "overlap:"), v})
			delete(c.Merged.Counters, k)
		}
	}
	sort.Slice(all, func(i, j int) bool { return all[i].v > all[j].v || all[i].v == all[j].v && all[i].k < all[j].k })
	top := map[string]int64{}
	for i, e := range all {
		if i >= 12 {
			break
		}
		top[e.k] = e.v
	}
	same := 0
	for _, e := range all {
		if p := strings.SplitN(e.k, " | ", 2); len(p) == 2 && p[0] == p[1] {
			same++
		}
	}
	c.Merged.Counters["overlapping_operation_name_pairs_distinct"] = int64(pairs)
	c.Extra["overlap_evidence"] = map[string]any{
		"distinct_operation_name_pairs_seen_overlapping": pairs, "of_which_same_operation_twice": same,
		"overlapping_pairs_total": total, "most_frequent": top,
		"how": "an operation's interval is [monotonic clock before the call, after the call]; two operations of different goroutines overlap when the intervals intersect",
	}
	reports, _ := filepath.Glob(filepath.Join(c.OutDir, "c11", "report-*.txt"))
	sort.Strings(reports)
	var samples []string
	for i, f := range reports {
		if i >= 12 {
			break
		}
		if b, err := os.ReadFile(f); err == nil {
			samples = append(samples, mon.Trunc(string(b), 6000))
		}
	}
	nj, _ := filepath.Glob(filepath.Join(c.OutDir, "c11", "notjudged-report-*.txt"))
	sort.Strings(nj)
	if len(nj) > 0 {
		var njs []string
		for i, f := range nj {
			if i >= 3 {
				break
			}
			if b, err := os.ReadFile(f); err == nil {
				njs = append(njs, mon.Trunc(string(b), 3000))
			}
		}
		c.Extra["not_judged_shared_type_across_roots"] = map[string]any{
			"why":                   "one type (or rule) object registered in several roots whose first Compile runs concurrently is outside the statement (the goroutines neither own all their objects nor call one schema object); the batches are run and what they show is counted under not_judged:* only",
			"distinct_report_files": len(nj), "report_samples": njs,
		}
	}
	c.Extra["race_detector"] = map[string]any{
		"distinct_report_files": len(reports), "report_samples": samples,
		"log_dir": filepath.Join(c.OutDir, "race"),
		"dedup":   "by the pair of outermost repository functions of the two access stacks, then by the pair of function lists (no line numbers)",
	}
}

func c11Replay(r *mon.Run, raw stdjson.RawMessage) {
	var c struct {
		Spec c11Spec `json:"spec"`
	}
	if err := stdjson.Unmarshal(raw, &c); err != nil || c.Spec.Plan == "" {
		fmt.Println("the recorded case carries no batch specification")
		return
	}
	raceExe := os.Getenv("VERIF_RACE_EXE")
	if raceExe == "" {
		fmt.Println("VERIF_RACE_EXE is not set (use run.sh C11 --replay <file>)")
		return
	}
	os.MkdirAll(r.OutDir, 0o755)
	corpusPath := filepath.Join(r.OutDir, "c11-corpus.replay.json")
	if _, err := c11WriteCorpus(r.Repo, corpusPath); err != nil {
		fmt.Println("cannot prepare the corpus:", err)
		return
	}
	c.Spec.Corpus = corpusPath
	// the schedule is not recorded: the batch is repeated until it shows something
	for i := 0; i < 10; i++ {
		if c11RunBatch(r, c.Spec, raceExe, fmt.Sprintf("-replay%d", i)) > 0 {
			fmt.Printf("attempt %d of batch %d (%s) showed violations\n", i+1, c.Spec.Batch, c.Spec.Plan)
			return
		}
	}
}

func init() {
	children["c11-batch"] = c11BatchMain
	children["c11-templates"] = func([]string) int { // prints what the generated inputs are, for a reader
		rng := rand.New(rand.NewPCG(1, 1))
		for _, p := range c11Projects(rng) {
			b, _ := stdjson.Marshal(p)
			fmt.Printf("%s\n   -> %q\n", b, c11All(c11Build(c11Case{Kind: "project", Project: &p})))
		}
		for _, ts := range c11TypeSets(rng) {
			b, _ := stdjson.Marshal(ts)
			rb := ts.build(2)
			fmt.Printf("%s\n   -> build %q\n", b, rb.err)
			if rb.err == "" {
				fmt.Printf("   -> %q\n", rb.seq([]int{0, 1}, false))
			}
		}
		return 0
	}
	register(&mon.CheckDef{
		ID:                 "C11",
		Run:                c11Run,
		Replay:             c11Replay,
		Finalize:           c11Finalize,
		Rule:               "120 (quick) / 1600 (thorough) batches of about 2000 library calls, each batch in its own child process of the -race build (GORACE halt_on_error=0, one log per child): first every call is computed sequentially on fresh objects (hooks quiet), then the same calls run from G in {2,4,16,64} goroutines under GOMAXPROCS in {1,2,4,16} with a precomputed random work assignment; in 3 of 4 batches the buffer pools yield with probability 0.2 per Get/Put, count cross-goroutine hand-offs and poison buffers on Put. Plan A (half of the batches): every goroutine builds its OWN objects from the case (test-corpus literals as schema / enum rule / regex / JSON document, generated accepted and rejected projects with user types, regex types and enum rules) and runs the full call set (JSchema Len, Check, Example, GetAST, UsedUserTypes, OpenAPI marshal, Dereference with PropertiesInfos; Enum Check, Len, Values, GetAST; RSchema Check, Len, Pattern, GetAST, OpenAPI marshal, Example; Document Check, Len, NextLexeme loop). Plan B: G goroutines call random permutations of the call set on ONE JSchema (types and rules registered before the goroutines start), ONE RSchema (Example compared as a multiset with the first n sequential results), ONE Enum, ; one batch in ten additionally runs 2-4 roots that share one registered type object / rule object (that sharing is outside the statement: counted under not_judged:*, never raised). Violations: a race report with a repository frame (de-duplicated by the outermost repository functions of the two stacks), a result differing from the sequential one (after 6 fresh sequential recomputations fail to reproduce it), returned bytes that change or show the poison byte after the call returned, a batch child that dies. distinct_nontrivial = distinct cases (hashed, per plan) of which at least one operation overlapped in time with an operation of another goroutine; a run without any observed overlap therefore fails its own sanity.",
		MinNontrivialQuick: 800, MinNontrivialThorough: 6000,
		MaxInconclusiveFrac: 0.01,
		Assumptions: []string{
			"the Go race detector reports only races that happen on the executed schedules; its shadow memory keeps the last four accesses per 8-byte word",
			"schedules are explored by over-subscription (up to 16 race children at a time), GOMAXPROCS 1-16, 2-64 goroutines and seeded yields inside the buffer pools; they are not enumerated",
			"while hook event accounting is on (3 batches of 4) every BufferPool.Get/Put and loader Get touches shared atomic counters, which for the race detector orders the goroutines at those points: a race between accesses on different sides of such points is then only seen when they are physically close; one batch in four runs with yield/events/poison off and has no such ordering",
			"a type or rule object registered in several roots that are compiled concurrently is outside the statement: those batches run, their race reports, differing results and child deaths are counted (not_judged:*) and shown as samples, not raised",
			"concurrent AddType/AddRule and concurrent NextLexeme on one Document are outside the statement and never exercised",
			"a difference that a fresh sequential recomputation reproduces (sequential non-determinism, order dependence) is counted as inconclusive, not as a violation of this property",
		},
	})
}
