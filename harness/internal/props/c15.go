package props

import (
	stdjson "encoding/json"
	"fmt"
	"math/rand/v2"
	"os"
	"strings"

	"github.com/jsightapi/jsight-schema-core/notations/jschema"
	"github.com/jsightapi/jsight-schema-core/rules/enum"

	"verifharness/internal/gen"
	"verifharness/internal/mon"
)

// C15 — Len() finds the end of the schema inside a larger text.
//
// Judged for a text S that Check() accepts (or, for literals of the test
// corpus, rejects only with "type not found" because no types are registered)
// and that has a root value:
//
//	len-exceeds     Len(S) <= len(S)
//	prefix-verdict  P = S[:Len(S)] gets the verdict of S (error code)
//	prefix-ast      json.Marshal(GetAST()) of P equals that of S
//	idempotent      Len(P) == Len(S)
//	trailer         Len(S + NL + T) == Len(S) for every T whose first byte is
//	                neither '/', '#' nor a blank, when S is complete
//	panic           none of the calls lets a panic escape
//
// Everything is metamorphic: no value of Len is predicted by the harness.

// ---- lexical helpers (carve-out predicates only, never an oracle) ---------------

const (
	lxCode byte = iota
	lxString
	lxNote
	lxLineComment
	lxBlockComment
)

func c15IsNL(c byte) bool { return c == '\n' || c == '\r' }

// c15Lex classifies every byte of a schema text coarsely: code, string
// literal, free annotation text, `#` line comment, `###` block comment. It
// also tells whether the text ends inside a block comment that was never
// closed. The result feeds the two predicates below and nothing else.
func c15Lex(s string) (cls []byte, openBlock bool) {
	cls = make([]byte, len(s))
	n := len(s)
	const (
		mCode     = iota // outside annotations
		mAnnStart        // after `//` or `/*`, before the first significant byte
		mAnnObj          // inside the rule object of an annotation
		mAnnAfter        // after the rule object
		mNote            // free text of an annotation
	)
	type frame struct {
		mode   int
		inline bool // inline (`//`) annotation as opposed to `/* */`
		depth  int
	}
	cur := frame{mode: mCode}
	var outer *frame // the multi-line annotation an inline annotation is nested in
	endInline := func() {
		if outer != nil {
			cur = *outer
			outer = nil
		} else {
			cur = frame{mode: mCode}
		}
	}
	i := 0
	str := func() {
		cls[i] = lxString
		i++
		for i < n {
			c := s[i]
			cls[i] = lxString
			if c == '\\' && i+1 < n && !c15IsNL(s[i+1]) {
				cls[i+1] = lxString
				i += 2
				continue
			}
			i++
			if c == '"' || c15IsNL(c) {
				return
			}
		}
	}
	// comment consumes a `#` comment starting at i; reports whether a block comment stayed open
	comment := func() bool {
		if i+2 < n && s[i+1] == '#' && s[i+2] == '#' {
			j := i + 3
			for j < n && !(s[j] == '#' && j+2 < n && s[j+1] == '#' && s[j+2] == '#') {
				j++
			}
			closed := j < n
			if closed {
				j += 3
			}
			for ; i < j && i < n; i++ {
				cls[i] = lxBlockComment
			}
			return !closed
		}
		if i+1 < n && c15IsNL(s[i+1]) {
			// As the scanner reads it today, the byte after `#` always belongs to
			// the comment: an empty comment swallows its line break and runs to
			// the end of the following line (second recorded finding). Following
			// that reading only widens the carve-out.
			cls[i], cls[i+1] = lxLineComment, lxLineComment
			i += 2
		}
		for i < n && !c15IsNL(s[i]) {
			cls[i] = lxLineComment
			i++
		}
		return false
	}
	for i < n {
		c := s[i]
		inMulti := (cur.mode != mCode && !cur.inline) || outer != nil
		switch cur.mode {
		case mCode:
			switch {
			case c == '"':
				str()
			case c == '#':
				if comment() {
					return cls, true
				}
			case c == '/' && i+1 < n && (s[i+1] == '/' || s[i+1] == '*'):
				cur = frame{mode: mAnnStart, inline: s[i+1] == '/'}
				i += 2
			default:
				i++
			}
		case mAnnStart:
			switch {
			case c == ' ' || c == '\t' || (!cur.inline && c15IsNL(c)):
				i++
			case cur.inline && c15IsNL(c):
				endInline()
				i++
			case c == '{':
				cur.mode, cur.depth = mAnnObj, 1
				i++
			default:
				cur.mode = mNote
			}
		case mAnnObj:
			switch {
			case c == '"':
				str()
			case c == '{':
				cur.depth++
				i++
			case c == '}':
				cur.depth--
				i++
				if cur.depth == 0 {
					cur.mode = mAnnAfter
				}
			case c == '#' && !inMulti:
				if comment() {
					return cls, true
				}
			case c == '#' && cur.inline:
				// `#` inside an inline annotation nested in a multi-line one: treat as comment (over-approximation)
				if comment() {
					return cls, true
				}
			case cur.inline && c15IsNL(c):
				endInline()
				i++
			case !cur.inline && outer == nil && c == '/' && i+1 < n && s[i+1] == '/':
				o := cur
				outer = &o
				cur = frame{mode: mAnnStart, inline: true}
				i += 2
			case !cur.inline && c == '*' && i+1 < n && s[i+1] == '/':
				cur = frame{mode: mCode}
				i += 2
			default:
				i++
			}
		case mAnnAfter:
			switch {
			case cur.inline && c15IsNL(c):
				endInline()
				i++
			case c == '#' && (cur.inline || !inMulti):
				if comment() {
					return cls, true
				}
			case c == '-':
				cur.mode = mNote
				i++
			case !cur.inline && c == '*' && i+1 < n && s[i+1] == '/':
				cur = frame{mode: mCode}
				i += 2
			default:
				i++
			}
		case mNote:
			switch {
			case cur.inline && c15IsNL(c):
				endInline()
				i++
			case cur.inline && c == '#':
				// inside a multi-line annotation the scanner keeps `#` as text; calling it a comment only widens the carve-out
				if comment() {
					return cls, true
				}
			case !cur.inline && c == '*' && i+1 < n && s[i+1] == '/':
				cur = frame{mode: mCode}
				i += 2
			default:
				cls[i] = lxNote
				i++
			}
		}
	}
	return cls, false
}

// c15LastLine returns the bounds of the last non-blank line of s and whether a
// newline follows it inside s.
func c15LastLine(s string) (from, to int, newlineAfter bool, ok bool) {
	end := len(s)
	for end > 0 && strings.IndexByte(blanks, s[end-1]) >= 0 {
		end--
	}
	if end == 0 {
		return 0, 0, false, false
	}
	from = end
	for from > 0 && !c15IsNL(s[from-1]) {
		from--
	}
	to = end
	for to < len(s) && !c15IsNL(s[to]) {
		to++
	}
	return from, to, to < len(s), true
}

// lastLineHasUserComment: a `#` outside string literals on the last non-blank
// line of s (the family of the recorded finding). Two readings are united so
// that the predicate errs on the side of the family: the coarse lexer's, and a
// plain left-to-right scan of the line that only knows about quotes.
func lastLineHasUserComment(s string) bool {
	from, to, _, ok := c15LastLine(s)
	if !ok {
		return false
	}
	cls, _ := c15Lex(s)
	for i := from; i < to; i++ {
		if cls[i] == lxLineComment || cls[i] == lxBlockComment {
			return true
		}
	}
	inStr := false
	for i := from; i < to; i++ {
		switch c := s[i]; {
		case inStr && c == '\\':
			i++
		case c == '"':
			inStr = !inStr
		case c == '#' && !inStr:
			return true
		}
	}
	return false
}

// c15Incomplete: S ends inside a `###` block comment that is never closed, so
// text appended to S continues the comment: S is not a complete schema.
func c15Incomplete(s string) bool {
	if !strings.Contains(s, "###") {
		return false
	}
	if _, open := c15Lex(s); open {
		return true
	}
	// quote-agnostic second opinion: an odd number of block delimiters
	return strings.Count(s, "###")%2 == 1
}

// c15LeadsWithValue: after blanks, the text starts with a value (not with an
// annotation or comment). Only used for corpus literals that reference
// unregistered types, where no AST is available.
func c15LeadsWithValue(s string) bool {
	t := strings.TrimLeft(s, blanks)
	return t != "" && t[0] != '/' && t[0] != '#'
}

// ---- library access ---------------------------------------------------------------

var c15Types = []typeDef{
	{Name: "@a", Text: `{"id": 1}`},
	{Name: "@b", Text: `"str"`},
	{Name: "@c", Text: `3`},
}

// c15EnumRules are registered in every schema object of this check (a rule that is not named costs nothing).
var c15EnumRules = []typeDef{{Name: "@eb", Text: `[true, false]`}, {Name: "@ez", Text: `[null]`}, {Name: "@es", Text: `["M", "S", 1]`}}

func c15New(text string, types bool) (*jschema.JSchema, error) {
	s := jschema.New("root", text)
	for _, e := range c15EnumRules {
		if err := s.AddRule(e.Name, enum.New(e.Name, e.Text)); err != nil {
			return nil, err
		}
	}
	if types {
		for _, t := range c15Types {
			if err := s.AddType(t.Name, jschema.New(t.Name, t.Text)); err != nil {
				return nil, err
			}
		}
	}
	return s, nil
}

func c15Len(text string) (n uint, err error, p *mon.Panic) {
	p = mon.Guard(func() { n, err = jschema.New("root", text).Len() })
	return
}

type c15View struct {
	code    int // 0 = accepted, -1 = an error without a code
	errText string
	ast     string
	root    string // TokenType of the AST root
	panic   *mon.Panic
	// Len() asked on the objects that had answered Check() / GetAST() before (accepted texts)
	lenAfterCheck, lenAfterAST uint
	lenAfterErr                string
}

func c15Verdict(text string, types bool) (v c15View) {
	v.panic = mon.Guard(func() {
		s, err := c15New(text, types)
		if err == nil {
			err = s.Check()
		}
		if err != nil {
			ev, _ := viewError(err)
			v.code, v.errText = ev.Code, mon.Trunc(ev.Message, 120)
			if !ev.HasCode || ev.Code == 0 {
				v.code = -1
			}
			return
		}
		var lerr error
		if v.lenAfterCheck, lerr = s.Len(); lerr != nil {
			v.lenAfterErr = "after Check(): " + lerr.Error()
		}
		s2, err := c15New(text, types)
		if err != nil {
			v.code, v.errText = -1, err.Error()
			return
		}
		n, err := s2.GetAST()
		if err != nil {
			ev, _ := viewError(err)
			v.code, v.errText = -2, "GetAST after a successful Check: "+mon.Trunc(ev.Message, 120)
			return
		}
		b, _ := marshalAST(n)
		v.ast, v.root = string(b), string(n.TokenType)
		if v.lenAfterAST, lerr = s2.Len(); lerr != nil {
			v.lenAfterErr = "after GetAST(): " + lerr.Error()
		}
	})
	return
}

// ---- the judgement ----------------------------------------------------------------

type c15Fail struct{ clause, what string }

type c15Info struct {
	usable  bool
	skip    string // why not usable
	L       uint
	carved  string // name of the carve-out applied, if any
	family  bool   // lastLineHasUserComment(S)
	nlAfter bool
}

const c15TypeNotFound = 1302

// c15NoCarve: the family "last line of S carries a # comment" was a recorded
// finding while the defect existed; it is repaired in /repo (see
// known_findings.jsonl, status fixed), so the family is judged like everything
// else. VERIF_C15_CARVE=1 brings the old carve-out back (only useful when
// studying a tree without that repair).
var c15NoCarve = os.Getenv("VERIF_C15_CARVE") == ""

// c15Core evaluates the clauses that involve S alone. pinned switches the
// carve-outs off (pinned witnesses of the recorded finding, replays).
func c15Core(S string, types, pinned bool) (in c15Info, fails []c15Fail) {
	L, lerr, p := c15Len(S)
	if p != nil {
		return in, []c15Fail{{"panic", "Len panicked at " + p.Site + ": " + mon.Trunc(p.Value, 120)}}
	}
	v := c15Verdict(S, types)
	if v.panic != nil {
		return in, []c15Fail{{"panic", "Check/GetAST panicked at " + v.panic.Site + ": " + mon.Trunc(v.panic.Value, 120)}}
	}
	switch {
	case v.code == 0 && v.root == "":
		in.skip = "no_root_value"
		return
	case v.code == 0:
	case v.code == c15TypeNotFound && !types && c15LeadsWithValue(S):
	default:
		in.skip = "rejected"
		return
	}
	if lerr != nil {
		if v.code == 0 {
			return in, []c15Fail{{"prefix-verdict", fmt.Sprintf("Check() accepts the text but Len() fails: %v", mon.Trunc(lerr.Error(), 160))}}
		}
		in.skip = "rejected"
		return
	}
	if v.code == 0 && (v.lenAfterErr != "" || v.lenAfterCheck != L || v.lenAfterAST != L) {
		fails = append(fails, c15Fail{"call-order", fmt.Sprintf("Len() as the first call on the object = %d; on an object that answered Check() before = %d, GetAST() before = %d %s", L, v.lenAfterCheck, v.lenAfterAST, v.lenAfterErr)})
	}
	in.usable, in.L = true, L
	in.family = lastLineHasUserComment(S)
	_, _, in.nlAfter, _ = c15LastLine(S)
	if int(L) > len(S) {
		return in, []c15Fail{{"len-exceeds", fmt.Sprintf("Len=%d but the text has %d bytes", L, len(S))}}
	}
	P := S[:L]
	pv := c15Verdict(P, types)
	if pv.panic != nil {
		return in, []c15Fail{{"panic", "Check/GetAST of the prefix panicked at " + pv.panic.Site + ": " + mon.Trunc(pv.panic.Value, 120)}}
	}
	if pv.code != v.code {
		fails = append(fails, c15Fail{"prefix-verdict", fmt.Sprintf("Len=%d; the whole text has verdict %s, the prefix %q has verdict %s", L, c15CodeStr(v), mon.Trunc(P, 80), c15CodeStr(pv))})
	} else if pv.ast != v.ast {
		fails = append(fails, c15Fail{"prefix-ast", fmt.Sprintf("Len=%d; AST of the whole text %s, AST of the prefix %s", L, c15DiffWindow(v.ast, pv.ast), c15DiffWindow(pv.ast, v.ast))})
	}
	L2, lerr2, p := c15Len(P)
	switch {
	case p != nil:
		fails = append(fails, c15Fail{"panic", "Len of the prefix panicked at " + p.Site + ": " + mon.Trunc(p.Value, 120)})
	case in.family && !pinned && !c15NoCarve:
		// the recorded finding seen from the other side: S includes the comment when a newline follows it, the prefix ends with the comment
		in.carved = "carved_out_last_line_hash_comment_idempotent"
	case lerr2 != nil:
		fails = append(fails, c15Fail{"idempotent", fmt.Sprintf("Len=%d; Len of that prefix fails: %s", L, mon.Trunc(lerr2.Error(), 160))})
	case L2 != L:
		fails = append(fails, c15Fail{"idempotent", fmt.Sprintf("Len(S)=%d but Len(S[:%d])=%d", L, L, L2)})
	}
	return in, fails
}

func c15CodeStr(v c15View) string {
	if v.code == 0 {
		return "accepted"
	}
	return fmt.Sprintf("rejected (code %d: %s)", v.code, v.errText)
}

// c15DiffWindow shows a around the first byte where it differs from b.
func c15DiffWindow(a, b string) string {
	i := 0
	for i < len(a) && i < len(b) && a[i] == b[i] {
		i++
	}
	from := i - 40
	if from < 0 {
		from = 0
	}
	to := i + 60
	if to > len(a) {
		to = len(a)
	}
	return fmt.Sprintf("…%s…", a[from:to])
}

// c15TrailerFail judges one combined text.
func c15TrailerFail(S string, L uint, nl, T string) *c15Fail {
	got, err, p := c15Len(S + nl + T)
	switch {
	case p != nil:
		return &c15Fail{"panic", "Len of the combined text panicked at " + p.Site + ": " + mon.Trunc(p.Value, 120)}
	case err != nil:
		return &c15Fail{"trailer", fmt.Sprintf("Len(S)=%d but Len(S+NL+T) fails: %s", L, mon.Trunc(err.Error(), 160))}
	case got != L:
		return &c15Fail{"trailer", fmt.Sprintf("Len(S)=%d but Len(S+NL+T)=%d (len(S)=%d)", L, got, len(S))}
	}
	return nil
}

// trailer classes
var c15RestKinds = []string{"empty", "word", "brace", "bracket", "comma", "quote", "pipe", "endann", "blanklines", "random"}

func c15Rest(kind int, nl string, random string) string {
	switch c15RestKinds[kind] {
	case "empty":
		return ""
	case "word":
		return "word and more text"
	case "brace":
		return "}"
	case "bracket":
		return "]"
	case "comma":
		return ","
	case "quote":
		return `"`
	case "pipe":
		return " | @b"
	case "endann":
		return " */"
	case "blanklines":
		return nl + " \t" + nl + nl + "  GET /cats // {x: 1}" + nl + "# more"
	default:
		return random
	}
}

var c15FirstBytes = func() []byte {
	var out []byte
	for b := 0; b < 256; b++ {
		if c := byte(b); c != '/' && c != '#' && strings.IndexByte(blanks, c) < 0 {
			out = append(out, c)
		}
	}
	return out
}()

func c15NLName(nl string) string {
	return map[string]string{"\n": "LF", "\r\n": "CRLF", "\r": "CR"}[nl]
}

// c15NLs: the newline convention S itself uses; all three when S has none.
func c15NLs(S string) []string {
	switch {
	case strings.Contains(S, "\r\n"):
		return []string{"\r\n"}
	case strings.Contains(S, "\r"):
		return []string{"\r"}
	case strings.Contains(S, "\n"):
		return []string{"\n"}
	}
	return []string{"\n", "\r\n", "\r"}
}

type c15Case struct {
	S      string `json:"s"`
	Types  bool   `json:"types,omitempty"` // @a, @b, @c registered
	T      []byte `json:"t,omitempty"`     // one trailer (replay of a trailer violation)
	NL     string `json:"nl,omitempty"`
	Pinned bool   `json:"pinned,omitempty"`
	Source string `json:"source,omitempty"`
}

type c15State struct {
	r      *mon.Run
	rng    *rand.Rand
	nGen   int
	random string
}

func c15Key(S string) string {
	if len(S) <= 120 {
		return S
	}
	return mon.Trunc(S, 100) + " #" + mon.Hash(S)
}

// c15Reduce shrinks a failing text: whole lines first, then coarse tokens.
func c15Reduce(S string, stillFails func(string) bool) string {
	if len(S) <= 120 {
		return S
	}
	budget := 600
	try := func(c string) bool {
		if budget <= 0 || c == S || c == "" {
			return false
		}
		budget--
		return stillFails(c)
	}
	for pass := 0; pass < 4 && budget > 0; pass++ {
		before := len(S)
		// lines (chunks of decreasing size)
		lines := strings.SplitAfter(S, "\n")
		for size := len(lines) / 2; size >= 1; size /= 2 {
			for i := 0; i+size <= len(lines); {
				c := strings.Join(lines[:i], "") + strings.Join(lines[i+size:], "")
				if try(c) {
					S = c
					lines = append(lines[:i:i], lines[i+size:]...)
				} else {
					i += size
				}
			}
		}
		toks := gen.SplitTokens(S)
		for size := len(toks) / 2; size >= 1; size /= 2 {
			for i := 0; i+size <= len(toks); {
				c := strings.Join(toks[:i], "") + strings.Join(toks[i+size:], "")
				if try(c) {
					S = c
					toks = append(toks[:i:i], toks[i+size:]...)
				} else {
					i += size
				}
			}
		}
		if len(S) == before || len(S) <= 60 {
			break
		}
	}
	return S
}

func (st *c15State) reportCore(cas c15Case, f c15Fail) {
	S := cas.S
	if f.clause != "panic" && !cas.Pinned {
		red := c15Reduce(S, func(c string) bool {
			in, fs := c15Core(c, cas.Types, false)
			if !in.usable {
				return false
			}
			for _, g := range fs {
				if g.clause == f.clause {
					return true
				}
			}
			return false
		})
		if red != S {
			_, fs := c15Core(red, cas.Types, false)
			for _, g := range fs {
				if g.clause == f.clause {
					f = g
				}
			}
			cas.Source += " (reduced from a " + fmt.Sprint(len(S)) + "-byte text #" + mon.Hash(S) + ")"
			cas.S, S = red, red
		}
	}
	st.r.Violate(f.clause, c15Key(S), fmt.Sprintf("S=%q: %s", mon.Trunc(S, 160), f.what), cas)
}

func (st *c15State) reportTrailer(cas c15Case, L uint, first byte, kind int, f c15Fail) {
	S, T := cas.S, string(cas.T)
	if f.clause == "trailer" && !cas.Pinned && len(S) > 120 {
		red := c15Reduce(S, func(c string) bool {
			in, fs := c15Core(c, cas.Types, false)
			if !in.usable || len(fs) > 0 || c15Incomplete(c) || in.family {
				return false
			}
			g := c15TrailerFail(c, in.L, cas.NL, T)
			return g != nil && g.clause == "trailer"
		})
		if red != S {
			in, _ := c15Core(red, cas.Types, false)
			if g := c15TrailerFail(red, in.L, cas.NL, T); g != nil {
				f = *g
			}
			cas.Source += " (reduced from a " + fmt.Sprint(len(S)) + "-byte text #" + mon.Hash(S) + ")"
			cas.S, S = red, red
		}
	}
	key := fmt.Sprintf("S=%s T=0x%02X+%s NL=%s", c15Key(S), first, c15RestKinds[kind], c15NLName(cas.NL))
	if lead := len(T) - len(strings.TrimLeft(T, blanks)); lead > 0 {
		key += fmt.Sprintf(" lead=%q", T[:lead])
	}
	if cas.Pinned {
		key = S
	}
	st.r.Violate(f.clause, key, fmt.Sprintf("S=%q NL=%s T=%q: %s", mon.Trunc(S, 160), c15NLName(cas.NL), mon.Trunc(T, 40), f.what), cas)
}

// schema judges one S: the S-only clauses, then the trailers. full = the whole
// product first byte x rest kind; otherwise every first byte with a rotating
// rest kind plus every rest kind with three first bytes.
func (st *c15State) schema(S string, types bool, source string, full, pinned bool) {
	r := st.r
	cas := c15Case{S: S, Types: types, Source: source, Pinned: pinned}
	in, fails := c15Core(S, types, pinned)
	r.Eval(1)
	if !in.usable && len(fails) == 0 {
		r.Count("skipped:"+in.skip, 1)
		return
	}
	r.Count("schemas_judged:"+source, 1)
	r.Nontrivial("s", S)
	if in.carved != "" {
		r.Count(in.carved, 1)
	}
	for _, f := range fails {
		st.reportCore(cas, f)
	}
	if !in.usable || len(fails) > 0 {
		return
	}
	if c15Incomplete(S) {
		r.Count("trailer_skipped_open_block_comment", 1)
		return
	}
	if in.family && !pinned && !c15NoCarve {
		r.Count("carved_out_last_line_hash_comment", 1)
		return
	}
	st.nGen++
	evals := 0
	reported := 0
	one := func(nl string, first byte, kind int, lead string) {
		T := lead + string(first) + c15Rest(kind, nl, st.random)
		evals++
		if f := c15TrailerFail(S, in.L, nl, T); f != nil && reported < 3 {
			reported++
			tc := cas
			tc.T, tc.NL = []byte(T), nl
			st.reportTrailer(tc, in.L, first, kind, *f)
		}
	}
	nk := len(c15RestKinds)
	for ni, nl := range c15NLs(S) {
		// blanks before the first significant byte of the trailer
		leads := []string{" ", "\t", "  \t ", nl, nl + " " + nl + "  "}
		if full {
			for bi, b := range c15FirstBytes {
				for k := 0; k < nk; k++ {
					one(nl, b, k, "")
				}
				one(nl, b, bi%nk, leads[bi%len(leads)])
			}
		} else {
			for bi, b := range c15FirstBytes {
				lead := ""
				if (st.nGen+bi)%4 == 0 {
					lead = leads[(st.nGen+bi/4)%len(leads)]
				}
				one(nl, b, (st.nGen+bi+ni)%nk, lead)
			}
			for k := 0; k < nk; k++ {
				for j := 0; j < 3; j++ {
					one(nl, c15FirstBytes[st.rng.IntN(len(c15FirstBytes))], k, "")
				}
			}
		}
		r.Nontrivial("t", S, nl)
	}
	r.Eval(evals)
	r.Count("trailer_comparisons", int64(evals))
}

func (st *c15State) newRandom() {
	b := make([]byte, 1024)
	for i := range b {
		b[i] = byte(st.rng.IntN(256))
	}
	// a few structured islands inside the noise
	for _, isl := range []string{"\n{\n", "*/", "###", "// {", "\"", "\r\n}", "@a | @b"} {
		copy(b[st.rng.IntN(1000):], isl)
	}
	st.random = string(b)
}

// ---- generator --------------------------------------------------------------------

type c15Gen struct {
	rng    *rand.Rand
	sb     strings.Builder
	needNL bool // an inline annotation or `#` comment is open: the next token goes on a new line
	pretty bool
	indent int
	hash   int // per-mille probability of user comments
	refs   bool
	tabs   bool
}

var c15KeyAtoms = []string{"a", "k", "id", "name", "Z", "0", " ", "/", "//", "#", "*/", "/*", `\"`, `\\`, `\/`, `\n`, `\t`, `A`, "é", "😀", "@a", "{", "}", "[", "]", ":", ",", "-", "|", "'", "x y"}

var c15NoteWords = []string{"note", "Description", "a b c", "it's", `"quoted"`, `say "hi`, "{braces}", "- dash", "@a", "* star", "a/b", "http://x.y/z", "é", `\`, "|", ",", "]", "}", "[", "{", "100%", "key: value", "// again", "/* open", "x*y", "1", "true", "null", "@a | @b",
	"déjà", "Å", "ух", "Р", "ok 😅", "nbsp\u00a0", "nel\u0085", "ls\u2028", "tab\there", "vt\v", "ff\f", "nul\x00", "é́", "日本"}

var c15Rules = map[byte][]string{
	'i': {`min: 0`, `max: 1000000`, `type: "integer"`, `min: 0, max: 999999`, `nullable: true`, `or: [{type: "integer"}, {type: "string"}]`, `const: true`, `min: 0, exclusiveMinimum: false`, `type: "any"`, `or: ["integer", "string"]`},
	'n': {`max: 0`, `type: "integer"`, `nullable: true`, `max: 0, min: -1000`},
	'f': {`precision: 5`, `type: "float"`, `min: 0`, `nullable: true`, `type: "decimal", precision: 4`, `const: false`},
	's': {`minLength: 0`, `maxLength: 1000`, `type: "string"`, `nullable: true`, `minLength: 0, maxLength: 999`, `or: [{type: "string"}, {type: "integer"}]`, `const: true`, `type: "any"`,
		// comment and annotation markers inside rule strings
		`regex: ".*/*"`, `regex: "(#|//|.)*"`, `or: [{type: "string", regex: ".*/*#?"}, "integer"]`, `regex: "^.*/?$", minLength: 0`},
	'b': {`type: "boolean"`, `nullable: true`, `const: true`, `enum: @eb`, `nullable: false, enum: @eb`},
	'z': {`type: "null"`, `type: "any"`, `nullable: true`, `enum: @ez`},
	'o': {`additionalProperties: true`, `nullable: true`, `type: "object"`, `additionalProperties: "string"`, `additionalProperties: false, nullable: false`},
	'a': {`minItems: 0`, `maxItems: 100`, `type: "array"`, `minItems: 0, maxItems: 50`, `nullable: true`},
	'r': {`nullable: true`},
	'm': {`type: "mixed"`, `nullable: true`},
}

func (g *c15Gen) ws() string {
	if g.tabs {
		return "\t"
	}
	return "  "
}

func (g *c15Gen) comment() string {
	return "#" + []string{"", " c", " comment text", "c", " \"q", " // x", " { [", " @a", " /* x */", " é"}[g.rng.IntN(10)]
}

func (g *c15Gen) nl() {
	if g.rng.IntN(1000) < g.hash {
		g.sb.WriteString(" " + g.comment())
	}
	g.sb.WriteByte('\n')
	for g.rng.IntN(12) == 0 {
		switch g.rng.IntN(4) {
		case 0:
			g.sb.WriteString("\n")
		case 1:
			g.sb.WriteString(strings.Repeat(g.ws(), g.rng.IntN(3)) + "\n")
		case 2:
			if g.hash > 0 {
				g.sb.WriteString(strings.Repeat(g.ws(), g.indent) + g.comment() + "\n")
			}
		default:
			if g.hash > 0 {
				g.sb.WriteString("###\n block comment \" { // x\n # y\n###\n")
			}
		}
	}
	g.sb.WriteString(strings.Repeat(g.ws(), g.indent))
	g.needNL = false
}

func (g *c15Gen) tok(s string) {
	if g.needNL {
		g.nl()
	}
	g.sb.WriteString(s)
}

func (g *c15Gen) sp() {
	if g.needNL {
		return
	}
	switch g.rng.IntN(6) {
	case 0:
	case 1:
		g.sb.WriteString("  ")
	case 2:
		g.sb.WriteString("\t")
	default:
		g.sb.WriteString(" ")
	}
}

// brk separates members: a new line in pretty layout.
func (g *c15Gen) brk() {
	if g.pretty || g.needNL {
		g.nl()
	} else if g.rng.IntN(2) == 0 {
		g.sb.WriteString(" ")
	}
}

func (g *c15Gen) str(atoms []string, max int) string {
	var sb strings.Builder
	sb.WriteByte('"')
	for n := g.rng.IntN(max + 1); n > 0; n-- {
		sb.WriteString(atoms[g.rng.IntN(len(atoms))])
	}
	sb.WriteByte('"')
	return sb.String()
}

// dashNote: what follows the rules of an annotation - usually " - note", one time in eight a dash with nothing
// (or only blanks) behind it.
func (g *c15Gen) dashNote(multi bool) string {
	if g.rng.IntN(8) == 0 {
		return []string{" -", " - ", "-", " -\t", " -  "}[g.rng.IntN(5)]
	}
	return " - " + g.note(multi)
}

func (g *c15Gen) note(multi bool) string {
	var parts []string
	for n := 1 + g.rng.IntN(3); n > 0; n-- {
		w := c15NoteWords[g.rng.IntN(len(c15NoteWords))]
		if multi && strings.Contains(w, "*/") {
			continue
		}
		parts = append(parts, w)
	}
	s := strings.Join(parts, " ")
	if s == "" || s[0] == '{' || s[0] == '#' {
		s = "n " + s
	}
	if !multi && g.rng.IntN(1000) < g.hash {
		s += " " + g.comment()
	}
	return s
}

func (g *c15Gen) ruleObject(kind byte, member, multi bool) string {
	rs := c15Rules[kind]
	body := rs[g.rng.IntN(len(rs))]
	if member && g.rng.IntN(3) == 0 {
		if g.rng.IntN(2) == 0 {
			body = "optional: true, " + body
		} else {
			body = "optional: true"
		}
	}
	switch g.rng.IntN(6) {
	case 0:
		body = strings.ReplaceAll(body, ": ", ":")
	case 1:
		body = strings.ReplaceAll(body, ": ", " : ")
	case 2:
		// quoted keys
		for _, k := range []string{"min", "max", "type", "nullable", "optional", "minLength", "maxLength", "minItems", "maxItems", "precision", "const", "additionalProperties", "or"} {
			body = strings.ReplaceAll(body, k+": ", `"`+k+`": `)
		}
		body = strings.ReplaceAll(body, `""`, `"`)
	}
	if multi && g.rng.IntN(2) == 0 {
		ind := strings.Repeat(g.ws(), g.indent+1)
		body = strings.ReplaceAll(body, ", ", ",\n"+ind)
		if g.rng.IntN(2) == 0 {
			return "{\n" + ind + body + "\n" + strings.Repeat(g.ws(), g.indent) + "}"
		}
	}
	switch g.rng.IntN(4) {
	case 0:
		return "{ " + body + " }"
	case 1:
		if !strings.Contains(body, "\n") {
			return "{" + body + ",}"
		}
	}
	return "{" + body + "}"
}

// annot maybe writes an annotation (and/or a user comment) for a value of the given kind.
func (g *c15Gen) annot(kind byte, member bool, pNone int) {
	k := g.rng.IntN(100)
	if k < pNone {
		return
	}
	rk := kind
	if _, ok := c15Rules[rk]; !ok {
		rk = 'i'
	}
	gap := []string{" ", "", "  ", "\t"}[g.rng.IntN(4)]
	switch f := g.rng.IntN(12); {
	case f < 3:
		g.tok(gap + "// " + g.ruleObject(rk, member, false))
		g.needNL = true
	case f < 5:
		g.tok(gap + "// " + g.note(false))
		g.needNL = true
	case f < 7:
		g.tok(gap + "// " + g.ruleObject(rk, member, false) + g.dashNote(false))
		g.needNL = true
	case f == 7:
		g.tok(gap + "//" + g.ruleObject(rk, member, false) + []string{"", " ", "  \t"}[g.rng.IntN(3)])
		if g.rng.IntN(1000) < g.hash {
			g.sb.WriteString(g.comment())
		}
		g.needNL = true
	case f == 8:
		g.tok(gap + "/* " + g.ruleObject(rk, member, true) + " */")
	case f == 9:
		n := g.note(true)
		if g.rng.IntN(2) == 0 {
			n = strings.ReplaceAll(n, " ", "\n"+strings.Repeat(g.ws(), g.indent+1))
		}
		g.tok(gap + "/* " + n + " */")
	case f == 10:
		sep := []string{" - ", "\n - ", " -", "\n\n-\n"}[g.rng.IntN(4)]
		n := g.note(true)
		if g.rng.IntN(3) == 0 {
			n += "\n" + g.note(true) + "\n"
		}
		g.tok(gap + "/*" + []string{" ", "\n", ""}[g.rng.IntN(3)] + g.ruleObject(rk, member, true) + sep + n + "*/")
	default:
		if g.hash > 0 {
			g.tok(gap + g.comment())
			g.needNL = true
		}
	}
}

func (g *c15Gen) scalar() (string, byte) {
	switch k := g.rng.IntN(20); {
	case k < 5:
		return fmt.Sprint(g.rng.IntN(1000)), 'i'
	case k < 6:
		return "-" + fmt.Sprint(1+g.rng.IntN(99)), 'n'
	case k < 9:
		return fmt.Sprintf("%d.%d", g.rng.IntN(100), 1+g.rng.IntN(98)), 'f'
	case k < 15:
		return g.str(c15KeyAtoms, 4), 's'
	case k < 16:
		return "true", 'b'
	case k < 17:
		return "false", 'b'
	case k < 18:
		return "null", 'z'
	default:
		return `""`, 's'
	}
}

func (g *c15Gen) ref() (string, byte) {
	g.refs = true
	switch g.rng.IntN(6) {
	case 0:
		return "@a | @b", 'm'
	case 1:
		return "@b|@c", 'm'
	case 2:
		return "@a  |\t@b | @c", 'm'
	case 3:
		return "@b", 'r'
	case 4:
		return "@c", 'r'
	}
	return "@a", 'r'
}

// value writes a value; for scalars, references and empty containers it
// returns the kind so that the caller can annotate after the comma.
func (g *c15Gen) value(depth int) (kind byte, annotateAfter bool) {
	k := g.rng.IntN(100)
	if depth <= 0 && k < 40 {
		k = 40 + g.rng.IntN(60)
	}
	switch {
	case k < 24:
		return 'o', g.object(depth)
	case k < 40:
		return 'a', g.array(depth)
	case k < 88:
		s, kd := g.scalar()
		g.tok(s)
		return kd, true
	default:
		s, kd := g.ref()
		g.tok(s)
		return kd, true
	}
}

func (g *c15Gen) object(depth int) (empty bool) {
	n := g.rng.IntN(5)
	if n == 0 {
		g.tok([]string{"{}", "{ }", "{\n}"}[g.rng.IntN(3)])
		return true
	}
	g.tok("{")
	g.annot('o', false, 70)
	g.indent++
	seen := map[string]bool{}
	for i := 0; i < n; i++ {
		g.brk()
		key := g.str(c15KeyAtoms, 3)
		if g.rng.IntN(30) == 0 && !seen["@b"] {
			key = "@b"
			g.refs = true
		}
		for seen[key] {
			key = key[:len(key)-1] + fmt.Sprint(i) + `"`
		}
		seen[key] = true
		g.tok(key)
		g.sp()
		g.tok(":")
		g.sp()
		kind, after := g.value(depth - 1)
		if i < n-1 {
			if g.rng.IntN(8) == 0 {
				g.sp()
			}
			g.tok(",")
		}
		if after {
			g.annot(kind, true, 45)
		} else if g.hash > 0 && g.rng.IntN(10) == 0 {
			g.tok(" " + g.comment())
			g.needNL = true
		}
	}
	g.indent--
	g.brk()
	g.tok("}")
	return false
}

func (g *c15Gen) array(depth int) (empty bool) {
	n := g.rng.IntN(4)
	if n == 0 {
		g.tok([]string{"[]", "[ ]", "[\n]"}[g.rng.IntN(3)])
		return true
	}
	g.tok("[")
	g.annot('a', false, 70)
	g.indent++
	for i := 0; i < n; i++ {
		g.brk()
		kind, after := g.value(depth - 1)
		if i < n-1 {
			g.tok(",")
		}
		if after {
			g.annot(kind, false, 50)
		}
	}
	g.indent--
	g.brk()
	g.tok("]")
	return false
}

// c15GenSchema makes one schema text; root kinds are spread by the selector.
func c15GenSchema(rng *rand.Rand, sel int) (text string, usesRefs bool, rootKind string) {
	g := &c15Gen{rng: rng, pretty: rng.IntN(4) != 0, tabs: rng.IntN(2) == 0}
	if rng.IntN(3) == 0 {
		g.hash = []int{30, 100, 300}[rng.IntN(3)]
	}
	// leading part
	switch rng.IntN(8) {
	case 0:
		g.sb.WriteString("\n")
	case 1:
		g.sb.WriteString("\n\n  \n")
	case 2:
		g.sb.WriteString("  \t")
	case 3:
		if g.hash > 0 {
			g.sb.WriteString(g.comment() + "\n")
		}
	}
	depth := 1 + rng.IntN(3)
	switch sel % 10 {
	case 0:
		rootKind = "object"
		if g.object(depth) {
			g.annot('o', false, 40)
		}
	case 1:
		rootKind = "array"
		if g.array(depth) {
			g.annot('a', false, 40)
		}
	case 2:
		rootKind = "scalar"
		s, _ := g.scalar()
		g.tok(s)
	case 3, 4:
		rootKind = "scalar+inline"
		s, k := g.scalar()
		g.tok(s)
		gap := []string{" ", "", "\t"}[rng.IntN(3)]
		switch rng.IntN(4) {
		case 0:
			g.tok(gap + "// " + g.ruleObject(k, false, false))
		case 1:
			g.tok(gap + "// " + g.note(false))
		case 2:
			g.tok(gap + "// " + g.ruleObject(k, false, false) + g.dashNote(false))
		default:
			g.tok(gap + "//" + g.ruleObject(k, false, false) + "-" + g.note(false))
		}
		g.needNL = true
	case 5:
		rootKind = "scalar+multiline"
		s, k := g.scalar()
		g.tok(s)
		for g.needNL = false; ; {
			before := g.sb.Len()
			g.annot(k, false, 0)
			if g.sb.Len() > before && !g.needNL {
				break
			}
			// an inline form or comment was drawn: take it back
			t := g.sb.String()[:before]
			g.sb.Reset()
			g.sb.WriteString(t)
			g.needNL = false
		}
	case 6:
		rootKind = "reference"
		s, _ := g.ref()
		for strings.Contains(s, "|") {
			s, _ = g.ref()
		}
		g.tok(s)
	case 7:
		rootKind = "reference-or"
		s, _ := g.ref()
		for !strings.Contains(s, "|") {
			s, _ = g.ref()
		}
		g.tok(s)
	case 8:
		rootKind = "reference+annotation"
		s, k := g.ref()
		g.tok(s)
		g.annot(k, false, 0)
	default:
		rootKind = "nested"
		g.pretty = true
		if rng.IntN(2) == 0 {
			g.object(3 + rng.IntN(2))
		} else {
			g.array(3 + rng.IntN(2))
		}
	}
	g.needNL = false
	// trailing part
	switch rng.IntN(10) {
	case 0:
		g.sb.WriteString("\n")
	case 1:
		g.sb.WriteString(" ")
	case 2:
		g.sb.WriteString("  \t \n\n \n")
	case 3:
		g.sb.WriteString("\t")
	case 4:
		g.sb.WriteString("\n\n")
	case 5:
		if g.hash > 0 {
			g.sb.WriteString(" " + g.comment() + []string{"", "\n", "\n\n", "  "}[rng.IntN(4)])
		}
	case 6:
		if g.hash > 0 {
			g.sb.WriteString("\n" + g.comment() + "\n")
		}
	case 7:
		// a block comment behind the value: on its line or below it, closed on the last bytes, before blanks, or
		// before a line break
		if g.hash > 0 {
			block := []string{"### c ###", "###\n c \" { // x\n # y\n###", "######", "### # ###"}[rng.IntN(4)]
			g.sb.WriteString([]string{" ", "\n", "  \n\n", ""}[rng.IntN(4)] + block + []string{"", " ", "\n", "\n\n", " \t"}[rng.IntN(5)])
		}
	}
	text = g.sb.String()
	switch rng.IntN(7) {
	case 0:
		text = strings.ReplaceAll(text, "\n", "\r\n")
	case 1:
		text = strings.ReplaceAll(text, "\n", "\r")
	}
	return text, g.refs, rootKind
}

// ---- pinned texts -----------------------------------------------------------------

// witnesses of the recorded finding (reported by exact key)
var c15PinnedTrailer = []string{
	`"#" // {regex: "#"} - annotation # comment`,
	`{} # c`,
	"{\n  \"a\": 1\n}\n# end",
	"{} #\n", // an empty comment swallows its line break: the comment ends with the next line
}

var c15PinnedIdempotent = []string{
	"{} # c\n",
}

// schemas written out by hand: the texts TestSchema_Len pins (cut where the
// foreign text starts), every root kind, and separators inside strings.
var c15Seeds = []string{
	"\n{\n\t\"key\": 123 // {min: 1}\n}",
	`@pig // {or: ["@dog", "@pig"]}`,
	`@pig`,
	"42 /*\n\t{nullable: true}\n*/",
	"[]  // {minItems: 0} - Description",
	"[]  // {minItems: 0} - Description ",
	"[]  // {minItems: 0} - Description  ",
	"[\n\t{} // {type: @json}\n]",
	"[\n\t{} // {type: \"@a\"}\n]",
	`"userType2"`,
	`12 // {type: "@catId", optional: true, nullable: true}`,
	`"#" // {regex: "#"} - annotation`,
	`"#"`, `"//"`, `"/* */"`, `"*/"`, `"\""`, `"\\"`, `"a\\"`, `"# not a comment"`, `{"#": "#"}`, `{"//": "/*", "*/": "#"}`, `["#", "//"]`,
	`1`, `-1`, `0`, `1.5`, `true`, `false`, `null`, `""`, `{}`, `[]`, `[[]]`, `{"a":{}}`, `@a`, `@a | @b`, `@a|@b`, `@a // {nullable: true}`, `@a | @b // note`,
	`1 // note`, `1 // {min: 0}`, `1 // {min: 0} - note`, `1 //{min: 0}-note`, `1 /* note */`, `1 /* {min: 0} */`, "1 /* {min: 0}\n - note */", "1 /*\n{min: 0}\n*/", "1 /* {min: 0} - a\nb\nc */",
	`"M" // {enum: @es} - size of the shirt`, "{\n  \"k\": \"M\" // {enum: @es} - note\n}", "[\n  1, // {enum: @es} - n\n  \"S\" /* {enum: @es} - m */\n]", `1 // {optional: false, enum: @es}-n`, `"S" // {enum: @es}`,
	`"ab" /* {regex: "^a*/?b$"} */`, `"*/" /* {enum: ["*/", "x"]} */`, "42 /* {enum: [\n1, // one */ or so\n42 // two\n]} */", "{\n  \"k\": \"a\" /* {regex: \"a*/*\"} */\n}", `"x" /* {or: [{type: "string", regex: "x*/"}, "integer"]} - n */`, `"//" /* {enum: ["//", "#", "/*"]} */`,
	"{}\n/* note */", "{} /* note */", "[] /* {minItems: 0} */", "1\n", "1 ", "1\t", "1\n\n", " 1", "\n1", "\n\n  1  \n\n", "1 // note ", "1 // note\n", "1 /* n */ ", "1 /* n */\n\n",
	"{\n  \"a\": 1, // {min: 0}\n  \"b\": \"s\" // note\n}", "{ // {nullable: true}\n  \"a\": 1\n}", "[ // {minItems: 1}\n  1, // {min: 0}\n  \"s\" // note\n]",
	"{\n  \"a\": 1, # c\n  \"b\": 2\n}", "{\n  # c\n  \"a\": 1\n}", "{\n###\n block\n###\n  \"a\": 1\n}", "# leading\n1", "###\nleading\n###\n1",
	"{\"a\": @a, \"b\": @a | @b, @b: 1}", "[@a, @b | @c]", "1 // {or: [{type: \"integer\"}, {type: \"string\"}]}", "1 // {enum: [1, 2, 3]}", "\"a\" // {enum: [\"a\", \"#\", \"//\"]}",
}

// ---- run --------------------------------------------------------------------------

func c15Run(r *mon.Run) {
	st := &c15State{r: r, rng: r.Rand("c15")}
	st.newRandom()
	// (0) pinned witnesses of the recorded finding, reported by exact key
	if r.Shard == 0 {
		for _, S := range c15PinnedTrailer {
			st.pinnedTrailer(S)
		}
		for _, S := range c15PinnedIdempotent {
			st.pinnedIdempotent(S)
		}
	}
	// (1) hand-written seeds and accepted corpus literals: full trailer product
	idx := 0
	for _, S := range c15Seeds {
		if r.Mine(idx) {
			st.schema(S, false, "seed", true, false)
			st.schema(S, true, "seed+types", true, false)
		}
		idx++
	}
	corpus := gen.Corpus(r.Repo)
	r.CountMax("max:corpus_literals", int64(len(corpus)))
	for _, lit := range corpus {
		if r.Mine(idx) {
			st.schema(lit, false, "corpus", true, false)
			// the same literal under the other newline conventions and with trailing blanks (reduced trailer set)
			if strings.Contains(lit, "\n") && !strings.Contains(lit, "\r") {
				st.schema(strings.ReplaceAll(lit, "\n", "\r\n"), false, "corpus-crlf", false, false)
				st.schema(strings.ReplaceAll(lit, "\n", "\r"), false, "corpus-cr", false, false)
			}
			st.schema(lit+" \t\n\n", false, "corpus+blanks", false, false)
		}
		idx++
	}
	// (2) generated schemas
	n := r.Share(r.Pick(20_000, 500_000))
	for i := 0; i < n; i++ {
		if i%64 == 0 {
			st.newRandom()
		}
		S, refs, kind := c15GenSchema(st.rng, i)
		before := st.nGen
		st.schema(S, refs, "generated:"+kind, false, false)
		if st.nGen > before && i%2000 < 10 && len(S) < 300 {
			r.Sample(map[string]any{"kind": "generated schema (" + kind + ")", "text": S})
		}
	}
}

func (st *c15State) pinnedTrailer(S string) {
	r := st.r
	in, fails := c15Core(S, false, true)
	r.Eval(1)
	cas := c15Case{S: S, Pinned: true, Source: "pinned witness"}
	if !in.usable {
		r.Note(fmt.Sprintf("pinned witness %q is no longer usable (%s)", S, in.skip))
		return
	}
	for _, f := range fails {
		st.reportCore(cas, f)
	}
	for _, nl := range c15NLs(S) {
		T := "x"
		if f := c15TrailerFail(S, in.L, nl, T); f != nil {
			tc := cas
			tc.T, tc.NL = []byte(T), nl
			st.reportTrailer(tc, in.L, 'x', 0, *f)
			return
		}
	}
	r.Count("pinned_witness_holds_now", 1)
}

func (st *c15State) pinnedIdempotent(S string) {
	r := st.r
	in, fails := c15Core(S, false, true)
	r.Eval(1)
	if !in.usable {
		r.Note(fmt.Sprintf("pinned witness %q is no longer usable (%s)", S, in.skip))
		return
	}
	if len(fails) == 0 {
		r.Count("pinned_witness_holds_now", 1)
	}
	for _, f := range fails {
		st.reportCore(c15Case{S: S, Pinned: true, Source: "pinned witness"}, f)
	}
}

func c15Replay(r *mon.Run, raw stdjson.RawMessage) {
	var c c15Case
	if err := stdjson.Unmarshal(raw, &c); err != nil {
		fmt.Println("cannot decode the recorded case")
		return
	}
	st := &c15State{r: r, rng: r.Rand("c15")}
	st.newRandom()
	if len(c.T) == 0 {
		if c.Pinned {
			st.pinnedIdempotent(c.S)
			return
		}
		st.schema(c.S, c.Types, "replay", true, false)
		return
	}
	in, fails := c15Core(c.S, c.Types, true)
	r.Eval(1)
	for _, f := range fails {
		st.reportCore(c, f)
	}
	if !in.usable {
		fmt.Println("replay: S is not usable any more:", in.skip)
		return
	}
	if f := c15TrailerFail(c.S, in.L, c.NL, string(c.T)); f != nil {
		sig := strings.TrimLeft(string(c.T), blanks)
		if sig == "" {
			sig = "\x00"
		}
		kind := 0
		for k := range c15RestKinds {
			if sig[1:] == c15Rest(k, c.NL, "\x00") {
				kind = k
			}
		}
		if len(sig) > 512 {
			kind = len(c15RestKinds) - 1
		}
		st.reportTrailer(c, in.L, sig[0], kind, *f)
	}
}

func init() {
	register(&mon.CheckDef{
		ID:                 "C15",
		Run:                c15Run,
		Replay:             c15Replay,
		Rule:               "metamorphic, no predicted lengths: for every text S that Check() accepts (corpus literals that only lack registered types, code 1302, are used too) and whose AST has a root value: Len(S) <= len(S); P = S[:Len(S)] has the same verdict (error code) and the same json.Marshal(GetAST()); Len(P) == Len(S); and, when S does not end inside an unclosed ### block comment, Len(S+NL+T) == Len(S) for trailers T = first byte x rest. S: 76 hand-written texts (each without and with @a/@b/@c registered) (the TestSchema_Len cases cut at the foreign text, every root kind, separators inside strings), every accepted string literal of the repository's tests (also re-spelled with CRLF / CR and with trailing blanks), 20k (quick) / 500k (thorough) generated schemas (root kinds: object, array, bare scalar, scalar with inline annotation {rules} / note / {rules} - note, scalar with /* */ annotation possibly spanning lines, @a, @a | @b, annotated reference, nested containers with annotations and # / ### comments on inner lines; leading blank/comment lines, trailing blanks/newlines, a # or ### comment behind the value (closed on the last bytes, before blanks or before a line break); keys and strings containing / // # */ /* quotes and escapes; LF, CRLF or CR). T: optional leading blanks / blank lines, then every first byte 0x00-0xFF except / # space tab CR LF, rest in {empty, words, }, ], comma, quote, ' | @b', ' */', blank lines + text, 1 KiB random bytes with structured islands}; NL = the newline convention S uses (all of LF, CRLF, CR when S has no newline). Seeds and corpus literals get the full product first byte x rest; generated schemas get every first byte (rest kind rotating) plus every rest kind with 3 random first bytes. distinct_nontrivial = distinct judged S plus distinct (S, NL) trailer batches (hashed).",
		MinNontrivialQuick: 15000, MinNontrivialThorough: 300000,
		Assumptions: []string{
			"'does not start with / or #' is read on the first non-blank byte of the trailer: trailers whose first non-blank byte is / or # are never generated (not judged); a quarter of the trailers start with blanks or blank lines before the first significant byte",
			"S ending inside an unclosed ### block comment is not complete (the trailer would continue the comment): trailer clause skipped",
			"texts whose last non-blank line carries a # comment were a recorded finding family (now repaired in /repo): they are judged like all others, and five former witnesses are evaluated explicitly on every run; VERIF_C15_CARVE=1 restores the old carve-out for trees without the repair",
			"texts without a root value (blank-only, comment-only, annotation-only) are not judged",
			"generated references are judged with @a (object), @b (string), @c (integer) registered; corpus literals without registered types",
		},
		Exhaustive: "every first trailer byte (250 values) for every judged S; the full product first byte x 10 rest kinds x newline conventions for seeds and corpus literals",
	})
}
