package props

import (
	"bufio"
	stdjson "encoding/json"
	"fmt"
	"io"
	"math/rand/v2"
	"os"
	"os/exec"
	"path/filepath"
	"regexp"
	"strings"

	schema "github.com/jsightapi/jsight-schema-core"
	"github.com/jsightapi/jsight-schema-core/notations/jschema"
	"github.com/jsightapi/jsight-schema-core/openapi"

	"verifharness/internal/gen"
	"verifharness/internal/mon"
)

// ---- the validator service ----------------------------------------------------------

type valService struct {
	cmd *exec.Cmd
	in  io.WriteCloser
	out *bufio.Reader
	seq int
}

type valRequest struct {
	ID         int               `json:"id"`
	Schema     string            `json:"schema"`
	Components map[string]string `json:"components"`
	Instances  []string          `json:"instances"`
}

type valResult struct {
	Valid   bool   `json:"valid"`
	Error   string `json:"error"`
	Skipped bool   `json:"skipped"`
}

type valResponse struct {
	ID           *int        `json:"id"`
	Wellformed   bool        `json:"wellformed"`
	WfError      string      `json:"wf_error"`
	Results      []valResult `json:"results"`
	ServiceError string      `json:"service_error"`
}

func startValidator(root string) (*valService, error) {
	py := "python3-vt"
	if _, err := exec.LookPath(py); err != nil {
		py = "/opt/veriftools/pyvenv/bin/python3"
	}
	cmd := exec.Command(py, filepath.Join(root, "pyval", "oas_validate.py"))
	in, err := cmd.StdinPipe()
	if err != nil {
		return nil, err
	}
	out, err := cmd.StdoutPipe()
	if err != nil {
		return nil, err
	}
	cmd.Stderr = os.Stderr
	if err := cmd.Start(); err != nil {
		return nil, err
	}
	v := &valService{cmd: cmd, in: in, out: bufio.NewReaderSize(out, 1<<20)}
	// handshake
	resp, err := v.ask(valRequest{Schema: `{"type":"integer"}`, Instances: []string{"1", `"x"`}})
	if err != nil || len(resp.Results) != 2 || !resp.Results[0].Valid || resp.Results[1].Valid {
		return nil, fmt.Errorf("validator handshake failed: %v %+v", err, resp)
	}
	return v, nil
}

func (v *valService) ask(req valRequest) (valResponse, error) {
	v.seq++
	req.ID = v.seq
	if req.Components == nil {
		req.Components = map[string]string{}
	}
	if req.Instances == nil {
		req.Instances = []string{}
	}
	b, _ := stdjson.Marshal(req)
	if _, err := v.in.Write(append(b, '\n')); err != nil {
		return valResponse{}, err
	}
	line, err := v.out.ReadBytes('\n')
	if err != nil {
		return valResponse{}, err
	}
	var resp valResponse
	if err := stdjson.Unmarshal(line, &resp); err != nil {
		return resp, err
	}
	if resp.ServiceError != "" {
		return resp, fmt.Errorf("validator: %s", resp.ServiceError)
	}
	return resp, nil
}

func (v *valService) stop() {
	v.in.Close()
	v.cmd.Wait()
}

// ---- conversion of a project ------------------------------------------------------------

type converted struct {
	Example    string
	Root       string
	Components map[string]string
}

// convert builds the project and returns example + OpenAPI texts. accepted=false when Check() fails.
func convert(pt project) (c converted, accepted bool, hasRoot bool, clause, what string) {
	var s *jschema.JSchema
	var err error
	if p := mon.Guard(func() {
		s, err = pt.build()
		if err == nil {
			err = s.Check()
		}
	}); p != nil {
		return c, false, false, "panic", "Check() panicked: " + p.Value
	}
	if err != nil {
		return c, false, false, "", ""
	}
	accepted = true
	ast, _ := s.GetAST()
	if ast.TokenType == "" {
		return c, true, false, "", "" // annotation-only schema: outside the statement
	}
	hasRoot = true
	var ex []byte
	if p := mon.Guard(func() { ex, err = s.Example() }); p != nil {
		return c, true, true, "example-error", "Example() panicked: " + p.Value
	}
	if err != nil {
		return c, true, true, "example-error", "Example() of an accepted schema failed: " + mon.Trunc(err.Error(), 200)
	}
	if !stdjson.Valid(ex) {
		return c, true, true, "example-not-json", "Example() is not RFC 8259 JSON: " + mon.Trunc(string(ex), 200)
	}
	c.Example = string(ex)
	conv := func(name string, sc schema.Schema) (string, string) {
		var b []byte
		var cerr error
		if p := mon.Guard(func() { b, cerr = openapi.NewSchemaObject(sc).MarshalJSON() }); p != nil {
			return "", fmt.Sprintf("OpenAPI conversion of %s panicked: %s", name, p.Value)
		}
		if cerr != nil {
			return "", fmt.Sprintf("OpenAPI conversion of %s failed: %s", name, mon.Trunc(cerr.Error(), 200))
		}
		if !stdjson.Valid(b) {
			return "", fmt.Sprintf("OpenAPI conversion of %s is not JSON: %s", name, mon.Trunc(string(b), 200))
		}
		first := string(b)
		// the same schema object is converted once more: an accepted schema stays convertible, to the same text
		if p := mon.Guard(func() { b, cerr = openapi.NewSchemaObject(sc).MarshalJSON() }); p != nil {
			return "", fmt.Sprintf("second OpenAPI conversion of %s panicked (the first gave %s): %s", name, mon.Trunc(first, 200), p.Value)
		}
		if cerr != nil || string(b) != first {
			return "", fmt.Sprintf("second OpenAPI conversion of %s differs from the first: %s vs %s (err %v)", name, mon.Trunc(string(b), 200), mon.Trunc(first, 200), cerr)
		}
		return first, ""
	}
	var w string
	if c.Root, w = conv("the root", s); w != "" {
		return c, true, true, "openapi-error", w
	}
	c.Components = map[string]string{}
	for name, ts := range s.UserTypeCollection {
		t, w := conv("type "+name, ts)
		if w != "" {
			return c, true, true, "openapi-error", w
		}
		c.Components[strings.TrimPrefix(name, "@")] = t
	}
	return c, true, true, "", ""
}

type c08Case struct {
	Project   *gen.Project `json:"project"`
	Variation string       `json:"variation,omitempty"`
}

// scalarVariations proposes other literals for a scalar leaf, near its rules' bounds.
func scalarVariations(rng *rand.Rand, n *gen.Node, p *gen.Project) []string {
	var out []string
	switch n.Kind {
	case gen.KInt, gen.KFloat:
		for _, rn := range []string{"min", "max"} {
			if rv, ok := n.Rule(rn); ok {
				b := rv.Lit
				out = append(out, b)
				if n.Kind == gen.KFloat && !strings.Contains(b, ".") {
					out = append(out, b+".0")
				}
				if n.Kind == gen.KFloat {
					base := b
					if !strings.Contains(base, ".") {
						base += ".0"
					}
					out = append(out, base+"1", base+"0")
				}
			}
		}
		if n.Kind == gen.KInt {
			out = append(out, "0", "-1", "7", "1000000")
		} else {
			out = append(out, "0.5", "-0.25", "1.125", "100.001")
		}
	case gen.KString:
		out = append(out, `""`, `"a"`, `"abc"`, `"aaaaaaaaaa"`, `"x y"`, `"A\"q\\z"`)
		// strings that spell a literal of another kind
		out = append(out, `"null"`, `"true"`, `"false"`, `"12"`, `"-1.5"`, `"{}"`, `"[]"`, `"@t0"`)
		if rv, ok := n.Rule("enum"); ok {
			for _, it := range rv.List {
				out = append(out, it.Lit)
			}
		}
	case gen.KBool:
		out = append(out, "true", "false")
	}
	if rv, ok := n.Rule("enum"); ok {
		for _, it := range rv.List {
			out = append(out, it.Lit)
		}
	}
	if rv, ok := n.Rule("nullable"); ok && rv.Lit == "true" {
		out = append(out, "null")
	}
	// keep the JSON kind: where no type rule is written the schema type is inferred from the example,
	// so a literal of another kind would be another schema, not another example
	// ... except where the rules name the admissible kinds themselves: under an `or` rule the example's kind decides
	// nothing, and `nullable: true` admits null next to any kind
	_, hasOr := n.Rule("or")
	if hasOr {
		out = append(out, "null", "5", "-1.5", `"abc"`, "true", `"2006-01-02"`, `"2021-01-02T07:23:12+03:00"`, `"a@b.cc"`, `"550e8400-e29b-41d4-a716-446655440000"`, `""`)
	}
	nullable := false
	if rv, ok := n.Rule("nullable"); ok && rv.Lit == "true" {
		nullable = true
	}
	// a value typed by a reference may be whatever that type's own example is (whatever the kind of the present
	// example - null next to nullable, say)
	if rv, ok := n.Rule("type"); ok && strings.HasPrefix(rv.Lit, `"@`) && p != nil {
		for _, t := range p.Types {
			if Q := gen.Q(t.Name); Q == rv.Lit && t.Node != nil && t.Node.Lit != "" && t.Node.Kind != gen.KRef {
				out = append(out, t.Node.Lit)
				hasOr = true // kind filter off: the library's own Check() of the varied schema decides
			}
		}
	}
	var keep []string
	for _, v := range out {
		if v == n.Lit {
			continue
		}
		if gen.KindOfLiteral(v) == n.Kind || hasOr || (v == "null" && nullable) {
			keep = append(keep, v)
		}
	}
	rng.Shuffle(len(keep), func(i, j int) { keep[i], keep[j] = keep[j], keep[i] })
	if len(keep) > 3 {
		keep = keep[:3]
	}
	return keep
}

// c08Project judges one project. It returns whether it was accepted with a root value.
func c08Project(r *mon.Run, vs *valService, rng *rand.Rand, p *gen.Project, reduce bool) bool {
	return c08ProjectP(r, vs, rng, p, reduce, false)
}

func c08ProjectP(r *mon.Run, vs *valService, rng *rand.Rand, p *gen.Project, reduce, pinned bool) bool {
	r.Eval(1)
	pt := toTexts(p, gen.DefaultLayout)
	conv, accepted, hasRoot, clause, what := convert(pt)
	if !accepted || !hasRoot {
		if clause == "panic" {
			r.Violate("panic", "Check", what, c08Case{Project: p})
		}
		r.Count("projects_not_accepted_or_rootless", 1)
		return false
	}
	report := func(clause, what string, variation string) {
		q := p
		if reduce {
			if rq := c08Reduce(r, vs, p, clause); rq != nil {
				q = rq
			}
		}
		r.Violate(clause, mon.Trunc(projectKey(toTexts(q, gen.DefaultLayout)), 400), what, c08Case{Project: q, Variation: variation})
	}
	if clause != "" {
		report(clause, what+" :: "+mon.Trunc(projectKey(pt), 300), "")
		return true
	}
	// variations: one scalar at a time, kept only if the edited schema is still accepted by the library itself
	instances := []string{conv.Example}
	var varDesc []string
	if rng != nil {
		var leaves []*gen.Node
		p.Root.Walk(func(n *gen.Node) {
			if n.Kind != gen.KObject && n.Kind != gen.KArray && n.Kind != gen.KRef {
				constant := false
				if c, ok := n.Rule("const"); ok && c.Lit == "true" {
					constant = true
				}
				if orv, ok := n.Rule("or"); ok {
					// `const: true` inside an alternative pins that alternative to the annotated value
					for _, alt := range orv.List {
						for _, ar := range alt.Set {
							if ar.Name == "const" && ar.Val.Lit == "true" {
								constant = true
							}
						}
					}
				}
				if !constant {
					leaves = append(leaves, n)
				}
			}
		})
		rng.Shuffle(len(leaves), func(i, j int) { leaves[i], leaves[j] = leaves[j], leaves[i] })
		if len(leaves) > 3 {
			leaves = leaves[:3]
		}
		for _, leaf := range leaves {
			for _, v := range scalarVariations(rng, leaf, p) {
				old, oldKind := leaf.Lit, leaf.Kind
				leaf.Lit, leaf.Kind = v, gen.KindOfLiteral(v)
				ept := toTexts(p, gen.DefaultLayout)
				econv, eacc, eroot, eclause, _ := convert(ept)
				leaf.Lit, leaf.Kind = old, oldKind
				if eacc && eroot && eclause == "" && econv.Root != "" {
					// the OpenAPI schema must not depend on the example value (apart from `example` annotations): validate against the ORIGINAL conversion
					instances = append(instances, econv.Example)
					varDesc = append(varDesc, fmt.Sprintf("%s -> %s", old, v))
					r.Count("variations_accepted_by_the_library", 1)
				} else {
					r.Count("variations_rejected_by_the_library", 1)
				}
			}
		}
	}
	cyclic := false
	if c08Cyclic(pt) && !pinned {
		// recorded finding family: where the example generator cuts a recursion it leaves the member out (or leaves
		// an empty container), also when the member is required - nullable would allow null, a choice another
		// alternative. Examples and variations of projects whose types refer to each other in a cycle are validated,
		// but a rejection is only counted; the pinned witness is replayed separately.
		cyclic = true
		r.Count("recursive_projects_(rejections_of_the_example_only_counted)", 1)
	}
	if usesAllOf(p) && !pinned {
		// recorded finding family: `additionalProperties: false` is emitted next to `allOf` (and in the
		// referenced components), so no instance with own + inherited properties can validate. Only the
		// well-formedness of such schemas is still judged; pinned witnesses are replayed separately.
		r.Count("carved_out_allOf_instances_not_validated", 1)
		instances = nil
	}
	resp, err := vs.ask(valRequest{Schema: conv.Root, Components: conv.Components, Instances: instances})
	if err != nil {
		r.Inconclusive("validator-unavailable")
		r.Note("validator: " + err.Error())
		return true
	}
	if !resp.Wellformed {
		report("openapi-malformed", fmt.Sprintf("the generated Schema Object is not well formed: %s :: schema %s", resp.WfError, mon.Trunc(conv.Root, 300)), "")
		return true
	}
	for i, res := range resp.Results {
		if res.Skipped {
			r.Count("validator_skipped", 1)
			continue
		}
		r.Count("instances_validated", 1)
		if res.Valid {
			continue
		}
		if cyclic {
			r.Count("carved_out_recursion_limited_examples_rejected", 1)
			return true
		}
		if i == 0 {
			report("example-invalid", fmt.Sprintf("Example() %s is not a valid instance of the generated Schema Object: %s :: schema %s", mon.Trunc(instances[0], 200), res.Error, mon.Trunc(conv.Root, 400)), "")
		} else {
			r.Violate("variation-invalid", mon.Trunc(projectKey(pt), 300)+" with "+varDesc[i-1],
				fmt.Sprintf("the variation %s (still accepted by Check()) gives instance %s, which the original Schema Object rejects: %s :: schema %s", varDesc[i-1], mon.Trunc(instances[i], 200), res.Error, mon.Trunc(conv.Root, 400)),
				c08Case{Project: p, Variation: varDesc[i-1]})
		}
		return true
	}
	return true
}

var c08NameRE = regexp.MustCompile(`@[A-Za-z0-9_-]+`)

// c08Cyclic tells whether the registered types mention each other in a cycle (any mention in the text counts).
func c08Cyclic(pt project) bool {
	mentions := map[string][]string{}
	for _, t := range pt.Types {
		if !t.Regex {
			mentions[t.Name] = c08NameRE.FindAllString(t.Text, -1)
		}
	}
	state := map[string]int{}
	var visit func(n string) bool
	visit = func(n string) bool {
		switch state[n] {
		case 1:
			return true
		case 2:
			return false
		}
		state[n] = 1
		for _, m := range mentions[n] {
			if _, ok := mentions[m]; ok && visit(m) {
				return true
			}
		}
		state[n] = 2
		return false
	}
	for n := range mentions {
		if visit(n) {
			return true
		}
	}
	return false
}

// usesAllOf tells whether any element of the project carries the allOf rule.
func usesAllOf(p *gen.Project) bool {
	found := false
	visit := func(n *gen.Node) {
		if _, ok := n.Rule("allOf"); ok {
			found = true
		}
	}
	p.Root.Walk(visit)
	for _, t := range p.Types {
		t.Node.Walk(visit)
	}
	return found
}

// c08Pinned are the witnesses of recorded findings, judged without carve-outs.
func c08Pinned() []*gen.Project {
	self := gen.Obj(gen.Ref("@t1").K("m1").R("nullable", "true"), gen.Ref("@t1").K("m2").R("optional", "true"))
	return []*gen.Project{
		// recursion-limited example: {"m1":{"m1":{},"m2":{}}} - the innermost objects lack the required (nullable) m1
		{Root: gen.Obj(gen.Ref("@t1").K("m1")), Types: []gen.NamedNode{{Name: "@t1", Node: self}}},
		{Root: gen.Obj(gen.Int("1").K("a")).RVal("allOf", gen.LitV(`"@t0"`)), Types: []gen.NamedNode{{Name: "@t0", Node: gen.Obj(gen.Int("2").K("b"))}}},
	}
}

// c08Reduce looks for the smallest sub-tree of the root that alone still fails with the same clause.
func c08Reduce(r *mon.Run, vs *valService, p *gen.Project, clause string) *gen.Project {
	var best *gen.Project
	bestSize := 1 << 30
	p.Root.Walk(func(n *gen.Node) {
		if n == p.Root {
			return
		}
		size := 0
		n.Walk(func(*gen.Node) { size++ })
		if size >= bestSize {
			return
		}
		q := reduceTo(p, n)
		if c08Fails(vs, q) == clause {
			best, bestSize = q, size
		}
	})
	return best
}

// c08Fails returns the clause a project fails with ("" if none), without recording anything.
func c08Fails(vs *valService, p *gen.Project) string {
	conv, accepted, hasRoot, clause, _ := convert(toTexts(p, gen.DefaultLayout))
	if !accepted || !hasRoot {
		return ""
	}
	if clause != "" {
		return clause
	}
	insts := []string{conv.Example}
	if usesAllOf(p) {
		insts = nil
	}
	resp, err := vs.ask(valRequest{Schema: conv.Root, Components: conv.Components, Instances: insts})
	if err != nil {
		return ""
	}
	if !resp.Wellformed {
		return "openapi-malformed"
	}
	if len(resp.Results) == 1 && !resp.Results[0].Valid && !resp.Results[0].Skipped {
		return "example-invalid"
	}
	return ""
}

func c08Run(r *mon.Run) {
	root := os.Getenv("VERIF_ROOT")
	if root == "" {
		root = "/verif"
	}
	vs, err := startValidator(root)
	if err != nil {
		fmt.Fprintln(os.Stderr, "cannot start the validator service:", err)
		os.Exit(5)
	}
	defer vs.stop()
	if r.Shard == 0 {
		for _, p := range c08Pinned() {
			c08ProjectP(r, vs, nil, p, false, true)
		}
	}
	// objects described by several key shortcuts: every ordered pair (and some triples) of value shapes, alone,
	// next to a plain member, and under an additionalProperties rule
	{
		shapes := []func() *gen.Node{
			func() *gen.Node { return gen.Int("5").R("min", "0") },
			func() *gen.Node { return gen.Int("-5").R("max", "0") },
			func() *gen.Node { return gen.Int("7") },
			func() *gen.Node { return gen.Str("ab").R("maxLength", "2") },
			func() *gen.Node { return gen.Str("abcdef").R("minLength", "4") },
			func() *gen.Node { return gen.Str("A1").R("regex", gen.Q("^[A-Z][0-9]$")) },
			func() *gen.Node { return gen.Float("1.5").R("precision", "1") },
			func() *gen.Node { return gen.Float("-20.25").R("max", "0") },
			func() *gen.Node { return gen.Bool(true) },
			func() *gen.Node { return gen.Null() },
			func() *gen.Node { return gen.Obj(gen.Int("1").K("in")) },
			func() *gen.Node { return gen.Arr(gen.Str("x")) },
			func() *gen.Node { return gen.Str("b").R("enum", `["a", "b"]`) },
			func() *gen.Node { return gen.Int("2").R("enum", `[1, 2]`) },
		}
		keyTypes := func() []gen.NamedNode {
			return []gen.NamedNode{{Name: "@k0", Node: gen.Str("abc")}, {Name: "@k1", Node: gen.Str("12").R("regex", gen.Q("^[0-9]+$"))}, {Name: "@k2", Node: gen.Str("x-\"").R("minLength", "2")}}
		}
		si := 0
		grng := r.Rand("c08-grid")
		for a := range shapes {
			for b := range shapes {
				for variant := 0; variant < 4; variant++ {
					if !r.Mine(si) {
						si++
						continue
					}
					si++
					members := []*gen.Node{shapes[a]().KRefKey("@k0"), shapes[b]().KRefKey("@k1")}
					switch variant {
					case 1:
						members = append([]*gen.Node{gen.Int("1").K("id")}, members...)
					case 2:
						members = append(members, shapes[(a+b)%len(shapes)]().KRefKey("@k2"))
					}
					root := gen.Obj(members...)
					if variant == 3 {
						root.R("additionalProperties", `"boolean"`)
					}
					p := &gen.Project{Root: root, Types: keyTypes()}
					if c08Project(r, vs, grng, p, false) {
						r.Nontrivial(projectKey(toTexts(p, gen.DefaultLayout)))
					}
					r.Count("key_shortcut_grid_projects", 1)
				}
			}
		}
	}
	// one type named many times in sibling positions, directly and through one or two alias types (a type whose
	// whole schema is another type): as members of one object, as items of one array, one level down, and as
	// or alternatives; the example must carry every required member
	{
		targets := []func() *gen.Node{
			func() *gen.Node { return gen.Obj(gen.Int("1").K("id"), gen.Str("n").K("name")) },
			func() *gen.Node { return gen.Int("7").R("min", "0") },
			func() *gen.Node { return gen.Arr(gen.Str("x")).R("minItems", "1") },
			func() *gen.Node { return gen.Obj(gen.Obj(gen.Bool(true).K("deep")).K("in")) },
		}
		ai := 0
		arng := r.Rand("c08-alias")
		for ti := range targets {
			for aliases := 0; aliases <= 2; aliases++ {
				for fan := 1; fan <= 6; fan++ {
					for place := 0; place < 5; place++ {
						if !r.Mine(ai) {
							ai++
							continue
						}
						ai++
						types := []gen.NamedNode{{Name: "@id", Node: targets[ti]()}}
						name := "@id"
						for a := 0; a < aliases; a++ {
							next := fmt.Sprintf("@ref%d", a)
							types = append(types, gen.NamedNode{Name: next, Node: gen.Ref(name)})
							name = next
						}
						var root *gen.Node
						switch place {
						case 0: // sibling members
							var ms []*gen.Node
							for i := 0; i < fan; i++ {
								ms = append(ms, gen.Ref(name).K(fmt.Sprintf("m%d", i)))
							}
							root = gen.Obj(ms...)
						case 1: // items of one array
							var it []*gen.Node
							for i := 0; i < fan; i++ {
								it = append(it, gen.Ref(name))
							}
							root = gen.Arr(it...)
						case 2: // one level down, one member each
							var ms []*gen.Node
							for i := 0; i < fan; i++ {
								ms = append(ms, gen.Obj(gen.Ref(name).K("v")).K(fmt.Sprintf("m%d", i)))
							}
							root = gen.Obj(ms...)
						case 3: // members typed by rule
							var ms []*gen.Node
							for i := 0; i < fan; i++ {
								m := targets[ti]()
								m.Rules = nil
								ms = append(ms, m.R("type", gen.Q(name)).K(fmt.Sprintf("m%d", i)))
							}
							root = gen.Obj(ms...)
						default: // members of a type that is itself named several times
							var ms []*gen.Node
							for i := 0; i < fan; i++ {
								ms = append(ms, gen.Ref(name).K(fmt.Sprintf("m%d", i)))
							}
							types = append(types, gen.NamedNode{Name: "@holder", Node: gen.Obj(ms...)})
							root = gen.Obj(gen.Ref("@holder").K("a"), gen.Ref("@holder").K("b"), gen.Ref(name).K("c"))
						}
						p := &gen.Project{Root: root, Types: types}
						if c08Project(r, vs, arng, p, false) {
							r.Nontrivial(projectKey(toTexts(p, gen.DefaultLayout)))
							r.Count("alias_fan_out_projects_accepted", 1)
						}
						r.Count("alias_fan_out_projects", 1)
					}
				}
			}
		}
	}
	// recursive projects: C06's random type graphs (optional / nullable / array / choice links back to earlier
	// types, alias types, planted chains and diamonds); the accepted ones have finite examples, which must be
	// instances of the recursive Schema Objects
	{
		rrng := r.Rand("c08-recursive")
		for i, m := 0, r.Share(r.Pick(4_000, 80_000)); i < m; i++ {
			c, _ := c06Random(rrng)
			if c.Reg || c.OptDefault || c.OptTypes {
				continue // the root is an ordinary root here
			}
			if c08Project(r, vs, rrng, c.Project, false) {
				r.Nontrivial(projectKey(toTexts(c.Project, gen.DefaultLayout)))
				r.Count("recursive_graph_projects_accepted", 1)
			}
		}
	}
	rng := r.Rand("c08")
	n := r.Share(r.Pick(24_000, 600_000))
	for i := 0; i < n; i++ {
		p := genAccepted(rng, rng.IntN(2) == 0)
		if c08Project(r, vs, rng, p, true) {
			r.Nontrivial(projectKey(toTexts(p, gen.DefaultLayout)))
		}
		if i < 2 {
			r.Sample(map[string]any{"project": projectKey(toTexts(p, gen.DefaultLayout))})
		}
	}
	// corpus schemas that are accepted stand-alone
	for i, lit := range gen.Corpus(r.Repo) {
		if !r.Mine(i) {
			continue
		}
		conv, accepted, hasRoot, clause, what := convert(project{Root: lit})
		if !accepted || !hasRoot {
			continue
		}
		r.Eval(1)
		r.Nontrivial("corpus", lit)
		cs := map[string]any{"corpus_text": lit}
		if clause != "" {
			r.Violate(clause, "corpus "+mon.Trunc(lit, 300), what, cs)
			continue
		}
		resp, err := vs.ask(valRequest{Schema: conv.Root, Components: conv.Components, Instances: []string{conv.Example}})
		if err != nil {
			r.Inconclusive("validator-unavailable")
			continue
		}
		if !resp.Wellformed {
			r.Violate("openapi-malformed", "corpus "+mon.Trunc(lit, 300), resp.WfError+" :: schema "+mon.Trunc(conv.Root, 300), cs)
		} else if len(resp.Results) == 1 && !resp.Results[0].Valid && !resp.Results[0].Skipped {
			r.Violate("example-invalid", "corpus "+mon.Trunc(lit, 300), fmt.Sprintf("Example() %s rejected: %s :: schema %s", mon.Trunc(conv.Example, 200), resp.Results[0].Error, mon.Trunc(conv.Root, 400)), cs)
		}
		r.Count("corpus_schemas_validated", 1)
	}
}

func init() {
	register(&mon.CheckDef{
		ID:  "C08",
		Run: c08Run,
		Replay: func(r *mon.Run, raw stdjson.RawMessage) {
			root := os.Getenv("VERIF_ROOT")
			if root == "" {
				root = "/verif"
			}
			vs, err := startValidator(root)
			if err != nil {
				fmt.Println("cannot start the validator service:", err)
				return
			}
			defer vs.stop()
			var c c08Case
			if stdjson.Unmarshal(raw, &c) == nil && c.Project != nil {
				c08ProjectP(r, vs, nil, c.Project, false, true)
				return
			}
			var cc struct {
				Text string `json:"corpus_text"`
			}
			if stdjson.Unmarshal(raw, &cc) == nil && cc.Text != "" {
				conv, acc, hr, clause, what := convert(project{Root: cc.Text})
				if acc && hr {
					if clause != "" {
						r.Violate(clause, "replay", what, nil)
						return
					}
					resp, _ := vs.ask(valRequest{Schema: conv.Root, Components: conv.Components, Instances: []string{conv.Example}})
					if !resp.Wellformed {
						r.Violate("openapi-malformed", "replay", resp.WfError, nil)
					} else if len(resp.Results) == 1 && !resp.Results[0].Valid {
						r.Violate("example-invalid", "replay", resp.Results[0].Error, nil)
					}
				}
			}
		},
		Rule:               "accepted generated projects (user types, regex types, or, enum, const, nullable, formats, allOf, key shortcuts, additionalProperties of every kind, nested containers, keys and strings needing escapes) and the repository test-corpus schemas accepted stand-alone: Example() must succeed and be RFC 8259 JSON; openapi.NewSchemaObject(..).MarshalJSON() of the root and of every registered type must succeed, be JSON and be a well-formed Schema Object (keyword vocabulary, value types, $ref targets present); the example and up to 9 one-scalar variations that the library's own Check() still accepts must validate against the root's Schema Object with the types' conversions as components, as judged by python jsonschema 4.26 (Draft 4 = OpenAPI 3.0 dialect, Decimal numbers, nullable rewritten to anyOf[null, S]). distinct_nontrivial = distinct accepted projects / corpus schemas with a root value (hashed).",
		MinNontrivialQuick: 8000, MinNontrivialThorough: 150000,
		Assumptions: []string{"python jsonschema 4.26 Draft4Validator from the tooling venv (python3-vt) is the independent validator; if it cannot start the check exits 2",
			"tightness is not judged (the OpenAPI schema may accept more than the JSight schema); description text not judged; formats asserted with small independent checkers",
			"variations exclude leaves with const: true (also inside an `or` alternative); the OpenAPI schema of a schema must not depend on its example values other than through `example` annotations"},
	})
}
