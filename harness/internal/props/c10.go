package props

// C10 — returned results stay intact and do not depend on what was processed
// before.
//
// Monitors:
//   (a) every value returned by the library during a history is kept together
//       with a deep snapshot taken at return time; after EVERY later operation
//       all kept values are compared with their snapshots;
//   (b) every result obtained inside a history is compared with the result the
//       same input (same object-local sequence of calls) gets as the very first
//       thing a fresh process does (child process, one input per process), or,
//       for inputs without a fresh-process baseline, with the result computed
//       in this process on first sight, before any history ran;
//   (c) hook H2: a recycled loader that is not in reset state;
//   (d) hook H1: a result that contains poison bytes (0xDB written over a
//       buffer when it is put back into its pool).

import (
	"bytes"
	stdjson "encoding/json"
	"errors"
	"fmt"
	"io"
	"math/rand/v2"
	"os"
	"os/exec"
	"regexp"
	"runtime"
	"runtime/debug"
	"strconv"
	"strings"
	"time"
	"unicode/utf8"

	schema "github.com/jsightapi/jsight-schema-core"
	jdoc "github.com/jsightapi/jsight-schema-core/formats/json"
	"github.com/jsightapi/jsight-schema-core/notations/jschema"
	"github.com/jsightapi/jsight-schema-core/notations/regex"
	"github.com/jsightapi/jsight-schema-core/openapi"
	"github.com/jsightapi/jsight-schema-core/rules/enum"
	"github.com/jsightapi/jsight-schema-core/verifhook"

	"verifharness/internal/gen"
	"verifharness/internal/mon"
)

// ---- inputs -------------------------------------------------------------------

// c10Step is one call of an ordered script on a bare root schema.
type c10Step struct {
	Op   string `json:"op"` // AddRule | AddType | AddTypeRegex | Len | Check | Example | GetAST | Used | OpenAPI | Deref
	Name string `json:"name,omitempty"`
	Text string `json:"text,omitempty"`
}

// c10Input is one "input" in the sense of the property: the texts an object is
// made of plus (for the kinds whose calls are not idempotent) the fixed order
// of calls made on it.
type c10Input struct {
	Kind     string    `json:"kind"` // proj | script | enum | regex | doc
	Project  *project  `json:"project,omitempty"`
	Text     string    `json:"text,omitempty"`
	Steps    []c10Step `json:"steps,omitempty"`
	Trailing bool      `json:"trailing,omitempty"`
	Seed     int64     `json:"seed,omitempty"` // regex: generator seed (0 = the default)
	Source   string    `json:"source,omitempty"`

	id      string
	label   string
	hasDB   bool     // some text of the input contains the poison byte itself
	names   []string // step names
	ordered bool     // steps must run in order, each once
}

var (
	c10ProjSteps  = []string{"Len", "Check", "Example", "GetAST", "Used", "OpenAPI", "OpenAPIDesc", "Deref"}
	c10EnumSteps  = []string{"Len", "Check", "Values", "GetAST", "UseInSchema"}
	c10RegexSteps = []string{"Len", "Check", "Pattern", "GetAST", "Example", "OpenAPI", "OpenAPIDesc"}
	c10DocSteps   = []string{"0:Lex3", "1:Lex3", "2:Check", "3:LexAll", "4:Len", "5:LexAll"}
)

// raw is the identity of an input: its kind and every text in it.
func (in *c10Input) raw() string {
	parts := []string{in.Kind, in.Text, strconv.FormatBool(in.Trailing)}
	if in.Seed != 0 {
		parts = append(parts, "seed", strconv.FormatInt(in.Seed, 10))
	}
	if in.Project != nil {
		parts = append(parts, "root", in.Project.Root)
		for _, t := range in.Project.Types {
			parts = append(parts, "type", t.Name, t.Text, strconv.FormatBool(t.Regex))
		}
		for _, t := range in.Project.Rules {
			parts = append(parts, "rule", t.Name, t.Text)
		}
	}
	for _, s := range in.Steps {
		parts = append(parts, "step", s.Op, s.Name, s.Text)
	}
	return strings.Join(parts, "\x00")
}

func (in *c10Input) prepare() *c10Input {
	raw := in.raw()
	in.id = mon.Hash(raw)
	in.hasDB = strings.IndexByte(raw, verifhook.PoisonByte) >= 0
	root := in.Text
	extra := ""
	switch in.Kind {
	case "proj":
		root = in.Project.Root
		if n := len(in.Project.Types) + len(in.Project.Rules); n > 0 {
			extra = fmt.Sprintf(" (+%d types/rules %s)", n, in.id[:6])
		}
		in.names = c10ProjSteps
	case "script":
		in.ordered = true
		in.names = make([]string, len(in.Steps))
		for i, s := range in.Steps {
			in.names[i] = strconv.Itoa(i) + ":" + s.Op
		}
		extra = fmt.Sprintf(" (script of %d calls %s)", len(in.Steps), in.id[:6])
	case "enum":
		in.names = c10EnumSteps
	case "regex":
		in.names = c10RegexSteps
	case "doc":
		in.ordered = true
		in.names = c10DocSteps
		if in.Trailing {
			extra = " (trailing allowed)"
		}
	}
	in.label = in.Kind + " " + strconv.QuoteToASCII(mon.Trunc(root, 80)) + extra
	return in
}

func (in *c10Input) family() string {
	switch in.Kind {
	case "enum":
		return "Enum."
	case "regex":
		return "RSchema."
	case "doc":
		return "Document."
	}
	return "JSchema."
}

// opName turns a step name into the name of the library call it makes.
func (in *c10Input) opName(step string) string {
	if i := strings.IndexByte(step, ':'); i >= 0 {
		step = step[i+1:]
	}
	switch step {
	case "Used":
		step = "UsedUserTypes"
	case "OpenAPI":
		return "openapi.MarshalJSON(" + strings.TrimSuffix(in.family(), ".") + ")"
	case "OpenAPIDesc":
		return "openapi.SetDescription+MarshalJSON(" + strings.TrimSuffix(in.family(), ".") + ")"
	case "Deref":
		return "openapi.Dereference"
	case "Lex3", "LexAll":
		step = "NextLexeme"
	case "AddTypeRegex":
		step = "AddType(regex)"
	case "create":
		if in.Kind == "proj" {
			return "create(New+AddRule+AddType)"
		}
		return "create(New)"
	}
	return in.family() + step
}

// ---- rendering of results -----------------------------------------------------

func c10Err(err error) string {
	if err == nil {
		return "ok"
	}
	v, rp := viewError(err)
	if rp != nil {
		return "ERR(render panic: " + rp.Value + ")"
	}
	return "ERR " + v.Type + " code=" + strconv.Itoa(v.Code) + " msg=" + v.Message + " idx=" + strconv.Itoa(int(v.Index)) +
		" line=" + strconv.Itoa(int(v.Line)) + " col=" + strconv.Itoa(int(v.Col)) + " usertype=" + v.UserType + " file=" + v.Filename + " rendered=" + v.Rendered
}

func c10RuleNode(sb *strings.Builder, n *schema.RuleASTNode) {
	sb.WriteString(n.TokenType)
	sb.WriteByte(1)
	sb.WriteString(n.Value)
	sb.WriteByte(1)
	sb.WriteString(n.Comment)
	sb.WriteByte(1)
	sb.WriteByte('0' + byte(n.Source))
	c10Rules(sb, n.Properties)
	sb.WriteByte('[')
	for i := range n.Items {
		c10RuleNode(sb, &n.Items[i])
		sb.WriteByte(',')
	}
	sb.WriteByte(']')
}

func c10Rules(sb *strings.Builder, m *schema.RuleASTNodes) {
	if m == nil {
		sb.WriteString("<nil>")
		return
	}
	sb.WriteByte('{')
	m.EachSafe(func(k string, v schema.RuleASTNode) {
		sb.WriteString(k)
		sb.WriteByte(2)
		c10RuleNode(sb, &v)
		sb.WriteByte(';')
	})
	sb.WriteByte('}')
}

func c10Node(sb *strings.Builder, n *schema.ASTNode) {
	sb.WriteString(n.TokenType)
	sb.WriteByte(1)
	sb.WriteString(n.SchemaType)
	sb.WriteByte(1)
	sb.WriteString(n.Key)
	sb.WriteByte(1)
	sb.WriteString(n.Value)
	sb.WriteByte(1)
	sb.WriteString(n.Comment)
	sb.WriteByte(1)
	sb.WriteString(n.InheritedFrom)
	if n.IsKeyShortcut {
		sb.WriteByte('S')
	}
	c10Rules(sb, n.Rules)
	sb.WriteByte('[')
	for i := range n.Children {
		c10Node(sb, &n.Children[i])
		sb.WriteByte(',')
	}
	sb.WriteByte(']')
}

// c10AST renders every exported field of an AST tree (same information as the
// JSON marshalling, a good deal cheaper).
func c10AST(n *schema.ASTNode) string {
	var sb strings.Builder
	c10Node(&sb, n)
	return sb.String()
}

func c10Values(vv []enum.Value) string {
	var sb strings.Builder
	for i := range vv {
		sb.WriteString(string(vv[i].Type))
		sb.WriteByte(1)
		sb.WriteString(vv[i].Value.String())
		sb.WriteByte(1)
		sb.WriteString(vv[i].Comment)
		sb.WriteByte(';')
	}
	return sb.String()
}

// ---- kept values ----------------------------------------------------------------

// c10Kept is a value the library returned, with the snapshot taken at return time.
type c10Kept struct {
	what   string // kind of value
	label  string // input label
	from   string // call that returned it
	b      []byte // for byte results: the returned slice itself
	bsnap  []byte
	render func() string // for everything else: renders the returned value as it is now
	snap   string
}

func (k *c10Kept) changed() (now string, yes bool) {
	if k.render == nil {
		if bytes.Equal(k.b, k.bsnap) {
			return "", false
		}
		return string(k.b), true
	}
	s := k.render()
	return s, s != k.snap
}

func (k *c10Kept) was() string {
	if k.render == nil {
		return string(k.bsnap)
	}
	return k.snap
}

// ---- live objects ---------------------------------------------------------------

type c10Obj struct {
	in     *c10Input
	js     *jschema.JSchema
	en     *enum.Enum
	rx     *regex.RSchema
	doc    schema.Document
	cursor int
	exN    int
	keep   func(c10Kept)
	// scribble: the caller owns what it was given - in these histories every returned byte slice is overwritten
	// with '*' right after it was rendered (instead of being kept for monitor (a)); later results must not change
	scribble     bool
	pending      [][]byte
	pendingLists [][]string // returned string lists, overwritten the same way
}

func (o *c10Obj) flushScribble() {
	for _, b := range o.pending {
		for i := range b {
			b[i] = '*'
		}
	}
	o.pending = nil
	for _, l := range o.pendingLists {
		for i := range l {
			l[i] = "@overwritten-by-the-caller"
		}
	}
	o.pendingLists = nil
}

func (o *c10Obj) keepErr(from string, err error) {
	if err == nil || o.keep == nil {
		return
	}
	o.keep(c10Kept{what: "error", label: o.in.label, from: from, render: func() string { return c10Err(err) }, snap: c10Err(err)})
}

func (o *c10Obj) keepBytes(what, from string, b []byte) {
	if b == nil || o.keep == nil {
		return
	}
	if o.scribble {
		o.pending = append(o.pending, b)
		return
	}
	o.keep(c10Kept{what: what, label: o.in.label, from: from, b: b, bsnap: bytes.Clone(b)})
}

// create builds the object(s) of an input. The rendering of what creation
// returned (errors of AddRule/AddType for projects) is the result of step
// "create".
func c10Create(in *c10Input, keep func(c10Kept)) (o *c10Obj, out string) {
	o = &c10Obj{in: in, keep: keep}
	out = "ok"
	switch in.Kind {
	case "proj":
		s, err := in.Project.build()
		o.js = s
		out = c10Err(err)
		o.keepErr("create", err)
		// the texts the objects were made of are the caller's: they must stay what they are
		if s != nil {
			o.keepBytes("text the root schema was created from", "create", s.File.Content().Data())
			for name, ts := range s.UserTypeCollection {
				switch t := ts.(type) {
				case *jschema.JSchema:
					o.keepBytes("text the type "+name+" was created from", "create", t.File.Content().Data())
				case *regex.RSchema:
					o.keepBytes("text the regex type "+name+" was created from", "create", t.File.Content().Data())
				}
			}
		}
	case "script":
		o.js = jschema.New("root", in.Text)
		o.keepBytes("text the root schema was created from", "create", o.js.File.Content().Data())
	case "enum":
		o.en = enum.New("@e", in.Text)
	case "regex":
		if in.Seed != 0 {
			o.rx = regex.New("r", in.Text, regex.WithGeneratorSeed(in.Seed))
		} else {
			o.rx = regex.New("r", in.Text)
		}
	case "doc":
		if in.Trailing {
			o.doc = jdoc.New("doc", in.Text, jdoc.AllowTrailingNonSpaceCharacters())
		} else {
			o.doc = jdoc.New("doc", in.Text)
		}
	}
	return o, out
}

// run makes the call named by step and returns the key under which the result
// is compared with the baseline, and the rendering of the result.
func (o *c10Obj) run(step string) (key, out string) {
	key = step
	op := step
	var st *c10Step
	if i := strings.IndexByte(step, ':'); i >= 0 {
		op = step[i+1:]
		if o.in.Kind == "script" {
			n, _ := strconv.Atoi(step[:i])
			st = &o.in.Steps[n]
		}
	}
	from := o.in.opName(step)
	switch {
	case o.js != nil:
		out = o.runJSchema(op, from, st)
	case o.en != nil:
		out = o.runEnum(op, from)
	case o.rx != nil:
		if op == "Example" {
			o.exN++
			key = "Example#" + strconv.Itoa(o.exN)
		}
		out = o.runRegex(op, from)
	case o.doc != nil:
		out = o.runDoc(op, from)
	}
	return key, out
}

func (o *c10Obj) runJSchema(op, from string, st *c10Step) string {
	s := o.js
	switch op {
	case "Len":
		n, err := s.Len()
		o.keepErr(from, err)
		if err != nil {
			return c10Err(err)
		}
		return strconv.Itoa(int(n))
	case "Check":
		err := s.Check()
		o.keepErr(from, err)
		return c10Err(err)
	case "Example":
		b, err := s.Example()
		o.keepErr(from, err)
		o.keepBytes("Example bytes", from, b)
		if err != nil {
			return c10Err(err)
		}
		return "B " + string(b)
	case "GetAST":
		n, err := s.GetAST()
		o.keepErr(from, err)
		if err != nil {
			return c10Err(err)
		}
		r := c10AST(&n)
		if o.keep != nil {
			o.keep(c10Kept{what: "AST", label: o.in.label, from: from, render: func() string { return c10AST(&n) }, snap: r})
		}
		return "AST " + r
	case "Used":
		l, err := s.UsedUserTypes()
		o.keepErr(from, err)
		if err != nil {
			return c10Err(err)
		}
		r := strings.Join(l, "\x01")
		if o.scribble && o.keep != nil {
			o.pendingLists = append(o.pendingLists, l)
		} else if o.keep != nil && l != nil {
			o.keep(c10Kept{what: "UsedUserTypes list", label: o.in.label, from: from, render: func() string { return strings.Join(l, "\x01") }, snap: r})
		}
		return "L " + strconv.Itoa(len(l)) + " " + r
	case "OpenAPI":
		if err := s.Check(); err != nil {
			return "n/a" // conversion is only claimed for accepted schemas
		}
		b, err := openapi.NewSchemaObject(s).MarshalJSON()
		o.keepErr(from, err)
		o.keepBytes("OpenAPI bytes", from, b)
		if err != nil {
			return c10Err(err)
		}
		return "B " + string(b)
	case "OpenAPIDesc":
		// the conversion with a description of the caller's own, one per input
		if err := s.Check(); err != nil {
			return "n/a"
		}
		so := openapi.NewSchemaObject(s)
		so.SetDescription("described by the caller: " + o.in.id)
		b, err := so.MarshalJSON()
		o.keepErr(from, err)
		o.keepBytes("OpenAPI bytes (with description)", from, b)
		if err != nil {
			return c10Err(err)
		}
		return "B " + string(b)
	case "Deref":
		if err := s.Check(); err != nil {
			return "n/a"
		}
		var sb strings.Builder
		kept := 0
		one := func(inf openapi.SchemaInformer) {
			sb.WriteString(strconv.Itoa(int(inf.Type())))
			sb.WriteByte(1)
			sb.WriteString(inf.Annotation())
			sb.WriteByte(1)
			b, err := inf.SchemaObject().MarshalJSON()
			if err != nil {
				sb.WriteString(c10Err(err))
			} else {
				sb.Write(b)
				if kept < 8 {
					kept++
					o.keepBytes("Dereference SchemaObject bytes", from, b)
				}
			}
		}
		for _, inf := range openapi.Dereference(s) {
			one(inf)
			if oi, ok := inf.(openapi.ObjectInformer); ok {
				sb.WriteByte('(')
				for _, pi := range oi.PropertiesInfos() {
					sb.WriteString(pi.Key())
					if pi.Optional() {
						sb.WriteByte('?')
					}
					sb.WriteByte(2)
					one(pi)
					sb.WriteByte(',')
				}
				sb.WriteByte(')')
			}
			sb.WriteByte(';')
		}
		return "D " + sb.String()
	case "AddRule":
		err := s.AddRule(st.Name, enum.New(st.Name, st.Text))
		o.keepErr(from, err)
		return c10Err(err)
	case "AddType":
		err := s.AddType(st.Name, jschema.New(st.Name, st.Text))
		o.keepErr(from, err)
		return c10Err(err)
	case "AddTypeRegex":
		err := s.AddType(st.Name, regex.New(st.Name, st.Text))
		o.keepErr(from, err)
		return c10Err(err)
	}
	return "?" + op
}

func (o *c10Obj) runEnum(op, from string) string {
	e := o.en
	switch op {
	case "Len":
		n, err := e.Len()
		o.keepErr(from, err)
		if err != nil {
			return c10Err(err)
		}
		return strconv.Itoa(int(n))
	case "Check":
		err := e.Check()
		o.keepErr(from, err)
		return c10Err(err)
	case "Values":
		vv, err := e.Values()
		o.keepErr(from, err)
		if err != nil {
			return c10Err(err)
		}
		r := c10Values(vv)
		if o.keep != nil && vv != nil {
			o.keep(c10Kept{what: "enum Values list", label: o.in.label, from: from, render: func() string { return c10Values(vv) }, snap: r})
		}
		return "V " + strconv.Itoa(len(vv)) + " " + r
	case "GetAST":
		n, err := e.GetAST()
		o.keepErr(from, err)
		if err != nil {
			return c10Err(err)
		}
		r := c10AST(&n)
		if o.keep != nil {
			o.keep(c10Kept{what: "AST", label: o.in.label, from: from, render: func() string { return c10AST(&n) }, snap: r})
		}
		return "AST " + r
	case "UseInSchema":
		// the same rule object named by a schema, as a project does: a loader that edits the rule's
		// memoised values shows in the lists handed out earlier and in the next use
		s := jschema.New("root", "{\n  \"a\": 1, // {enum: @e}\n  \"b\": 1 // {enum: @e}\n}")
		if err := s.AddRule("@e", e); err != nil {
			o.keepErr(from, err)
			return "addrule " + c10Err(err)
		}
		err := s.Check()
		o.keepErr(from, err)
		return c10Err(err)
	}
	return "?" + op
}

func (o *c10Obj) runRegex(op, from string) string {
	x := o.rx
	switch op {
	case "Len":
		n, err := x.Len()
		o.keepErr(from, err)
		if err != nil {
			return c10Err(err)
		}
		return strconv.Itoa(int(n))
	case "Check":
		err := x.Check()
		o.keepErr(from, err)
		return c10Err(err)
	case "Pattern":
		p, err := x.Pattern()
		o.keepErr(from, err)
		if err != nil {
			return c10Err(err)
		}
		return "P " + p
	case "GetAST":
		n, err := x.GetAST()
		o.keepErr(from, err)
		if err != nil {
			return c10Err(err)
		}
		r := c10AST(&n)
		if o.keep != nil {
			o.keep(c10Kept{what: "AST", label: o.in.label, from: from, render: func() string { return c10AST(&n) }, snap: r})
		}
		return "AST " + r
	case "Example":
		b, err := x.Example()
		o.keepErr(from, err)
		o.keepBytes("regex Example bytes", from, b)
		if err != nil {
			return c10Err(err)
		}
		return "B " + string(b)
	case "OpenAPI", "OpenAPIDesc":
		if err := x.Check(); err != nil {
			return "n/a"
		}
		so := openapi.NewSchemaObject(x)
		if op == "OpenAPIDesc" {
			so.SetDescription("described by the caller: " + o.in.id)
		}
		b, err := so.MarshalJSON()
		o.keepErr(from, err)
		o.keepBytes("OpenAPI bytes", from, b)
		if err != nil {
			return c10Err(err)
		}
		return "B " + string(b)
	}
	return "?" + op
}

func (o *c10Obj) runDoc(op, from string) string {
	d := o.doc
	lex := func(max int) string {
		var sb strings.Builder
		limit := 4*len(o.in.Text) + 16
		for i := 0; i < max && i < limit; i++ {
			l, err := d.NextLexeme()
			if errors.Is(err, io.EOF) {
				sb.WriteString("EOF")
				break
			}
			if err != nil {
				o.keepErr(from, err)
				sb.WriteString(c10Err(err))
				break
			}
			sb.WriteString(l.String())
			sb.WriteByte(1)
			sb.WriteString(l.Value().String())
			sb.WriteByte(';')
		}
		return "X " + sb.String()
	}
	switch op {
	case "Lex3":
		return lex(3)
	case "LexAll":
		return lex(1 << 30)
	case "Check":
		err := d.Check()
		o.keepErr(from, err)
		return c10Err(err)
	case "Len":
		n, err := d.Len()
		o.keepErr(from, err)
		if err != nil {
			return c10Err(err)
		}
		return strconv.Itoa(int(n))
	}
	return "?" + op
}

var c10AddrRE = regexp.MustCompile(`0x[0-9a-f]{6,}`)

func c10Guarded(f func() string) (out string, p *mon.Panic) {
	p = mon.Guard(func() { out = f() })
	if p != nil {
		out = "PANIC at " + p.Site + ": " + c10AddrRE.ReplaceAllString(p.Value, "0xADDR")
	}
	return
}

// c10Digest is everything observable about an input: the results of its whole
// call list on fresh objects.
func c10Digest(in *c10Input) map[string]string {
	d := map[string]string{}
	var o *c10Obj
	out, _ := c10Guarded(func() string {
		var s string
		o, s = c10Create(in, nil)
		return s
	})
	d["create"] = out
	if o == nil {
		return d
	}
	steps := in.names
	if in.Kind == "regex" {
		steps = append(append([]string(nil), steps...), "Example", "Example")
	}
	for _, st := range steps {
		var key string
		out, p := c10Guarded(func() string {
			var s string
			key, s = o.run(st)
			return s
		})
		if p != nil {
			key = st
			if in.Kind == "regex" && st == "Example" {
				key = "Example#" + strconv.Itoa(o.exN)
			}
		}
		d[key] = out
	}
	return d
}

// ---- fresh-process baseline ------------------------------------------------------

func init() {
	// vcheck child c10-baseline: reads one input (JSON) from stdin, and, as the
	// first library use of this process, computes its digest.
	children["c10-baseline"] = func(args []string) int {
		raw, err := io.ReadAll(os.Stdin)
		if err != nil {
			return 2
		}
		var in c10Input
		if err := stdjson.Unmarshal(raw, &in); err != nil {
			fmt.Fprintln(os.Stderr, err)
			return 2
		}
		in.prepare()
		d := c10Digest(&in)
		tr := map[string][]byte{}
		for k, v := range d {
			tr[k] = []byte(v)
		}
		b, _ := stdjson.Marshal(tr)
		os.Stdout.Write(b)
		return 0
	}
}

func c10FreshBaseline(exe string, in *c10Input) (map[string]string, error) {
	raw, _ := stdjson.Marshal(in)
	var back c10Input
	if stdjson.Unmarshal(raw, &back) != nil || back.prepare().id != in.id {
		return nil, fmt.Errorf("input does not survive JSON transport")
	}
	cmd := exec.Command(exe, "child", "c10-baseline")
	cmd.Stdin = bytes.NewReader(raw)
	var stdout, stderr bytes.Buffer
	cmd.Stdout, cmd.Stderr = &stdout, &stderr
	if err := cmd.Run(); err != nil {
		return nil, fmt.Errorf("%v: %s", err, mon.Trunc(stderr.String(), 300))
	}
	var tr map[string][]byte
	if err := stdjson.Unmarshal(stdout.Bytes(), &tr); err != nil {
		return nil, err
	}
	d := make(map[string]string, len(tr))
	for k, v := range tr {
		d[k] = string(v)
	}
	return d, nil
}

type c10Base struct {
	parts map[string]string
	fresh bool // parts come from a fresh process
}

// ---- histories -------------------------------------------------------------------

type c10Op struct {
	Slot int    `json:"s"`
	New  int    `json:"new,omitempty"` // 1+index of the input a new object is created from
	Step string `json:"step,omitempty"`
}

type c10History struct {
	Inputs []*c10Input `json:"inputs"`
	Ops    []c10Op     `json:"ops"`
	Poison bool        `json:"poison"`
	Source string      `json:"source"`
	// Before lists the histories that ran since the pools were last emptied
	// (at most c10Epoch-1 of them); only set in recorded violation cases.
	Before []*c10History `json:"before,omitempty"`
}

// The pools are emptied (two collections) before every c10Epoch-th history; in
// between, a history starts with whatever its predecessors left in the pools.
const c10Epoch = 8

type c10State struct {
	r        *mon.Run
	baseOf   func(in *c10Input) *c10Base
	dirty    int64 // LoaderDirty seen so far
	nontriv  []string
	unstable map[string]bool // inputs whose own results vary between identical runs
	epoch    []*c10History   // histories run since the pools were last emptied
	fresh    bool            // empty the pools before the next history
	// totals
	ops, rechecks, cmpFresh, cmpFirst, cmpNone, cmpUnstable, samePanics, heapAddr, triages int64
}

func c10NewState(r *mon.Run, baseOf func(in *c10Input) *c10Base) *c10State {
	return &c10State{r: r, baseOf: baseOf, unstable: map[string]bool{}, dirty: verifhook.LoaderDirty.Load()}
}

var (
	c10TypeAddrRE = regexp.MustCompile(`#0x[0-9a-f]+`)
	c10ErrRE      = regexp.MustCompile(`(?s)^ERR (\S+) code=(-?\d+) msg=(.*) idx=(\d+) line=(\d+) col=(\d+) usertype=(.*) file=(.*) rendered=(.*)$`)
	c10ErrFields  = []string{"", "type", "code", "message", "index", "line", "column", "IncorrectUserType", "file name", "rendered text"}
)

// c10Signature names what differs between two renderings without quoting
// input-specific text (used in violation keys that must stay few and stable).
func c10Signature(a, b string) string {
	ma, mb := c10ErrRE.FindStringSubmatch(a), c10ErrRE.FindStringSubmatch(b)
	if ma == nil || mb == nil {
		if (ma == nil) != (mb == nil) {
			return "an error in one run, a value in the other"
		}
		return "value"
	}
	if ma[2] != mb[2] {
		lo, hi := ma[2], mb[2]
		if lo > hi {
			lo, hi = hi, lo
		}
		return "error code " + lo + " or " + hi
	}
	var f []string
	positional := true
	for i := 1; i < len(ma); i++ {
		if ma[i] != mb[i] {
			f = append(f, c10ErrFields[i])
			if i != 5 && i != 6 && i != 8 && i != 9 {
				positional = false
			}
		}
	}
	if positional {
		// one family whatever the code: the error is the same, its attribution is not
		return "same error, but its file name (with line, column and rendered text) differs"
	}
	return "error code " + ma[2] + ": " + strings.Join(f, ", ") + " differ"
}

// mismatch judges a result that differs from its baseline. Three causes are
// told apart: the heap address of an unnamed type printed into the result; an
// input whose results vary between identical runs whatever came before; a
// result that depends on the history.
func (st *c10State) mismatch(in *c10Input, key, want, got string, p *mon.Panic, how, when string, cas any) {
	r := st.r
	name := in.opName(key)
	if strings.HasPrefix(key, "Example#") {
		name = in.opName("Example")
	}
	did := name + " on " + in.label
	if p != nil && !strings.HasPrefix(want, "PANIC") {
		r.Violate("panic", name+"/"+p.Site, fmt.Sprintf("%s panicked (%s) %s; the same call %s does not panic", did, mon.Trunc(p.Value, 160), when, how), cas)
		return
	}
	nw, ng := c10TypeAddrRE.ReplaceAllString(want, "#0xADDR"), c10TypeAddrRE.ReplaceAllString(got, "#0xADDR")
	if nw == ng {
		st.heapAddr++
		r.Violate("history-dependent", "heap address of an unnamed type (#0x…) inside a result", fmt.Sprintf("result of %s, %s, differs from the result of the same call %s only in the name of an unnamed type, which is the heap address of an internal object; %s", did, when, how, c10Diff(want, got)), cas)
		return
	}
	if st.triages++; st.triages > 40 {
		// the run is red many times over by now; do not spend minutes on triage
		r.Count("mismatches_beyond_the_triage_budget_not_reported", 1)
		return
	}
	// Does the input give one answer at all? Recompute it on fresh objects here,
	// and in a few more fresh processes.
	norm := func(x string) string { return c10TypeAddrRE.ReplaceAllString(x, "#0xADDR") }
	again := map[string]bool{}
	for i := 0; i < 150 && len(again) < 2; i++ {
		again[norm(c10Digest(in)[key])] = true
	}
	varies := len(again) > 1
	for i := 0; i < 2 && !varies && r.Exe != ""; i++ {
		if d, err := c10FreshBaseline(r.Exe, in); err == nil && norm(d[key]) != nw {
			varies = true
		}
	}
	if varies {
		st.unstable[in.id] = true
		r.Count("inputs_with_results_varying_between_identical_runs", 1)
		r.Violate("nondeterministic", strings.TrimSuffix(in.family(), ".")+": "+c10Signature(nw, ng)+" between identical runs",
			fmt.Sprintf("%s gives different results for the same input on fresh objects whatever was processed before (seen %s, and again when recomputed in a row): %s", did, when, c10Diff(nw, ng)), map[string]any{"nondet": in})
		return
	}
	r.Violate("history-dependent", name+" of "+in.label, fmt.Sprintf("result of %s (step %s), %s, differs from the result of the same call %s; %s", did, key, when, how, c10Diff(want, got)), cas)
}

// checkDirty reports a recycled loader that hook H2 found not reset.
func (st *c10State) checkDirty(did, lastLoaderOp string, cas any) {
	d := verifhook.LoaderDirty.Load()
	if d == st.dirty {
		return
	}
	st.dirty = d
	fields := "?"
	if reps := verifhook.LoaderDirtyReports(); len(reps) > 0 {
		fields = reps[len(reps)-1]
	}
	st.r.Violate("loader-dirty", "recycled loader not reset: "+fields, fmt.Sprintf("during %s the loader taken from the pool still had non-reset fields (%s); the previous call that used a loader was %s", did, fields, lastLoaderOp), cas)
}

func c10Diff(a, b string) string {
	i := 0
	for i < len(a) && i < len(b) && a[i] == b[i] {
		i++
	}
	from := i - 40
	if from < 0 {
		from = 0
	}
	cut := func(s string) string {
		to := i + 80
		if to > len(s) {
			to = len(s)
		}
		if from > len(s) {
			return ""
		}
		return strconv.QuoteToASCII(s[from:to])
	}
	return fmt.Sprintf("first difference at byte %d: was …%s, now …%s (lengths %d, %d)", i, cut(a), cut(b), len(a), len(b))
}

// run executes one history under all monitors. It reports whether pooled
// objects were seen to be reused while it ran.
func (st *c10State) run(h *c10History) bool {
	r := st.r
	// An epoch starts from empty pools (two collections empty a sync.Pool); no
	// collection happens while it runs. A recorded case carries the earlier
	// histories of its epoch, so that it replays exactly.
	if len(st.epoch) >= c10Epoch || st.fresh {
		st.epoch = nil
		st.fresh = false
	}
	if len(st.epoch) == 0 {
		runtime.GC()
		runtime.GC()
	}
	h.Before = st.epoch
	defer func() {
		h.Before = nil
		st.epoch = append(st.epoch[:len(st.epoch):len(st.epoch)], h)
	}()
	verifhook.SetPoolPoison(h.Poison)
	pr0, lr0 := verifhook.PoolReuses.Load(), verifhook.LoaderReuses.Load()

	var kept []c10Kept
	keep := func(k c10Kept) { kept = append(kept, k) }
	live := map[int]*c10Obj{}
	lastLoaderOp := "(none)"
	for opi, op := range h.Ops {
		var in *c10Input
		var key, name string
		lg0 := verifhook.LoaderGets.Load()
		out, p := c10Guarded(func() string {
			if op.New > 0 {
				in = h.Inputs[op.New-1]
				key, name = "create", in.opName("create")
				o, s := c10Create(in, keep)
				o.scribble = !h.Poison
				live[op.Slot] = o
				return s
			}
			o := live[op.Slot]
			in = o.in
			name = in.opName(op.Step)
			key = op.Step
			var s string
			key, s = o.run(op.Step)
			o.flushScribble()
			return s
		})
		st.ops++
		if in == nil {
			continue
		}
		if in.Kind == "regex" && op.Step == "Example" {
			// the example of a regex schema is made once: whichever call of a
			// history asks, the answer is the one a fresh object gives first
			key = "Example#1"
		}
		did := name + " on " + in.label
		// (b) the same call list on fresh objects in a fresh process gave ...
		if b := st.baseOf(in); b == nil {
			st.cmpNone++
		} else if want, ok := b.parts[key]; !ok {
			st.cmpNone++
		} else {
			if b.fresh {
				st.cmpFresh++
			} else {
				st.cmpFirst++
			}
			if st.unstable[in.id] {
				st.cmpUnstable++
			} else if want != out {
				how := "as the first thing a fresh process does"
				if !b.fresh {
					how = "on first sight in this process (before any history)"
				}
				st.mismatch(in, key, want, out, p, how, fmt.Sprintf("after %d earlier operations of a history", opi), h)
			} else if p != nil {
				st.samePanics++
			}
		}

		// (d) poison bytes in what was just returned
		if !in.hasDB && strings.Contains(out, "\xdb\xdb") {
			r.Violate("poison", name+" of "+in.label, fmt.Sprintf("the result of %s contains poison bytes 0xDB, i.e. memory of a buffer that had already been put back into its pool: %s", did, strconv.QuoteToASCII(mon.Trunc(out, 160))), h)
		}

		// (c) recycled loader not in reset state (seen at the next Get)
		st.checkDirty(did, lastLoaderOp, h)
		if verifhook.LoaderGets.Load() != lg0 {
			lastLoaderOp = did
		}

		// (a) every value returned so far is still what it was when returned.
		// Values returned by this very operation are compared as well (cheap).
		w := 0
		for i := range kept {
			k := &kept[i]
			st.rechecks++
			if now, yes := k.changed(); yes {
				r.Violate("mutated-after-return", k.what+" of "+k.label+" changed after "+name,
					fmt.Sprintf("the %s returned by %s changed when %s ran later; %s", k.what, k.from, did, c10Diff(k.was(), now)), h)
				continue // reported once
			}
			kept[w] = *k
			w++
		}
		kept = kept[:w]
	}
	verifhook.SetPoolPoison(false)
	return verifhook.PoolReuses.Load() > pr0 || verifhook.LoaderReuses.Load() > lr0
}

// ---- workload ----------------------------------------------------------------------

// schemas accepted on their own, of different nesting depths
var c10Accepted = []string{
	`1`, `"s"`, `true`, `null`, `[]`, `{}`, `[1,2,3]`, `{"a":1}`, `{"a":1,"b":"x"}`,
	`[[1]]`, `[[[1,2],[3]],4]`, `[[[[[[1]]]]]]`, `[[[[[[[[[[1,2]]]]]]]]]]`,
	`{"a":{"b":1}}`, `{"a":[1,{"b":2}]}`, `{"a":[1,2,{"b":[3,{"c":4}]}]}`, `{"a":{"b":{"c":{"d":{"e":{"f":[1,[2,[3]]]}}}}}}`,
	`{"k":[1,2,3]}`, `{"y":[9,9,9,9,9,9,9,9,9,9,9,9,{"z":[9,9,9,9]}]}`,
	"{\n  \"id\": 1, // {min: 0}\n  \"name\": \"x\" // {optional: true}\n}",
	"{\n  \"id\": 1 /* {min: 0,\n max: 10} */,\n  \"tags\": [\n    \"a\" // {minLength: 1}\n  ]\n}",
	`"a" // {enum: ["a","b"]}`, `"abc" // {regex: "^a"}`, `1 // {or: [{type: "integer"}, {type: "string"}]}`, `12.5 // {precision: 1}`,
	`[1, "a"] // {minItems: 1}`, `{} // {additionalProperties: true}`, `{"a": 1} // {additionalProperties: "string"}`,
	`"2020-01-01" // {type: "date"}`, `{"a\"b": 1, "c\\d": [2]}`, `{"key": null // {nullable: true}` + "\n}",
	`{} // {type: "any"}`, `[] // {type: "any"}`, `"" // {type: "any"}`, "{\n  \"id\": 1,\n  \"payload\": {} // {type: \"any\"}\n}", `1 // {or: ["any", {type: "integer"}]}`, `// {type: "any"}`,
	`[ // {maxItems: 3}` + "\n 1 // {min: 0} - note\n]", `{"a":1}    `, "\n\n{\"a\":[true,false,null]}\n",
	// texts of one length that differ in one byte inside an or rule-set (their twins of the same length are among
	// the failing texts): whatever is remembered per file name and size shows as a result that depends on the order
	`5 // {or: [{type: "integer", min: 1}, {type: "string"}]}`, `5 // {or: [{type: "integer", max: 9}, {type: "string"}]}`,
	"{\n \"k\": 5 // {or: [{type: \"integer\", min: 1}, {type: \"boolean\"}]}\n}", `"ab" // {or: [{type: "string", maxLength: 2}, {type: "integer"}]}`,
}

// schemas the scanner rejects
var c10ScannerRejected = []string{
	``, ` `, `{"a":`, `[1,`, `{"a" 1}`, `tru`, `{"a":1}}`, `"abc`, `1 // {min: }`, `{} ##`, `[1 2]`, `{"a":1,}`, `1 /* {min: 1}`, `@`, `{"a": [1, {"b": ]}`,
	`{"a":{"b":{"c":{"d":[1,2,{"e":`, "{\n \"a\": 1 // {min: 0\n}", `1 // {min: 0} {max: 1}`, `01`, `[1]]`,
}

// schemas that pass the scanner and fail half-way inside the loader or later
var c10LoaderFailing = []string{
	`1 // {min: "x"}`, `{"a":1,"a":2}`, `1 // {enum: [1,1]}`, `1 // {foo: 1}`, "[\n 1, 2 // {min: 1}\n]", "{\n \"a\": 1, \"b\": 2 // {min: 1}\n}",
	`1 // {type: "strin"}`, `"a" // {minLength: -1}`, `1 // {min: 1, min: 2}`, `1 // {enum: @missing}`, `1 // {or: []}`, `1 // {or: [1]}`,
	`1 /* {min: "x"} */`, "{\n \"a\": 1 /* {foo: 1} */\n}", "{\"a\":[1,{\"b\": 2 // {precision: \"z\"}\n}]}", `1 // {optional: true}`,
	`"a" // {regex: 1}`, `1 // {type: "@nope"}`, `@missing`, `{"a": @missing | @other}`, `[1] // {minItems: "q"}`, `1 // {min: 5, max: 1}`,
	`"a" // {minLength: 5, maxLength: 1}`, `1 // {type: "string"}`, `{} // {allOf: "@nope"}`, `{@missing: 1}`, `1 // {enum: [1, {"a": 1}]}`,
	`1 // {const: true, min: 1}`, `1.5 // {type: "integer"}`, `{"a": 1 // {nullable: 5}` + "\n}", "{\n \"a\": [ // {maxItems: \"x\"}\n 1\n ]\n}",
	"{\n \"deep\": {\n  \"deeper\": {\n   \"k\": 1, \"k\": 2\n  }\n }\n}", `{"a": {"b": {"c": 1 /* {min: [} */}}}`, `1 // {or: [{type: "integer", foo: 1}]}`,
	`1 // {enum: []}`, `[] // {type: "object"}`, `1 // {serializeFormat: "x"}`, `{"a":1} // {additionalProperties: "nope"}`,
	`5 // {or: [{type: "integer", min: 9}, {type: "string"}]}`, `5 // {or: [{type: "integer", max: 1}, {type: "string"}]}`,
	"{\n \"k\": 5 // {or: [{type: \"integer\", min: 9}, {type: \"boolean\"}]}\n}", `"ab" // {or: [{type: "string", maxLength: 1}, {type: "integer"}]}`,
}

var c10Enums = []string{
	`[1,2,3]`, `["a","b"]`, `[1, "a", true, null, 1.5]`, "[\n 1, // one\n 2 // two\n]", "[\n // only a comment\n \"x\"\n]", `[]`, ``, ` `, `[1,1]`, `[1,`, `1`, `["a" "b"]`,
	`[{"a":1}]`, `[[1]]`, "[\n \"a\", /* multi\n line */\n \"b\"\n]", `[1] x`, `["a.b", 1.0, -0]`, "[ /* c *", `[tru]`,
}

var c10Regexes = []string{
	`/a/`, `/a[bc]{2}/`, `/^\d{3}-[a-f]+$/`, `/(foo|bar)+x?/`, `/[/`, `/a`, `a/`, ``, `//`, `/\//`, `/a/ trailing`, `/.{5}/`, `/[[:alpha:]]{1,4}\s\w/`, `/(?P<n>x)*/`, `/\p{Greek}+/`,
}

var c10RareRegexes = []string{`/[a-z]\b[a-z ]/`, `/[a-z ]\B[a-z]/`, `/^[a-y ]\b[a-y ]z$/`}

var c10Docs = []string{
	`1`, `"s"`, `{}`, `[]`, `{"a":[1,2,{"b":null}]}`, `[[[[1]]]]`, `{"a":`, `[1,]`, `tru`, `{"a":1} x`, ` [ 1 , "é\n" ] `, `{"a":1,"a":2}`, `-0.5e+3`, `1.`, ``, `{"k":"v"}}`,
}

var c10TypeTexts = []string{
	`1`, `"s" // {minLength: 1}`, `{"id": 1}`, `[1,2]`, `{"n": @a // {optional: true}` + "\n}", `@b`, `@a | @b`, `{"x": [@a]}`, `1 // {min: "x"}`, `{"a":1,"a":2}`, `{"a":`, ``,
	`1 // {enum: @e}`, `{} // {allOf: "@b"}`, `{"p": {"q": [1, {"r": "s"}]}}`, `// {type: "any"}`, `{"k": 1 // {foo: 1}` + "\n}",
}

var c10BadRules = []string{
	`{min: "x"}`, `{foo: 1}`, `{type: "strin"}`, `{enum: [1, 1]}`, `{min: 1, min: 2}`, `{optional: 5}`, `{regex: 1}`, `{minLength: -1}`, `{type: "@nope"}`, `{or: []}`, `{enum: @nope}`, `{min: [}`,
}

var c10GoodRules = []string{`{min: 0}`, `{max: 100}`, `{optional: true}`, `{nullable: true}`, `{type: "integer"}`, `{min: 0, max: 9}`, `{enum: [1, 2]}`, `{or: [{type: "integer"}, {type: "string"}]}`}

// c10Nest generates a schema of the given nesting depth, one element per line.
// breakLeaf >= 0 makes the leaf with that number carry a defect.
func c10Nest(rng *rand.Rand, depth int, breakLeaf int) string {
	var sb strings.Builder
	leaf := 0
	var val func(d int, ind string, last bool, key string)
	note := func(last bool) {
		if !last {
			sb.WriteByte(',')
		}
		defect := leaf == breakLeaf
		leaf++
		switch {
		case defect:
			bad := c10BadRules[rng.IntN(len(c10BadRules))]
			if rng.IntN(3) == 0 {
				sb.WriteString(" /* " + bad + " */")
			} else {
				sb.WriteString(" // " + bad)
			}
		case rng.IntN(4) == 0:
			good := c10GoodRules[rng.IntN(len(c10GoodRules))]
			if strings.Contains(good, "optional") || strings.Contains(good, "nullable") {
				good = `{min: 0}`
			}
			if rng.IntN(4) == 0 {
				sb.WriteString(" /* " + good + "\n */")
			} else {
				sb.WriteString(" // " + good + " - note")
			}
		}
	}
	val = func(d int, ind string, last bool, key string) {
		sb.WriteString(ind + key)
		if d == 0 {
			sb.WriteString(strconv.Itoa(rng.IntN(100)))
			note(last)
			sb.WriteByte('\n')
			return
		}
		n := 1 + rng.IntN(3)
		deepAt := rng.IntN(n)
		if rng.IntN(2) == 0 {
			sb.WriteString("{\n")
			for i := 0; i < n; i++ {
				cd := 0
				if i == deepAt {
					cd = d - 1
				}
				k := `"k` + strconv.Itoa(i) + `": `
				if leaf == breakLeaf && i > 0 && rng.IntN(4) == 0 {
					k = `"k0": ` // duplicate key
					breakLeaf = -1
				}
				val(cd, ind+"  ", i == n-1, k)
			}
			sb.WriteString(ind + "}")
		} else {
			sb.WriteString("[\n")
			for i := 0; i < n; i++ {
				cd := 0
				if i == deepAt {
					cd = d - 1
				}
				val(cd, ind+"  ", i == n-1, "")
			}
			sb.WriteString(ind + "]")
		}
		if !last {
			sb.WriteByte(',')
		}
		sb.WriteByte('\n')
	}
	val(depth, "", true, "")
	return sb.String()
}

func c10Proj(root string) *c10Input {
	return (&c10Input{Kind: "proj", Project: &project{Root: root}}).prepare()
}

// c10Universe builds the inputs of this shard: fixed ones (all shards), the
// shard's part of the corpus, and generated ones.
type c10Universe struct {
	fixed, corpus, generated []*c10Input
	all                      []*c10Input
	byID                     map[string]*c10Input
	skipped                  int64
}

func (u *c10Universe) add(list *[]*c10Input, in *c10Input, src string) {
	in.Source = src
	in.prepare()
	if !utf8.ValidString(in.raw()) {
		u.skipped++ // would not survive the JSON transport to the baseline process and into replay files
		return
	}
	if _, dup := u.byID[in.id]; dup {
		return
	}
	u.byID[in.id] = in
	*list = append(*list, in)
	u.all = append(u.all, in)
}

func c10RandScript(rng *rand.Rand, roots []string) *c10Input {
	in := &c10Input{Kind: "script", Text: roots[rng.IntN(len(roots))]}
	n := 3 + rng.IntN(8)
	names := []string{"@a", "@b", "@e", "@missing"}
	for i := 0; i < n; i++ {
		var s c10Step
		switch k := rng.IntN(12); {
		case k < 2:
			s = c10Step{Op: "AddRule", Name: "@e", Text: c10Enums[rng.IntN(len(c10Enums))]}
		case k < 5:
			s = c10Step{Op: "AddType", Name: names[rng.IntN(2)], Text: c10TypeTexts[rng.IntN(len(c10TypeTexts))]}
		case k < 6:
			s = c10Step{Op: "AddTypeRegex", Name: names[rng.IntN(2)], Text: c10Regexes[rng.IntN(len(c10Regexes))]}
		default:
			s = c10Step{Op: c10ProjSteps[rng.IntN(len(c10ProjSteps))]}
		}
		in.Steps = append(in.Steps, s)
	}
	return in
}

func c10BuildUniverse(r *mon.Run) *c10Universe {
	u := &c10Universe{byID: map[string]*c10Input{}}
	exIns, _ := c10ExhaustiveAlphabet()
	for _, in := range exIns {
		u.add(&u.fixed, in, "fixed: input of the exhaustive part")
	}
	for _, s := range c10Accepted {
		u.add(&u.fixed, c10Proj(s), "fixed: accepted")
	}
	// results larger than the pools' initial buffer sizes (512 bytes for examples, 1024 for OpenAPI helpers):
	// a grown pooled buffer is where "it was allocated just for this result" shortcuts go wrong
	for _, n := range []int{40, 120, 300, 700} {
		var items, members []string
		for i := 0; i < n; i++ {
			items = append(items, fmt.Sprintf("%d", 1000+i))
			members = append(members, fmt.Sprintf("%q: %q", fmt.Sprintf("key%03d", i), strings.Repeat("v", 6+i%5)))
		}
		u.add(&u.fixed, c10Proj("["+strings.Join(items, ", ")+"]"), "fixed: accepted, large example")
		u.add(&u.fixed, c10Proj("{"+strings.Join(members, ", ")+"}"), "fixed: accepted, large example")
		u.add(&u.fixed, c10Proj(`{"wrap": [`+strings.Join(items, ", ")+`], "s": "`+strings.Repeat("x", n*3)+`"}`), "fixed: accepted, large example")
		p := project{Root: `{"big": @big, "tail": [1, 2, 3]}`, Types: []typeDef{{Name: "@big", Text: "{" + strings.Join(members, ", ") + "}"}}}
		u.add(&u.fixed, &c10Input{Kind: "proj", Project: &p}, "fixed: project, large example")
	}
	for _, s := range c10ScannerRejected {
		u.add(&u.fixed, c10Proj(s), "fixed: scanner-rejected")
	}
	for _, s := range c10LoaderFailing {
		u.add(&u.fixed, c10Proj(s), "fixed: fails inside the loader or later")
	}
	for _, s := range c10Enums {
		u.add(&u.fixed, &c10Input{Kind: "enum", Text: s}, "fixed: enum rule")
	}
	for _, s := range c10Regexes {
		u.add(&u.fixed, &c10Input{Kind: "regex", Text: s}, "fixed: regex schema")
		// the same text with other generator seeds: another input, with its own examples
		u.add(&u.fixed, &c10Input{Kind: "regex", Text: s, Seed: 42}, "fixed: regex schema with a generator seed")
		u.add(&u.fixed, &c10Input{Kind: "regex", Text: s, Seed: 7}, "fixed: regex schema with a generator seed")
	}
	// patterns the example generator satisfies only now and then (it ignores the
	// assertions), so that some seeds give up: the remembered answer must stay
	for _, s := range c10RareRegexes {
		for seed := int64(1); seed <= 20; seed++ {
			u.add(&u.fixed, &c10Input{Kind: "regex", Text: s, Seed: seed}, "fixed: regex schema whose example is rarely found, with a generator seed")
		}
	}
	for _, s := range c10Docs {
		u.add(&u.fixed, &c10Input{Kind: "doc", Text: s}, "fixed: JSON document")
		u.add(&u.fixed, &c10Input{Kind: "doc", Text: s, Trailing: true}, "fixed: JSON document")
	}
	// a few fixed projects with types and rules
	fixedProjects := []project{
		{Root: `{"id": @t, "e": 1 // {enum: @e}` + "\n}", Types: []typeDef{{Name: "@t", Text: `{"n": [1, {"m": "x"}]}`}}, Rules: []typeDef{{Name: "@e", Text: `[1, 2, 3]`}}},
		{Root: `[@a, @b]`, Types: []typeDef{{Name: "@a", Text: `{"x": @b}`}, {Name: "@b", Text: `"s" // {minLength: 1}`}}},
		{Root: `{"a": @a}`, Types: []typeDef{{Name: "@a", Text: `1 // {min: "x"}`}}},
		{Root: `{"a": @a}`, Types: []typeDef{{Name: "@a", Text: `{"k":1,"k":2}`}}},
		{Root: `{"a": @a}`, Types: []typeDef{{Name: "@a", Text: `{"k":`}}},
		{Root: `1 // {enum: @e}`, Rules: []typeDef{{Name: "@e", Text: `[1,1]`}}},
		{Root: `1 // {enum: @e}`, Rules: []typeDef{{Name: "@e", Text: `[1,`}}},
		{Root: `{"r": @r}`, Types: []typeDef{{Name: "@r", Text: `/a[bc]{2}/`, Regex: true}}},
		{Root: `{"r": @r}`, Types: []typeDef{{Name: "@r", Text: `/[/`, Regex: true}}},
		{Root: `{} // {allOf: "@a"}`, Types: []typeDef{{Name: "@a", Text: `{"base": [1, [2, [3]]]}`}}},
		{Root: `{"self": @a}`, Types: []typeDef{{Name: "@a", Text: `{"next": @a // {optional: true}` + "\n}"}}},
		{Root: `{@k: 1}`, Types: []typeDef{{Name: "@k", Text: `"key" // {minLength: 1}`}}},
	}
	for i := range fixedProjects {
		p := fixedProjects[i]
		u.add(&u.fixed, &c10Input{Kind: "proj", Project: &p}, "fixed: project")
	}
	// corpus
	corpus := gen.Corpus(r.Repo)
	r.CountMax("max:corpus_literals", int64(len(corpus)))
	for i, lit := range corpus {
		if !r.Mine(i) {
			continue
		}
		u.add(&u.corpus, c10Proj(lit), "corpus literal as schema")
		t := strings.TrimLeft(lit, " \t\r\n")
		if t == "" {
			continue
		}
		switch t[0] {
		case '[':
			u.add(&u.corpus, &c10Input{Kind: "enum", Text: lit}, "corpus literal as enum rule")
			fallthrough
		case '{', '"':
			if !strings.Contains(lit, "//") && !strings.Contains(lit, "@") {
				u.add(&u.corpus, &c10Input{Kind: "doc", Text: lit}, "corpus literal as JSON document")
			}
		case '/':
			u.add(&u.corpus, &c10Input{Kind: "regex", Text: lit}, "corpus literal as regex schema")
		}
	}
	// generated
	rng := r.Rand("c10-universe")
	for i := 0; i < 70; i++ {
		depth := 1 + rng.IntN(8)
		br := -1
		if rng.IntN(2) == 0 {
			br = rng.IntN(2 + depth)
		}
		u.add(&u.generated, c10Proj(c10Nest(rng, depth, br)), "generated: nested schema, some with a defect at one leaf")
	}
	names := []string{"@a", "@b", "@c"}
	for i := 0; i < 60; i++ {
		k := 1 + rng.IntN(3)
		p := project{Root: instTemplate(refTemplates[rng.IntN(len(refTemplates))], names[rng.IntN(k)], names[rng.IntN(k)])}
		for j := 0; j < k; j++ {
			var t string
			switch rng.IntN(4) {
			case 0:
				t = c10TypeTexts[rng.IntN(len(c10TypeTexts))]
			case 1:
				t = c10Nest(rng, 1+rng.IntN(4), -1+rng.IntN(2)*rng.IntN(3))
			default:
				t = instTemplate(refTemplates[rng.IntN(len(refTemplates))], names[rng.IntN(k)], names[rng.IntN(k)])
			}
			p.Types = append(p.Types, typeDef{Name: names[j], Text: t})
		}
		if rng.IntN(3) == 0 {
			p.Rules = append(p.Rules, typeDef{Name: "@e", Text: c10Enums[rng.IntN(len(c10Enums))]})
			if rng.IntN(2) == 0 {
				p.Root = "{\n \"v\": 1, // {enum: @e}\n \"w\": " + strings.TrimSpace(p.Root) + "\n}"
			}
		}
		if rng.IntN(8) == 0 {
			p.Types = append(p.Types, typeDef{Name: "@r", Text: c10Regexes[rng.IntN(len(c10Regexes))], Regex: true})
		}
		u.add(&u.generated, &c10Input{Kind: "proj", Project: &p}, "generated: project of 1-3 referencing types")
	}
	roots := append(append(append([]string(nil), c10Accepted...), c10LoaderFailing...), `{"a": @a, "b": @b}`, `1 // {enum: @e}`, `[@a]`, `@a | @b`)
	for i := 0; i < 60; i++ {
		u.add(&u.generated, c10RandScript(rng, roots), "generated: script of late AddRule/AddType calls")
	}
	return u
}

func (u *c10Universe) pick(rng *rand.Rand) *c10Input {
	var l []*c10Input
	switch k := rng.IntN(20); {
	case k < 8 || len(u.corpus) == 0:
		l = u.fixed
	case k < 13:
		l = u.corpus
	default:
		l = u.generated
	}
	return l[rng.IntN(len(l))]
}

// c10RandHistory plans a history of 5..60 operations over 1..6 slots.
func c10RandHistory(rng *rand.Rand, u *c10Universe) *c10History {
	h := &c10History{Poison: rng.IntN(4) != 0, Source: "random history"}
	slots := 1 + rng.IntN(6)
	nops := 5 + rng.IntN(56)
	type liveT struct {
		in     *c10Input
		cursor int
	}
	live := make([]*liveT, slots)
	idx := map[string]int{}
	for len(h.Ops) < nops {
		s := rng.IntN(slots)
		l := live[s]
		if l == nil || rng.IntN(12) == 0 || (l.in.ordered && l.cursor >= len(l.in.names)) {
			in := u.pick(rng)
			i, ok := idx[in.id]
			if !ok {
				h.Inputs = append(h.Inputs, in)
				i = len(h.Inputs) - 1
				idx[in.id] = i
			}
			live[s] = &liveT{in: in}
			h.Ops = append(h.Ops, c10Op{Slot: s, New: i + 1})
			continue
		}
		var step string
		if l.in.ordered {
			step = l.in.names[l.cursor]
			l.cursor++
		} else {
			step = l.in.names[rng.IntN(len(l.in.names))]
		}
		h.Ops = append(h.Ops, c10Op{Slot: s, Step: step})
	}
	return h
}

// the fixed inputs and calls of the exhaustive part
type c10Sym struct {
	in   int
	step string
}

func c10ExhaustiveAlphabet() ([]*c10Input, []c10Sym) {
	p6 := project{Root: `{"id": @t, "e": 1 // {enum: @e}` + "\n}", Types: []typeDef{{Name: "@t", Text: `{"n": [1, {"m": "x"}]}`}}, Rules: []typeDef{{Name: "@e", Text: `[1, 2, 3]`}}}
	ins := []*c10Input{
		c10Proj(`{"a":[1,{"b":2}]}`),
		c10Proj(`[[[1,2],[3]],4]`),
		c10Proj(`1 /* {min: "x"} */`),
		c10Proj(`{"a":1,"a":2}`),
		c10Proj(`{"a":`),
		(&c10Input{Kind: "proj", Project: &p6}).prepare(),
		(&c10Input{Kind: "regex", Text: `/a[bc]{2}/`}).prepare(),
		(&c10Input{Kind: "enum", Text: "[1, \"a\" // c\n]"}).prepare(),
	}
	steps := [][]string{
		{"Example", "GetAST", "OpenAPI"},
		{"Example", "OpenAPI", "Deref"},
		{"Check", "Example", "GetAST"},
		{"Check", "Example", "Len"},
		{"Check", "Len", "Example"},
		{"Example", "OpenAPI", "Used"},
		{"Example", "GetAST", "OpenAPI"},
		{"Values", "GetAST", "Check"},
	}
	var syms []c10Sym
	for i := range ins {
		for _, s := range steps[i] {
			syms = append(syms, c10Sym{i, s})
		}
	}
	return ins, syms
}

func c10SeqHistory(ins []*c10Input, syms []c10Sym, seq []int, poison bool) *c10History {
	h := &c10History{Poison: poison, Source: "exhaustive sequence"}
	idx := map[int]int{}
	for _, si := range seq {
		sy := syms[si]
		if _, ok := idx[sy.in]; !ok {
			h.Inputs = append(h.Inputs, ins[sy.in])
			idx[sy.in] = len(h.Inputs)
			h.Ops = append(h.Ops, c10Op{Slot: sy.in, New: len(h.Inputs)})
		}
		h.Ops = append(h.Ops, c10Op{Slot: sy.in, Step: sy.step})
	}
	return h
}

func c10Hooks() {
	verifhook.SetPoolEvents(true)
	debug.SetGCPercent(-1) // collections only between histories
}

func c10Run(r *mon.Run) {
	c10Hooks()
	u := c10BuildUniverse(r)
	exIns, exSyms := c10ExhaustiveAlphabet()
	r.Count("inputs_skipped_not_valid_utf8", u.skipped)
	for _, in := range u.all {
		r.Count("inputs:"+in.Kind, 1)
	}

	t0 := time.Now()
	lap := func(what string) {
		fmt.Fprintf(os.Stderr, "c10 shard %d: %s done at %.1fs\n", r.Shard, what, time.Since(t0).Seconds())
	}
	// Phase A: first-sight digests, before any history; poison on. Each digest is
	// computed twice: an input whose own results vary from run to run cannot be
	// judged against a baseline.
	verifhook.SetPoolPoison(true)
	base := map[string]*c10Base{}
	st := c10NewState(r, func(in *c10Input) *c10Base { return base[in.id] })
	for _, in := range u.all {
		d := c10Digest(in)
		base[in.id] = &c10Base{parts: d}
		d2 := c10Digest(in)
		st.checkDirty("the first-sight digests of "+in.label, "one of the calls on the previous input", map[string]any{"first_sight": in})
		for _, k := range mon.SortedKeys(d) {
			if d[k] != d2[k] && !st.unstable[in.id] {
				st.mismatch(in, k, d[k], d2[k], nil, "on first sight in this process", "computed a second time right afterwards", map[string]any{"nondet": in})
			}
		}
		if in.Kind == "regex" && !st.unstable[in.id] {
			for _, k := range []string{"Example#2", "Example#3"} {
				if got, ok := d[k]; ok && got != d["Example#1"] {
					r.Violate("history-dependent", "Example of "+in.label+" asked again", fmt.Sprintf("Example() on %s answers %s the first time and %s when the same object is asked again (%s)", in.label, strconv.QuoteToASCII(mon.Trunc(d["Example#1"], 120)), strconv.QuoteToASCII(mon.Trunc(got, 120)), k), map[string]any{"first_sight": in})
				}
			}
		}
		r.Eval(1)
	}
	verifhook.SetPoolPoison(false)

	lap("phase A")
	// Phase B: fresh-process baselines, one input per process.
	rngB := r.Rand("c10-baseline")
	cand := append([]*c10Input(nil), u.all...)
	// fixed inputs are common to all shards: in the quick tier each shard baselines
	// its residue class of them only; the thorough tier baselines every input
	w := 0
	for i, in := range cand {
		if r.Quick() && i < len(u.fixed) && !r.Mine(i) {
			continue
		}
		cand[w] = in
		w++
	}
	cand = cand[:w]
	rngB.Shuffle(len(cand), func(i, j int) { cand[i], cand[j] = cand[j], cand[i] })
	// the inputs of the exhaustive part always get a true baseline
	cand = append(append([]*c10Input(nil), exIns...), cand...)
	nFresh := r.Pick(300, 2000)
	if nFresh > len(cand) {
		nFresh = len(cand)
	}
	if r.OneShot {
		nFresh = len(exIns)
	}
	for _, in := range cand[:nFresh] {
		if base[in.id].fresh {
			continue
		}
		d, err := c10FreshBaseline(r.Exe, in)
		if err != nil {
			r.Inconclusive("fresh-process baseline failed")
			r.Note("fresh-process baseline failed: " + err.Error())
			continue
		}
		r.Count("fresh_process_baselines", 1)
		first := base[in.id].parts
		for _, k := range mon.SortedKeys(d) {
			if first[k] != d[k] && !st.unstable[in.id] {
				var p *mon.Panic
				if strings.HasPrefix(first[k], "PANIC") {
					p = &mon.Panic{Value: first[k], Site: "?"}
				}
				st.mismatch(in, k, d[k], first[k], p, "as the first thing a fresh process does", "in a process that had handled other inputs before", map[string]any{"first_sight": in})
			}
		}
		base[in.id] = &c10Base{parts: d, fresh: true}
	}
	r.Count("inputs_with_first_sight_baseline_only", int64(len(u.all))-int64(countFresh(base)))

	old := runtime.GOMAXPROCS(1)
	defer runtime.GOMAXPROCS(old)

	one := func(h *c10History) {
		desc, _ := stdjson.Marshal(h)
		if !r.Begin(func() []byte { return desc }) {
			return
		}
		r.Eval(1)
		if st.run(h) {
			st.nontriv = append(st.nontriv, mon.Hash(string(desc)))
		}
		r.Count("histories:"+h.Source, 1)
		r.CountMax("max:operations_in_a_history", int64(len(h.Ops)))
	}

	lap("phase B")
	// exhaustive part: all sequences of <= L calls over the fixed alphabet
	L := r.Pick(3, 4)
	idx := 0
	var rec func(seq []int)
	rec = func(seq []int) {
		if len(seq) > 0 {
			if r.Mine(idx) {
				one(c10SeqHistory(exIns, exSyms, seq, idx%4 != 3))
			}
			idx++
		}
		if len(seq) == L {
			return
		}
		for s := range exSyms {
			rec(append(seq[:len(seq):len(seq)], s))
		}
	}
	rec(nil)
	r.CountMax("max:exhaustive_alphabet_calls", int64(len(exSyms)))

	lap("exhaustive part")
	// random histories
	rng := r.Rand("c10-histories")
	n := r.Share(r.Pick(60_000, 300_000))
	for i := 0; i < n; i++ {
		h := c10RandHistory(rng, u)
		if i == 0 && r.Shard < 3 {
			r.Sample(map[string]any{"history": c10Brief(h)})
		}
		one(h)
	}

	lap("random histories")
	c10SharedRun(r)
	lap("shared type objects")
	// hook counters: the monitors must have seen reuse actually happen
	pr, lr := verifhook.PoolReuses.Load(), verifhook.LoaderReuses.Load()
	r.Count("pool_gets", verifhook.PoolGets.Load())
	r.Count("pool_puts", verifhook.PoolPuts.Load())
	r.Count("pool_reuses", pr)
	r.Count("pool_cross_goroutine_handoffs", verifhook.PoolCrossHandoffs.Load())
	r.Count("loader_gets", verifhook.LoaderGets.Load())
	r.Count("loader_reuses", lr)
	r.Count("loader_dirty", verifhook.LoaderDirty.Load())
	r.Count("operations", st.ops)
	r.Count("kept_value_rechecks", st.rechecks)
	r.Count("results_compared_with_fresh_process_baseline", st.cmpFresh)
	r.Count("results_compared_with_first_sight_baseline", st.cmpFirst)
	r.Count("results_without_baseline", st.cmpNone)
	r.Count("panics_identical_to_baseline", st.samePanics)
	r.Count("results_not_compared_input_varies_between_identical_runs", st.cmpUnstable)
	r.Count("results_differing_only_in_a_heap_address_type_name", st.heapAddr)
	if !r.OneShot && (pr == 0 || lr == 0) {
		r.Note(fmt.Sprintf("SANITY: shard %d never saw a pooled object being reused (pool_reuses=%d loader_reuses=%d): the monitors observed nothing", r.Shard, pr, lr))
		return // no non-trivial case is claimed
	}
	for _, hsh := range st.nontriv {
		r.Nontrivial(hsh)
	}
}

func countFresh(base map[string]*c10Base) int {
	n := 0
	for _, b := range base {
		if b.fresh {
			n++
		}
	}
	return n
}

func c10Brief(h *c10History) []string {
	var out []string
	for _, op := range h.Ops {
		if op.New > 0 {
			out = append(out, fmt.Sprintf("slot %d := %s", op.Slot, mon.Trunc(h.Inputs[op.New-1].label, 60)))
		} else {
			out = append(out, fmt.Sprintf("slot %d . %s", op.Slot, op.Step))
		}
		if len(out) >= 12 {
			out = append(out, fmt.Sprintf("… (%d operations)", len(h.Ops)))
			break
		}
	}
	return out
}

func c10Replay(r *mon.Run, raw stdjson.RawMessage) {
	c10Hooks()
	var sh c10SharedCase
	if stdjson.Unmarshal(raw, &sh) == nil && sh.Kind == "shared-types" {
		c10SharedOne(r, sh)
		return
	}
	if sh.Kind == "shared-types-rebind" {
		c10SharedRebind(r, sh.Project, sh.Rebind)
		return
	}
	var fs struct {
		First  *c10Input `json:"first_sight"`
		Nondet *c10Input `json:"nondet"`
	}
	if stdjson.Unmarshal(raw, &fs) == nil && (fs.First != nil || fs.Nondet != nil) {
		// one input whose result differed from its baseline outside a recorded
		// history: digest the fixed inputs first (some history), then compare
		// repeated digests of the input with its fresh-process digest
		in := fs.First
		if in == nil {
			in = fs.Nondet
		}
		in.prepare()
		d, err := c10FreshBaseline(r.Exe, in)
		if err != nil {
			fmt.Println("fresh-process baseline failed:", err)
			return
		}
		st := c10NewState(r, nil)
		verifhook.SetPoolPoison(true)
		defer verifhook.SetPoolPoison(false)
		for _, s := range append(append([]string(nil), c10Accepted...), c10LoaderFailing...) {
			c10Digest(c10Proj(s))
		}
		for i := 0; i < 200; i++ {
			got := c10Digest(in)
			st.checkDirty("the digests of "+in.label, "an earlier digest", nil)
			for _, k := range mon.SortedKeys(d) {
				if got[k] != d[k] {
					var p *mon.Panic
					if strings.HasPrefix(got[k], "PANIC") {
						p = &mon.Panic{Value: got[k], Site: "?"}
					}
					st.mismatch(in, k, d[k], got[k], p, "as the first thing a fresh process does", fmt.Sprintf("recomputed in the replay process (round %d)", i), nil)
					return
				}
			}
		}
		fmt.Println("200 digests of the input in this process equal its fresh-process digest")
		return
	}
	var h c10History
	if err := stdjson.Unmarshal(raw, &h); err != nil || len(h.Ops) == 0 {
		var d struct {
			Desc []byte `json:"journal_desc_b64"`
		}
		if stdjson.Unmarshal(raw, &d) != nil || stdjson.Unmarshal(d.Desc, &h) != nil {
			fmt.Println("cannot decode the recorded case")
			return
		}
	}
	base := map[string]*c10Base{}
	all := append(append([]*c10History(nil), h.Before...), &h)
	h.Before = nil
	for _, x := range all {
		for _, in := range x.Inputs {
			in.prepare()
			if base[in.id] != nil {
				continue
			}
			d, err := c10FreshBaseline(r.Exe, in)
			if err != nil {
				fmt.Println("fresh-process baseline failed:", err)
				continue
			}
			base[in.id] = &c10Base{parts: d, fresh: true}
		}
	}
	st := c10NewState(r, func(in *c10Input) *c10Base { return base[in.id] })
	st.fresh = true
	old := runtime.GOMAXPROCS(1)
	defer runtime.GOMAXPROCS(old)
	nops := 0
	for _, x := range all {
		st.run(x)
		nops += len(x.Ops)
	}
	fmt.Printf("replayed %d histories (%d operations) from empty pools: pool reuses %d, loader reuses %d\n", len(all), nops, verifhook.PoolReuses.Load(), verifhook.LoaderReuses.Load())
}

func init() {
	register(&mon.CheckDef{
		ID:     "C10",
		Run:    c10Run,
		Replay: c10Replay,
		Rule: "histories of library calls over several live objects (schema projects = root + types + enum rules, bare roots with late AddRule/AddType scripts, enum rules, regex schemas, JSON documents) under four monitors: " +
			"(a) every returned value (Example/OpenAPI/Dereference bytes, AST trees, UsedUserTypes and enum Values lists, errors) and the text every schema and type object was created from is kept with a deep snapshot taken at return time and ALL kept values are re-compared after EVERY later operation; " +
			"(b) every result inside a history is compared with the result of the same call on the same input in a fresh process that does nothing else first (one child process per input; inputs without such a baseline are compared with their first-sight result computed before any history; the counters say how many of each); " +
			"(a') in the histories without buffer poisoning (1 of 4) every returned byte slice is instead overwritten by the harness right after it was rendered - the caller owns it - and no later result may change because of that; (c) hook H2 asserts that every loader taken from the pool is in reset state; (d) hook H1 overwrites a buffer with 0xDB when it is put back (3 of 4 histories), a result showing 0xDB 0xDB is a use-after-put. " +
			"A result that differs from its baseline is triaged before it is reported: if only the heap-address name of an unnamed type (#0x…) differs it is reported under one fixed key; if recomputing the input up to 150 times on fresh objects (and in 2 more fresh processes) gives more than one answer the input is nondeterministic by itself (clause nondeterministic, keyed by what differs, and the input is no longer compared); otherwise clause history-dependent (panic if the history result is a panic the baseline does not have). " +
			"The pools are emptied (two collections) before every 8th history and nothing is collected in between, GOMAXPROCS=1, so that sync.Pool reuse is certain and a history also meets what up to 7 earlier histories left in the pools; the hook counters report the reuse seen, and a shard that saw none claims no case. " +
			"Inputs: fixed accepted schemas of nesting depth 0..10, scanner-rejected texts, texts failing half-way inside the loader (rule errors in // and /* */ annotations, duplicate keys, bad enum, unknown rule, annotation on a two-element line), enum/regex/document texts, every literal of the repository's tests (as schema; as enum, regex, document where it looks like one), generated nested schemas with one defect, generated 1-3 type projects, generated call scripts. " +
			"(e) shared type objects: the type and rule objects of a project are registered in several roots one after the other (1-2 roots that lack some type and fail, then 1-3 complete roots; optionally the type objects' own Check() first and their Example/GetAST/Len between roots): every root must answer (Check, Example, AST, UsedUserTypes, OpenAPI) exactly like the same root over fresh objects; 13 hand-written allOf / reference shapes with every single withheld type, and 3k / 60k generated projects; the ASTs the type objects returned before the roots were built must still read the same at the end; in allOf-free projects further roots bind one name to another schema in turn (every other type object shared) and must answer like fresh objects with their binding. " +
			"Workload: all sequences of <= 3 (quick) / <= 4 (thorough) calls over a fixed alphabet of 24 calls on 8 inputs; 20k (quick) / 300k (thorough) random histories of 5..60 operations over 1..6 slots. distinct_nontrivial = distinct histories during which a pooled buffer or a pooled loader was reused.",
		MinNontrivialQuick: 15000, MinNontrivialThorough: 400000,
		Assumptions: []string{
			"single goroutine (concurrency is C11's)",
			"the caller does not write into returned values",
			"calls on one object whose results legitimately depend on that object's own earlier calls (late AddRule/AddType, the n-th RSchema.Example, NextLexeme) are compared with the same call list on a fresh object",
			"only part of the inputs has a fresh-process baseline (counter fresh_process_baselines); the others are compared with their first-sight result in the worker",
		},
		Exhaustive: "all call sequences of length <= 3 (quick) / <= 4 (thorough) over 24 calls on 8 fixed inputs (accepted object and array of different depth, loader failure inside a /* */ annotation, duplicate key, scanner-rejected text, project with type and enum rule, regex schema, enum rule)",
	})
}
