package props

import (
	"bytes"
	stdjson "encoding/json"
	"fmt"
	"io"
	"math/rand/v2"
	"strings"
	"unicode/utf8"

	schema "github.com/jsightapi/jsight-schema-core"
	"github.com/jsightapi/jsight-schema-core/notations/jschema"

	"verifharness/internal/mon"
)

// ---- reference side: the value a JSON text denotes, as encoding/json sees it ----

// c03Ref is one node of the reference tree: kinds o(bject) a(rray) s(tring)
// n(umber) b(oolean) z (null). Strings and keys are decoded, numbers raw.
type c03Ref struct {
	kind byte
	val  string // decoded string, raw number text, "true"/"false"/"null"
	keys []string
	kids []*c03Ref
}

// c03Parse decodes exactly one JSON value followed by nothing but blanks.
func c03Parse(doc []byte) (*c03Ref, error) {
	dec := stdjson.NewDecoder(bytes.NewReader(doc))
	dec.UseNumber()
	root, err := c03ParseValue(dec)
	if err != nil {
		return nil, err
	}
	if _, err := dec.Token(); err != io.EOF {
		return nil, fmt.Errorf("data after the top-level value")
	}
	return root, nil
}

func c03ParseValue(dec *stdjson.Decoder) (*c03Ref, error) {
	t, err := dec.Token()
	if err != nil {
		return nil, err
	}
	switch v := t.(type) {
	case stdjson.Delim:
		switch v {
		case '{':
			n := &c03Ref{kind: 'o'}
			for dec.More() {
				kt, err := dec.Token()
				if err != nil {
					return nil, err
				}
				k, ok := kt.(string)
				if !ok {
					return nil, fmt.Errorf("non-string key")
				}
				c, err := c03ParseValue(dec)
				if err != nil {
					return nil, err
				}
				n.keys = append(n.keys, k)
				n.kids = append(n.kids, c)
			}
			if _, err := dec.Token(); err != nil {
				return nil, err
			}
			return n, nil
		case '[':
			n := &c03Ref{kind: 'a'}
			for dec.More() {
				c, err := c03ParseValue(dec)
				if err != nil {
					return nil, err
				}
				n.kids = append(n.kids, c)
			}
			if _, err := dec.Token(); err != nil {
				return nil, err
			}
			return n, nil
		}
		return nil, fmt.Errorf("unexpected delimiter %q", rune(v))
	case string:
		return &c03Ref{kind: 's', val: v}, nil
	case stdjson.Number:
		return &c03Ref{kind: 'n', val: string(v)}, nil
	case bool:
		if v {
			return &c03Ref{kind: 'b', val: "true"}, nil
		}
		return &c03Ref{kind: 'b', val: "false"}, nil
	case nil:
		return &c03Ref{kind: 'z', val: "null"}, nil
	}
	return nil, fmt.Errorf("unexpected token %T", t)
}

// c03InScope tells whether the text belongs to the judged family: no exponent
// numbers, decoded keys distinct within every object.
func c03InScope(n *c03Ref) bool {
	switch n.kind {
	case 'n':
		return !strings.ContainsAny(n.val, "eE")
	case 'o':
		seen := map[string]bool{}
		for _, k := range n.keys {
			if seen[k] {
				return false
			}
			seen[k] = true
		}
	}
	for _, c := range n.kids {
		if !c03InScope(c) {
			return false
		}
	}
	return true
}

var c03KindName = map[byte]string{'o': "object", 'a': "array", 's': "string", 'n': "number", 'b': "boolean", 'z': "null"}

// c03Diff names the first difference between two reference trees ("" = same value,
// same key order, same literals).
func c03Diff(want, got *c03Ref, path string) string {
	if want.kind != got.kind {
		return fmt.Sprintf("at %s: %s became %s", path, c03KindName[want.kind], c03KindName[got.kind])
	}
	switch want.kind {
	case 'o':
		for i := range want.keys {
			if i >= len(got.keys) {
				return fmt.Sprintf("at %s: member %q is missing (%d members became %d)", path, want.keys[i], len(want.keys), len(got.keys))
			}
			if want.keys[i] != got.keys[i] {
				return fmt.Sprintf("at %s: member #%d has key %q instead of %q", path, i, got.keys[i], want.keys[i])
			}
		}
		if len(got.keys) > len(want.keys) {
			return fmt.Sprintf("at %s: %d members became %d", path, len(want.keys), len(got.keys))
		}
		for i := range want.kids {
			if d := c03Diff(want.kids[i], got.kids[i], fmt.Sprintf("%s.%q", path, want.keys[i])); d != "" {
				return d
			}
		}
	case 'a':
		if len(want.kids) != len(got.kids) {
			return fmt.Sprintf("at %s: %d elements became %d", path, len(want.kids), len(got.kids))
		}
		for i := range want.kids {
			if d := c03Diff(want.kids[i], got.kids[i], fmt.Sprintf("%s[%d]", path, i)); d != "" {
				return d
			}
		}
	default:
		if want.val != got.val {
			return fmt.Sprintf("at %s: %s %q became %q", path, c03KindName[want.kind], want.val, got.val)
		}
	}
	return ""
}

var c03TokenType = map[byte]schema.TokenType{'o': schema.TokenTypeObject, 'a': schema.TokenTypeArray, 's': schema.TokenTypeString,
	'n': schema.TokenTypeNumber, 'b': schema.TokenTypeBoolean, 'z': schema.TokenTypeNull}

// c03ASTDiff walks the AST in parallel with the reference tree and names the
// first difference as (clause, description).
func c03ASTDiff(want *c03Ref, an *schema.ASTNode, path string) (string, string) {
	if an.TokenType != c03TokenType[want.kind] {
		return "ast-shape", fmt.Sprintf("at %s: JSON %s has AST token type %q", path, c03KindName[want.kind], an.TokenType)
	}
	switch want.kind {
	case 'o', 'a':
		if len(an.Children) != len(want.kids) {
			return "ast-shape", fmt.Sprintf("at %s: %s with %d children has %d AST children", path, c03KindName[want.kind], len(want.kids), len(an.Children))
		}
		for i := range want.kids {
			p := fmt.Sprintf("%s[%d]", path, i)
			if want.kind == 'o' {
				if an.Children[i].Key != want.keys[i] {
					return "ast-key", fmt.Sprintf("at %s: member #%d has AST key %q, the decoded JSON key is %q", path, i, an.Children[i].Key, want.keys[i])
				}
				p = fmt.Sprintf("%s.%q", path, want.keys[i])
			}
			if c, w := c03ASTDiff(want.kids[i], &an.Children[i], p); c != "" {
				return c, w
			}
		}
	default:
		if len(an.Children) != 0 {
			return "ast-shape", fmt.Sprintf("at %s: scalar has %d AST children", path, len(an.Children))
		}
		if an.Value != want.val {
			return "ast-value", fmt.Sprintf("at %s: %s has AST value %q, the decoded JSON value is %q", path, c03KindName[want.kind], an.Value, want.val)
		}
	}
	return "", ""
}

// ---- the oracle ----------------------------------------------------------------

type c03Fail struct{ clause, key, what string }

// c03Judge runs Check/Example/GetAST on one JSON text and returns every clause
// that is refuted (at most one entry per clause). inScope=false means the text
// is not a member of the judged family (generator problem, never a verdict).
func c03Judge(doc []byte) (fails []c03Fail, inScope bool) {
	want, err := c03Parse(doc)
	if err != nil || !stdjson.Valid(doc) || !c03InScope(want) || len(doc) > 64<<10 {
		return nil, false
	}
	q := fmt.Sprintf("%q", mon.Trunc(string(doc), 160))
	var cerr, eerr, aerr error
	var ex []byte
	var ast schema.ASTNode
	stage := "New/Check"
	if p := mon.Guard(func() {
		s := jschema.New("root", append([]byte(nil), doc...))
		if cerr = s.Check(); cerr != nil {
			return
		}
		stage = "Example"
		var b []byte
		b, eerr = s.Example()
		ex = append([]byte(nil), b...) // the library hands out a pooled buffer
		stage = "GetAST"
		ast, aerr = s.GetAST()
	}); p != nil {
		return []c03Fail{{"panic", "jschema." + stage + "/" + p.Site, fmt.Sprintf("%s panicked on the plain JSON text %s: %s", stage, q, p.Value)}}, true
	}
	if cerr != nil {
		return []c03Fail{{"accept", "", fmt.Sprintf("Check() rejects the plain JSON text %s: %s", q, mon.Trunc(oneLine(cerr.Error()), 200))}}, true
	}
	switch {
	case eerr != nil:
		fails = append(fails, c03Fail{"example-error", "", fmt.Sprintf("Example() of the plain JSON schema %s fails: %s", q, mon.Trunc(oneLine(eerr.Error()), 200))})
	case !stdjson.Valid(ex):
		fails = append(fails, c03Fail{"example-json", "", fmt.Sprintf("Example() of %s is %q, which is not JSON", q, mon.Trunc(string(ex), 160))})
	default:
		got, perr := c03Parse(ex)
		if perr != nil {
			fails = append(fails, c03Fail{"example-json", "", fmt.Sprintf("Example() of %s is %q, which is not one JSON value: %v", q, mon.Trunc(string(ex), 160), perr)})
		} else if d := c03Diff(want, got, "$"); d != "" {
			fails = append(fails, c03Fail{"example-value", "", fmt.Sprintf("Example() of %s is %q, a different value: %s", q, mon.Trunc(string(ex), 160), d)})
		}
	}
	if aerr != nil {
		fails = append(fails, c03Fail{"ast-shape", "", fmt.Sprintf("GetAST() of %s fails after Check() succeeded: %s", q, mon.Trunc(oneLine(aerr.Error()), 200))})
	} else if c, w := c03ASTDiff(want, &ast, "$"); c != "" {
		fails = append(fails, c03Fail{c, "", fmt.Sprintf("GetAST() of %s: %s", q, w)})
	}
	return fails, true
}

func oneLine(s string) string {
	return strings.Join(strings.Fields(s), " ")
}

// ---- workload side: documents as trees of raw pieces, so that one value can be
// laid out in many ways and reduced when it fails -----------------------------------

// c03Node is a generated JSON value. Strings and keys are kept as lists of raw
// atoms (pieces of JSON string content, escapes unresolved).
type c03Node struct {
	kind  byte       // o a s n l(iteral)
	raw   string     // number text or true/false/null
	atoms []string   // string content
	keys  [][]string // object member keys
	kids  []*c03Node
}

func (n *c03Node) clone() *c03Node {
	c := &c03Node{kind: n.kind, raw: n.raw, atoms: append([]string(nil), n.atoms...)}
	for _, k := range n.keys {
		c.keys = append(c.keys, append([]string(nil), k...))
	}
	for _, k := range n.kids {
		c.kids = append(c.kids, k.clone())
	}
	return c
}

func c03Str(atoms ...string) *c03Node { return &c03Node{kind: 's', atoms: atoms} }
func c03Num(raw string) *c03Node      { return &c03Node{kind: 'n', raw: raw} }
func c03Obj(key []string, v *c03Node) *c03Node {
	return &c03Node{kind: 'o', keys: [][]string{key}, kids: []*c03Node{v}}
}
func c03Arr(v ...*c03Node) *c03Node { return &c03Node{kind: 'a', kids: v} }

// c03Layout says what goes into the gaps between tokens.
type c03Layout struct {
	Style   int    `json:"style"` // 0 none, 1 one element per line, 2 random blanks, 3 the same blank text in every gap
	NL      string `json:"nl,omitempty"`
	Indent  string `json:"indent,omitempty"`
	Uniform string `json:"uniform,omitempty"`
	Seed    uint64 `json:"seed,omitempty"`
}

type c03Writer struct {
	sb  strings.Builder
	lay c03Layout
	rng *rand.Rand
}

// gap kinds: 0 document start, 1 document end, 2 after an opening bracket (depth = inner),
// 3 before a closing bracket (depth = outer), 4 before comma, 5 after comma (depth = inner),
// 6 before colon, 7 after colon. Kinds 2 and 3 are only used for non-empty containers;
// 8 is the inside of an empty container.
func (w *c03Writer) gap(kind, depth int) {
	switch w.lay.Style {
	case 1:
		switch kind {
		case 2, 3, 5:
			w.sb.WriteString(w.lay.NL)
			w.sb.WriteString(strings.Repeat(w.lay.Indent, depth))
		case 7:
			w.sb.WriteByte(' ')
		case 1:
			w.sb.WriteString(w.lay.NL)
		}
	case 2:
		for n := w.rng.IntN(4); n > 1; n-- {
			w.sb.WriteByte(blanks[w.rng.IntN(4)])
		}
	case 3:
		w.sb.WriteString(w.lay.Uniform)
	}
}

func c03WriteString(sb *strings.Builder, atoms []string) {
	sb.WriteByte('"')
	for _, a := range atoms {
		sb.WriteString(a)
	}
	sb.WriteByte('"')
}

func (w *c03Writer) value(n *c03Node, depth int) {
	switch n.kind {
	case 'o', 'a':
		open, cl := byte('{'), byte('}')
		if n.kind == 'a' {
			open, cl = '[', ']'
		}
		w.sb.WriteByte(open)
		if len(n.kids) == 0 {
			w.gap(8, depth)
			w.sb.WriteByte(cl)
			return
		}
		w.gap(2, depth+1)
		for i, c := range n.kids {
			if i > 0 {
				w.gap(4, depth+1)
				w.sb.WriteByte(',')
				w.gap(5, depth+1)
			}
			if n.kind == 'o' {
				c03WriteString(&w.sb, n.keys[i])
				w.gap(6, depth+1)
				w.sb.WriteByte(':')
				w.gap(7, depth+1)
			}
			w.value(c, depth+1)
		}
		w.gap(3, depth)
		w.sb.WriteByte(cl)
	case 's':
		c03WriteString(&w.sb, n.atoms)
	default:
		w.sb.WriteString(n.raw)
	}
}

func c03Render(n *c03Node, lay c03Layout) []byte {
	w := &c03Writer{lay: lay}
	if lay.Style == 2 {
		w.rng = rand.New(rand.NewPCG(lay.Seed, 0xC03))
	}
	w.gap(0, 0)
	w.value(n, 0)
	w.gap(1, 0)
	return []byte(w.sb.String())
}

// c03U spells a \uXXXX escape (kept out of the source text so that no tool can resolve it).
func c03U(hex string) string { return "\\" + "u" + hex }

// The 20 atoms of the exhaustively enumerated family: a letter, the eight
// two-character escapes, an escaped NUL, e-acute escaped and raw, U+1F600 as an
// escaped surrogate pair and raw, and characters that mean something in JSight
// outside strings.
var c03Atoms = []string{"a", `\"`, `\\`, `\/`, `\b`, `\f`, `\n`, `\r`, `\t`, c03U("0000"), c03U("00e9"), "\xc3\xa9", c03U("d83d") + c03U("de00"), "\xf0\x9f\x98\x80",
	"/", "//", "#", "@a", "{", ":", "u003c"} // u003c: behind an escaped backslash it reads like the HTML-safe escape of '<'

// Further atoms used by the random generator only (all of them legal JSON string content).
var c03MoreAtoms = []string{"b", "n", "u", "t", "Z", "0", "9", " ", "  ", ",", "]", "}", "[", "*/", "/*", "-", ".", "'", "|", "$", "%", "<", "&", "=", "?", "~", "\x7f",
	"\xe2\x82\xac", c03U("20ac"), c03U("20AC"), c03U("00E9"), c03U("0022"), c03U("005c"), c03U("005C"), c03U("002f"), c03U("000a"), c03U("000D"), c03U("001f"), c03U("007f"), c03U("ffff"),
	c03U("D834") + c03U("DD1E"), "\xf0\x9d\x84\x9e", "\xe2\x80\xa8", "\xc2\xa0", "\xef\xbf\xbd",
	"true", "null", "1e5", "@", `\\n`, `\\\"`, "# c", "// c", "{}", "/*", "\\\\" + "u0041", "\\\\" + "u003e", "\\\\" + "u0026", "\\\\" + "u2028", ">", "u0026", "\\\\" + "n", "\\\\" + "\\\"", c03U("d800"), c03U("dc00"), c03U("0041"), c03U("dbff") + c03U("dfff"), c03U("D800") + c03U("DC00")}

func c03GenAtoms(rng *rand.Rand) []string {
	n := rng.IntN(5)
	if rng.IntN(40) == 0 {
		n = 5 + rng.IntN(36)
	}
	out := make([]string, 0, n)
	for ; n > 0; n-- {
		switch {
		case rng.IntN(3) > 0:
			out = append(out, c03Atoms[rng.IntN(len(c03Atoms))])
		default:
			out = append(out, c03MoreAtoms[rng.IntN(len(c03MoreAtoms))])
		}
	}
	return out
}

// c03GenNumber makes a JSON number without an exponent part.
func c03GenNumber(rng *rand.Rand) string {
	if rng.IntN(8) == 0 {
		return []string{"0", "-0", "0.0", "-0.0", "0.10", "0.00", "-0.000", "1.0", "10", "100.00", "0.1", "0.01", "-1"}[rng.IntN(13)]
	}
	var sb strings.Builder
	if rng.IntN(3) == 0 {
		sb.WriteByte('-')
	}
	if rng.IntN(4) == 0 {
		sb.WriteByte('0')
	} else {
		sb.WriteByte(byte('1' + rng.IntN(9)))
		k := rng.IntN(1 + rng.IntN(12))
		if rng.IntN(20) == 0 {
			k = 15 + rng.IntN(60)
		}
		sb.WriteString(randDigits(rng, k))
	}
	if rng.IntN(2) == 0 {
		sb.WriteByte('.')
		if rng.IntN(4) == 0 {
			sb.WriteString(strings.Repeat("0", 1+rng.IntN(4)))
		}
		k := 1 + rng.IntN(1+rng.IntN(10))
		if rng.IntN(20) == 0 {
			k = 15 + rng.IntN(60)
		}
		sb.WriteString(randDigits(rng, k))
		if rng.IntN(4) == 0 {
			sb.WriteString(strings.Repeat("0", 1+rng.IntN(4)))
		}
	}
	return sb.String()
}

func c03Decode(atoms []string) string {
	var s string
	stdjson.Unmarshal([]byte(`"`+strings.Join(atoms, "")+`"`), &s)
	return s
}

// c03Gen makes a value of nesting depth <= depth using at most *budget nodes.
func c03Gen(rng *rand.Rand, depth int, budget *int) *c03Node {
	*budget--
	k := rng.IntN(10)
	if (depth <= 0 || *budget <= 0) && k < 4 {
		k = 4 + rng.IntN(6)
	}
	switch {
	case k < 4:
		n := &c03Node{kind: 'a'}
		if k < 2 {
			n.kind = 'o'
		}
		cnt := rng.IntN(5)
		if rng.IntN(25) == 0 {
			cnt = 5 + rng.IntN(20)
		}
		seen := map[string]bool{}
		for i := 0; i < cnt && *budget > 0; i++ {
			if n.kind == 'o' {
				key := c03GenAtoms(rng)
				for seen[c03Decode(key)] {
					key = append(key, string(rune('a'+rng.IntN(26))))
				}
				seen[c03Decode(key)] = true
				n.keys = append(n.keys, key)
			}
			n.kids = append(n.kids, c03Gen(rng, depth-1, budget))
		}
		return n
	case k < 6:
		return &c03Node{kind: 's', atoms: c03GenAtoms(rng)}
	case k < 8:
		return c03Num(c03GenNumber(rng))
	case k == 8:
		return &c03Node{kind: 'l', raw: []string{"true", "false"}[rng.IntN(2)]}
	}
	return &c03Node{kind: 'l', raw: "null"}
}

func c03GenLayout(rng *rand.Rand) c03Layout {
	switch rng.IntN(3) {
	case 0:
		return c03Layout{}
	case 1:
		return c03Layout{Style: 1, NL: []string{"\n", "\r\n", "\r"}[rng.IntN(3)], Indent: []string{"  ", "\t", "", "    "}[rng.IntN(4)]}
	}
	return c03Layout{Style: 2, Seed: rng.Uint64()}
}

// ---- reduction of failing documents -----------------------------------------------

type c03State struct {
	r        *mon.Run
	memo     map[string]string // text -> "|clause|clause|" ("" = holds, "?" = out of scope)
	reported map[string]bool   // clause + NUL + key
	shrunk   map[string]int    // probes spent on whole-document reductions, per clause
	budget   int
	probes   int64
}

func (st *c03State) failing(doc []byte) string {
	if v, ok := st.memo[string(doc)]; ok {
		return v
	}
	st.probes++
	fails, in := c03Judge(doc)
	v := ""
	if !in {
		v = "?"
	} else if len(fails) > 0 {
		v = "|"
		for _, f := range fails {
			v += f.clause + "|"
		}
	}
	if len(st.memo) > 300_000 {
		st.memo = map[string]string{}
	}
	if len(doc) <= 256 {
		st.memo[string(doc)] = v
	}
	return v
}

func (st *c03State) failsWith(n *c03Node, lay c03Layout, clause string) bool {
	return strings.Contains(st.failing(c03Render(n, lay)), "|"+clause+"|")
}

// c03Walk visits every node with a setter that replaces it inside the tree.
func c03Walk(n *c03Node, set func(*c03Node), visit func(n *c03Node, set func(*c03Node))) {
	visit(n, set)
	for i := range n.kids {
		i := i
		c03Walk(n.kids[i], func(x *c03Node) { n.kids[i] = x }, visit)
	}
}

func c03KeysDistinct(n *c03Node) bool {
	seen := map[string]bool{}
	for _, k := range n.keys {
		d := c03Decode(k)
		if seen[d] {
			return false
		}
		seen[d] = true
	}
	return true
}

// c03Units cuts JSON string content into its units: one escape sequence (an
// escaped surrogate pair counts as one) or one character.
func c03Units(content string) []string {
	var out []string
	isU := func(s string, lo, hi string) bool {
		return len(s) >= 6 && s[0] == '\\' && s[1] == 'u' && strings.ToLower(s[2:4]) >= lo && strings.ToLower(s[2:4]) <= hi
	}
	for len(content) > 0 {
		n := 1
		switch {
		case isU(content, "d8", "db") && isU(content[6:], "dc", "df"):
			n = 12
		case isU(content, "00", "ff"):
			n = 6
		case content[0] == '\\' && len(content) >= 2:
			n = 2
		default:
			_, n = utf8.DecodeRuneInString(content)
		}
		out = append(out, content[:n])
		content = content[n:]
	}
	return out
}

// c03Simpler proposes a simpler spelling of one unit: the shortest spelling of
// the same character, or the letter a for another letter or digit.
func c03Simpler(unit string) string {
	rs := []rune(c03Decode([]string{unit}))
	if len(rs) != 1 {
		return ""
	}
	canon := string(rs[0])
	switch r := rs[0]; {
	case r == '"':
		canon = `\"`
	case r == '\\':
		canon = `\\`
	case r == '\b':
		canon = `\b`
	case r == '\f':
		canon = `\f`
	case r == '\n':
		canon = `\n`
	case r == '\r':
		canon = `\r`
	case r == '\t':
		canon = `\t`
	case r < 0x20:
		canon = c03U(fmt.Sprintf("%04x", r))
	}
	if canon != unit {
		return canon
	}
	if isPlainAtom(unit) && unit != "a" {
		return "a"
	}
	return ""
}

func isPlainAtom(a string) bool {
	return len(a) == 1 && (a[0] >= 'a' && a[0] <= 'z' || a[0] >= 'A' && a[0] <= 'Z' || a[0] >= '0' && a[0] <= '9')
}

// c03Candidates lists the one-step reductions of a tree, most drastic first.
// The order is fixed, so the reduction is a function of the input alone.
func c03Candidates(root *c03Node) []*c03Node {
	var out []*c03Node
	count := 0
	c03Walk(root, nil, func(*c03Node, func(*c03Node)) { count++ })
	// each candidate is produced by cloning the tree and editing the i-th node of the clone
	edit := func(idx int, f func(n *c03Node, set func(*c03Node)) bool) {
		c := root.clone()
		var holder = &c
		i := 0
		ok := false
		c03Walk(c, func(x *c03Node) { *holder = x }, func(n *c03Node, set func(*c03Node)) {
			if i == idx {
				ok = f(n, set)
			}
			i++
		})
		if ok {
			out = append(out, *holder)
		}
	}
	// 1. a sub-value instead of the whole document
	for i := 1; i < count; i++ {
		i := i
		c := root.clone()
		j := 0
		c03Walk(c, nil, func(n *c03Node, _ func(*c03Node)) {
			if j == i {
				out = append(out, n)
			}
			j++
		})
	}
	// 2. one member / element less
	for i := 0; i < count; i++ {
		var nk int
		j := 0
		c03Walk(root, nil, func(n *c03Node, _ func(*c03Node)) {
			if j == i {
				nk = len(n.kids)
			}
			j++
		})
		for d := 0; d < nk; d++ {
			d := d
			edit(i, func(n *c03Node, _ func(*c03Node)) bool {
				n.kids = append(n.kids[:d:d], n.kids[d+1:]...)
				if n.kind == 'o' {
					n.keys = append(n.keys[:d:d], n.keys[d+1:]...)
				}
				return true
			})
		}
	}
	// 3. a value replaced by 0
	for i := 0; i < count; i++ {
		edit(i, func(n *c03Node, set func(*c03Node)) bool {
			if set == nil || (n.kind == 'n' && n.raw == "0") {
				return false
			}
			set(c03Num("0"))
			return true
		})
	}
	// 3b. a number replaced by a simpler one
	for i := 0; i < count; i++ {
		for _, simple := range []string{"1", "-1", "0.1"} {
			simple := simple
			edit(i, func(n *c03Node, _ func(*c03Node)) bool {
				if n.kind != 'n' || n.raw == "0" || n.raw == "1" || n.raw == simple || (simple == "0.1" && n.raw == "-1") {
					return false
				}
				n.raw = simple
				return true
			})
		}
	}
	// 4. one atom less in a string or key; 5. a plain letter replaced by "a"
	for i := 0; i < count; i++ {
		var na int
		var nkeys []int
		j := 0
		c03Walk(root, nil, func(n *c03Node, _ func(*c03Node)) {
			if j == i {
				na = len(n.atoms)
				for _, k := range n.keys {
					nkeys = append(nkeys, len(k))
				}
			}
			j++
		})
		for a := 0; a < na; a++ {
			a := a
			edit(i, func(n *c03Node, _ func(*c03Node)) bool {
				n.atoms = append(n.atoms[:a:a], n.atoms[a+1:]...)
				return true
			})
		}
		for ki, kl := range nkeys {
			for a := 0; a < kl; a++ {
				ki, a := ki, a
				edit(i, func(n *c03Node, _ func(*c03Node)) bool {
					n.keys[ki] = append(n.keys[ki][:a:a], n.keys[ki][a+1:]...)
					return c03KeysDistinct(n)
				})
			}
		}
		// ... or two neighbouring atoms less (an escaped backslash and what follows it)
		for a := 0; a+1 < na; a++ {
			a := a
			edit(i, func(n *c03Node, _ func(*c03Node)) bool {
				n.atoms = append(n.atoms[:a:a], n.atoms[a+2:]...)
				return true
			})
		}
		for ki, kl := range nkeys {
			for a := 0; a+1 < kl; a++ {
				ki, a := ki, a
				edit(i, func(n *c03Node, _ func(*c03Node)) bool {
					n.keys[ki] = append(n.keys[ki][:a:a], n.keys[ki][a+2:]...)
					return c03KeysDistinct(n)
				})
			}
		}
		for a := 0; a < na; a++ {
			a := a
			edit(i, func(n *c03Node, _ func(*c03Node)) bool {
				x := c03Simpler(n.atoms[a])
				if x == "" {
					return false
				}
				n.atoms[a] = x
				return true
			})
		}
		for ki, kl := range nkeys {
			for a := 0; a < kl; a++ {
				ki, a := ki, a
				edit(i, func(n *c03Node, _ func(*c03Node)) bool {
					x := c03Simpler(n.keys[ki][a])
					if x == "" {
						return false
					}
					n.keys[ki][a] = x
					return c03KeysDistinct(n)
				})
			}
		}
	}
	return out
}

// shrink reduces a tree that fails with the clause under the layout until no
// one-step reduction fails with the same clause (or the probe budget is used up).
func (st *c03State) shrink(n *c03Node, lay c03Layout, clause string, budget int) *c03Node {
	n = n.clone()
	c03Walk(n, nil, func(x *c03Node, _ func(*c03Node)) {
		if x.kind == 's' {
			x.atoms = c03Units(strings.Join(x.atoms, ""))
		}
		for i := range x.keys {
			x.keys[i] = c03Units(strings.Join(x.keys[i], ""))
		}
	})
	for budget > 0 {
		progressed := false
		for _, c := range c03Candidates(n) {
			budget--
			if st.failsWith(c, lay, clause) {
				n, progressed = c, true
				break
			}
			if budget <= 0 {
				break
			}
		}
		if !progressed {
			break
		}
	}
	return n
}

// c03Leaves lists the smallest documents carrying one piece of the tree each:
// every key as {K:0}, every scalar as the root value.
func c03Leaves(root *c03Node) []*c03Node {
	var out []*c03Node
	c03Walk(root, nil, func(n *c03Node, _ func(*c03Node)) {
		for _, k := range n.keys {
			out = append(out, c03Obj(append([]string(nil), k...), c03Num("0")))
		}
		if n.kind != 'o' && n.kind != 'a' {
			out = append(out, n.clone())
		}
	})
	return out
}

func c03Key(doc []byte) string {
	if len(doc) <= 120 {
		return string(doc)
	}
	return fmt.Sprintf("%s… (%d bytes, sha256 %s)", doc[:60], len(doc), mon.Hash(string(doc)))
}

type c03Case struct {
	Doc    []byte `json:"doc"`
	Text   string `json:"text"`
	Source string `json:"source,omitempty"` // the document the witness was reduced from
}

// c03Doc judges one generated document and reports reduced witnesses.
func (st *c03State) doc(root *c03Node, lay c03Layout) {
	r := st.r
	doc := c03Render(root, lay)
	r.Eval(1)
	fails, in := c03Judge(doc)
	if !in {
		r.Inconclusive("generated-text-outside-the-family")
		return
	}
	if len(doc) <= 256 {
		v := ""
		for _, f := range fails {
			v += "|" + f.clause
		}
		if v != "" {
			v += "|"
		}
		st.memo[string(doc)] = v
	}
	for _, f := range fails {
		r.Count("failing_documents:"+f.clause, 1)
		if f.clause == "panic" {
			st.report(f.clause, f.key, f.what, doc, doc)
			continue
		}
		// (a) a single key or scalar of the document that fails on its own
		found := false
		seen := map[string]bool{}
		for _, leaf := range c03Leaves(root) {
			t := string(c03Render(leaf, c03Layout{}))
			if seen[t] {
				continue
			}
			seen[t] = true
			if st.failsWith(leaf, c03Layout{}, f.clause) {
				found = true
				st.reportTree(st.shrink(leaf, c03Layout{}, f.clause, 400), c03Layout{}, f.clause, doc)
			}
		}
		if found {
			continue
		}
		// (b) the failure needs structure or layout: reduce the whole document, as
		// long as this clause has reduction budget left in this shard (a frequent
		// structural defect must not turn the run into reduction work only; the
		// clause then already has reduced witnesses, the rest is counted)
		if st.shrunk[f.clause] >= st.budget {
			r.Count("failing_documents_not_reduced:"+f.clause, 1)
			continue
		}
		before := st.probes
		use := lay
		for _, l := range []c03Layout{{}, {Style: 3, Uniform: " "}, {Style: 3, Uniform: "\n"}, {Style: 3, Uniform: "\r\n"}, {Style: 3, Uniform: "\r"}, {Style: 3, Uniform: "\t"}} {
			if st.failsWith(root, l, f.clause) {
				use = l
				break
			}
		}
		st.reportTree(st.shrink(root, use, f.clause, 3000), use, f.clause, doc)
		st.shrunk[f.clause] += int(st.probes-before) + 1
	}
}

func (st *c03State) reportTree(n *c03Node, lay c03Layout, clause string, source []byte) {
	doc := c03Render(n, lay)
	key := c03Key(doc)
	if st.reported[clause+"\x00"+key] {
		st.r.Count("witnesses_reduced_to_an_already_reported_key:"+clause, 1)
		return
	}
	fails, _ := c03Judge(doc)
	for _, f := range fails {
		if f.clause == clause {
			st.report(clause, key, f.what, doc, source)
			return
		}
	}
}

func (st *c03State) report(clause, key, what string, doc, source []byte) {
	if key == "" {
		key = c03Key(doc)
	}
	if st.reported[clause+"\x00"+key] {
		return
	}
	st.reported[clause+"\x00"+key] = true
	cs := c03Case{Doc: doc, Text: string(doc)}
	if !bytes.Equal(doc, source) {
		cs.Source = mon.Trunc(string(source), 300)
	}
	st.r.Violate(clause, key, what, cs)
}

// ---- the run -------------------------------------------------------------------

// c03Family builds the documents that carry one string S of the exhaustive family.
func c03Family(atoms []string) []*c03Node {
	s := func() *c03Node { return c03Str(append([]string(nil), atoms...)...) }
	k := func() []string { return append([]string(nil), atoms...) }
	return []*c03Node{
		s(),                                // S
		c03Obj([]string{"k"}, s()),         // {"k":S}
		c03Obj([]string{"k"}, c03Arr(s())), // {"k":[S]}
		c03Obj(k(), c03Num("0")),           // {S:0}
		c03Obj([]string{"k"}, c03Arr(c03Obj(k(), c03Num("0")))), // {"k":[{S:0}]}
		c03Obj(k(), s()), // {S:S}
	}
}

func c03Run(r *mon.Run) {
	st := &c03State{r: r, memo: map[string]string{}, reported: map[string]bool{}, shrunk: map[string]int{}, budget: r.Pick(60_000, 250_000)}
	// (1) fixed corner documents
	if r.Shard == 0 {
		for _, t := range []string{`{}`, `[]`, `""`, `0`, `-0`, `0.10`, `0.0`, `-0.0`, `true`, `false`, `null`, `[[]]`, `[{}]`, `{"":{}}`, `{"":""}`, `[[[[[[[[]]]]]]]]`,
			`{"a":{"a":{"a":{"a":{"a":{"a":{"a":{"a":0}}}}}}}}`, `[null,true,false,0,"",{},[]]`, `12345678901234567890123456789012345678901234567890.12345678901234567890123456789012345678901234567890`,
			`{"a":1,"A":2,"b":{"a":1}}`, `{"k":[{"k":[{"k":[]}]}]}`} {
			root := c03FromText(t)
			for _, lay := range []c03Layout{{}, {Style: 1, NL: "\n", Indent: "  "}, {Style: 1, NL: "\r\n", Indent: "\t"}, {Style: 1, NL: "\r"}, {Style: 3, Uniform: " \t\r\n"}} {
				st.doc(root, lay)
				r.Nontrivial("d", string(c03Render(root, lay)))
			}
		}
	}
	// (2) exhaustive family: every string of <= L atoms in key and value position at depth 0-2
	L := r.Pick(3, 4)
	cnt := 0
	c03AtomSeqs(L, r.Shard, func(atoms []string) {
		for _, root := range c03Family(atoms) {
			st.doc(root, c03Layout{})
			r.Nontrivial("d", string(c03Render(root, c03Layout{})))
		}
		cnt++
		if cnt%2003 == 1 {
			r.Sample(map[string]any{"kind": "exhaustive family", "documents": []string{string(c03Render(c03Family(atoms)[4], c03Layout{})), string(c03Render(c03Family(atoms)[5], c03Layout{}))}})
		}
	})
	r.Count("exhaustive_strings", int64(cnt))
	r.CountMax("max:exhaustive_atoms", int64(L))
	// (3) generated documents x layouts
	rng := r.Rand("c03")
	n := r.Share(r.Pick(100_000, 3_000_000))
	for i := 0; i < n; i++ {
		budget := 200
		if rng.IntN(4) > 0 {
			budget = 1 + rng.IntN(40)
		}
		root := c03Gen(rng, 1+rng.IntN(8), &budget)
		lay := c03GenLayout(rng)
		doc := c03Render(root, lay)
		if len(doc) > 64<<10 {
			r.Count("skipped_over_64KiB", 1)
			continue
		}
		st.doc(root, lay)
		r.Nontrivial("d", string(doc))
		r.CountMax("max:document_bytes", int64(len(doc)))
		r.Count(fmt.Sprintf("layout_style_%d", lay.Style), 1)
		if i == 1 {
			r.Sample(map[string]any{"kind": "generated document", "layout": lay, "text": string(doc)})
		}
	}
	// (4) big documents: widths, depths and lengths around the usual thresholds
	{
		bi := 0
		big := func(t string) {
			if r.Mine(bi) {
				// judged as written (no tree model: a big witness is reported unreduced, keyed by its shape)
				r.Eval(1)
				fails, in := c03Judge([]byte(t))
				if !in {
					r.Inconclusive("big-text-outside-the-family")
				}
				for _, f := range fails {
					st.report(f.clause, fmt.Sprintf("big document %d bytes starting %s", len(t), mon.Trunc(t, 24)), f.what, []byte(t), []byte(t))
				}
				r.Nontrivial("d", t)
				r.Count("big_documents", 1)
			}
			bi++
		}
		scalars := []string{"1", `"s"`, "true", "null", "-0.50", `"\u00e9\n"`, "{}", "[]", "0.0"}
		for _, n := range []int{8, 9, 16, 17, 32, 33, 64, 65, 128, 129, 256, 257, 1025} {
			var items, members []string
			for i := 0; i < n; i++ {
				v := scalars[(i+n)%len(scalars)]
				items = append(items, v)
				members = append(members, fmt.Sprintf(`"k%d":%s`, i, v))
			}
			big("[" + strings.Join(items, ",") + "]")
			big("{" + strings.Join(members, ",") + "}")
			if n <= 257 {
				for _, inner := range []string{"1", `"x"`, "{}", "[]"} {
					big(strings.Repeat("[", n) + inner + strings.Repeat("]", n))
					big(strings.Repeat(`{"a":`, n) + inner + strings.Repeat("}", n))
				}
			}
			for _, unit := range []string{"a", "é", "😀", `\n`, `\u0041`, `\\`, `\"`, " ", "/"} {
				big(`"` + strings.Repeat(unit, n) + `"`)
				big(`{"` + strings.Repeat(unit, n) + `":"` + strings.Repeat(unit, n) + `"}`)
			}
			big(strings.Repeat("9", n))
			big("-" + strings.Repeat("9", n) + "." + strings.Repeat("0", n) + "1")
		}
	}
	// (5) sibling keys that collide under the common 32-bit string hashes (FNV-1a, FNV-1, Java hashCode, CRC-32,
	// djb2): an index keyed by a hash alone would call them duplicates
	if r.Shard == 0 {
		for _, pair := range [][]string{{"costarring", "liquid"}, {"declinate", "macallums"}, {"altarage", "zinke"}, {"altarages", "zinkes"},
			{"Aa", "BB"}, {"AaAa", "BBBB", "AaBB", "BBAa"}, {"plumless", "buckeroo"}, {"hetairas", "mentioner"}, {"heliotropes", "neurospora"},
			{"depravement", "serafins"}, {"stylist", "subgenera"}, {"joyful", "synaphea"}, {"redescribed", "urites"}, {"dram", "vivency"}} {
			var members, rev []string
			for i, k := range pair {
				members = append(members, fmt.Sprintf("%q:%d", k, i))
				rev = append([]string{fmt.Sprintf("%q:%q", k, "v")}, rev...)
			}
			for _, t := range []string{"{" + strings.Join(members, ",") + "}", "{" + strings.Join(rev, ",") + "}", `{"o":{` + strings.Join(members, ",") + `},"p":[{` + strings.Join(rev, ",") + `}]}`} {
				r.Eval(1)
				fails, in := c03Judge([]byte(t))
				if !in {
					r.Inconclusive("collision-text-outside-the-family")
				}
				for _, f := range fails {
					st.report(f.clause, "colliding keys "+strings.Join(pair, " / "), f.what, []byte(t), []byte(t))
				}
				r.Nontrivial("d", t)
				r.Count("hash_collision_key_documents", 1)
			}
		}
	}
	// (6) every \uXXXX escape (all 65536 code units, lower- and upper-case hex) as a value and as a key, alone and
	// next to a plain character
	for cu := 0; cu < 0x10000; cu++ {
		if !r.Mine(cu) {
			continue
		}
		hex := fmt.Sprintf("%04x", cu)
		if cu%2 == 1 {
			hex = strings.ToUpper(hex)
		}
		e := c03U(hex)
		outside := false
		for _, t := range []string{`["` + e + `"]`, `{"` + e + `":1,"z` + e + `":"` + e + `z"}`} {
			r.Eval(1)
			fails, in := c03Judge([]byte(t))
			if !in {
				outside = true
				continue
			}
			for _, f := range fails {
				st.report(f.clause, "escape "+e, f.what, []byte(t), []byte(t))
			}
			r.Nontrivial("d", t)
		}
		if outside {
			r.Count("code_unit_escapes_outside_the_family", 1)
		} else {
			r.Count("code_unit_escapes_judged", 1)
		}
	}
	r.Count("reduction_probes", st.probes)
}

// c03AtomSeqs enumerates every sequence of 0..maxLen atoms of the family that
// belongs to this shard (the empty sequence and single atoms go to shard 0).
func c03AtomSeqs(maxLen, shard int, visit func(atoms []string)) {
	if shard == 0 {
		visit(nil)
	}
	idx := 0
	var rec func(prefix []string)
	rec = func(prefix []string) {
		for _, a := range c03Atoms {
			seq := append(append([]string(nil), prefix...), a)
			switch len(seq) {
			case 1:
				if shard == 0 {
					visit(seq)
				}
				if maxLen > 1 {
					rec(seq)
				}
			case 2:
				mine := idx%mon.LogicalShards == shard
				idx++
				if mine {
					visit(seq)
					if maxLen > 2 {
						rec(seq)
					}
				}
			default:
				visit(seq)
				if len(seq) < maxLen {
					rec(seq)
				}
			}
		}
	}
	rec(nil)
}

// c03FromText turns a JSON text without escapes into a generator tree (used for
// the fixed corner documents only).
func c03FromText(t string) *c03Node {
	ref, err := c03Parse([]byte(t))
	if err != nil {
		panic("c03: bad corner document " + t)
	}
	var conv func(n *c03Ref) *c03Node
	conv = func(n *c03Ref) *c03Node {
		switch n.kind {
		case 'o', 'a':
			out := &c03Node{kind: n.kind}
			for i, c := range n.kids {
				if n.kind == 'o' {
					out.keys = append(out.keys, strings.Split(n.keys[i], ""))
				}
				out.kids = append(out.kids, conv(c))
			}
			return out
		case 's':
			return c03Str(strings.Split(n.val, "")...)
		case 'n':
			return c03Num(n.val)
		}
		return &c03Node{kind: 'l', raw: n.val}
	}
	return conv(ref)
}

func init() {
	register(&mon.CheckDef{
		ID:  "C03",
		Run: c03Run,
		Replay: func(r *mon.Run, raw stdjson.RawMessage) {
			var c c03Case
			stdjson.Unmarshal(raw, &c)
			r.Eval(1)
			fails, in := c03Judge(c.Doc)
			if !in {
				r.Inconclusive("replayed-text-outside-the-family")
				return
			}
			for _, f := range fails {
				key := f.key
				if key == "" {
					key = c03Key(c.Doc)
				}
				r.Violate(f.clause, key, f.what, c)
			}
		},
		Rule:               "each JSON text J (RFC 8259, no exponent numbers, decoded keys distinct per object, <= 64 KiB) is given to jschema.New(\"root\", J): Check() must succeed; Example() must succeed, be valid JSON (encoding/json.Valid) and decode to the same tree as J (kinds, decoded keys in order, decoded strings, raw number texts, literals); GetAST() must have the same shape with TokenType per kind, Children in order, Key = decoded key, Value = decoded string / raw number / literal. Workload: fixed corner documents x 5 layouts; every string of <= 3 (quick) / <= 4 (thorough) atoms out of 20 (letter, the eight two-character escapes, \\u0000, \\u00e9 and raw e-acute, an escaped surrogate pair and the raw emoji, / // # @a { :) placed as S, {\"k\":S}, {\"k\":[S]}, {S:0}, {\"k\":[{S:0}]}, {S:S}; 100k (quick) / 3M (thorough) generated documents (depth <= 8, <= 200 nodes, 76 string atoms incl. \\uXXXX forms of quote/backslash/controls, numbers incl. -0, 0.10, 0.0 and digit strings up to 75 digits) laid out without blanks, one element per line (LF/CRLF/CR, four indents) or with random runs of space/TAB/LF/CR in every gap. Failing documents are reduced (single key / scalar on its own, then atom-wise) before being reported. Plus objects whose sibling keys collide under the common 32-bit string hashes, and big documents judged as written: arrays / objects of 8..1025 members, nesting 8..257 deep, strings, keys and numbers of 8..1025 units (plain, multi-byte, escaped). distinct_nontrivial = distinct texts (hashed).",
		MinNontrivialQuick: 100000, MinNontrivialThorough: 2000000,
		Assumptions: []string{"encoding/json (Valid, Decoder with UseNumber) is the independent RFC 8259 decoder for J and for Example()",
			"\"same literals\" is judged on the raw number text (-0, 0.10 and long digit strings must come back unchanged)",
			"AST: only TokenType, Children, Key and Value are judged; SchemaType, Rules and Comment are not part of the property",
			"not judged: invalid UTF-8, lone surrogates, texts > 64 KiB, exponent numbers, duplicate keys (never generated)"},
		Exhaustive: "all strings of up to the stated number of atoms over the 20-atom alphabet, each in six key/value positions at nesting depth 0-2",
	})
}
