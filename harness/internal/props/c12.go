package props

import (
	"bytes"
	stdjson "encoding/json"
	"errors"
	"fmt"
	"io"
	"math/rand/v2"
	"strings"

	schema "github.com/jsightapi/jsight-schema-core"
	jdoc "github.com/jsightapi/jsight-schema-core/formats/json"
	"github.com/jsightapi/jsight-schema-core/fs"
	"github.com/jsightapi/jsight-schema-core/lexeme"
	"github.com/jsightapi/jsight-schema-core/verifhook"

	"verifharness/internal/gen"
	"verifharness/internal/mon"
)

const blanks = " \t\r\n"

// refTokens renders the token stream of a valid JSON text with encoding/json:
// keys and strings decoded, numbers raw.
func refTokens(doc []byte) (string, error) {
	dec := stdjson.NewDecoder(bytes.NewReader(doc))
	dec.UseNumber()
	var sb strings.Builder
	type frame struct {
		obj    bool
		expKey bool
	}
	var st []frame
	val := func() {
		if n := len(st); n > 0 && st[n-1].obj {
			st[n-1].expKey = true
		}
	}
	depth := 0
	for {
		t, err := dec.Token()
		if err == io.EOF {
			break
		}
		if err != nil {
			return "", err
		}
		switch v := t.(type) {
		case stdjson.Delim:
			switch v {
			case '{':
				sb.WriteString("{ ")
				st = append(st, frame{obj: true, expKey: true})
				depth++
			case '[':
				sb.WriteString("[ ")
				st = append(st, frame{})
				depth++
			case '}', ']':
				sb.WriteString(string(rune(v)) + " ")
				st = st[:len(st)-1]
				depth--
				val()
			}
		case string:
			if n := len(st); n > 0 && st[n-1].obj && st[n-1].expKey {
				fmt.Fprintf(&sb, "k:%q ", v)
				st[n-1].expKey = false
			} else {
				fmt.Fprintf(&sb, "s:%q ", v)
				val()
			}
		case stdjson.Number:
			fmt.Fprintf(&sb, "n:%s ", string(v))
			val()
		case bool:
			fmt.Fprintf(&sb, "b:%v ", v)
			val()
		case nil:
			sb.WriteString("z ")
			val()
		}
		if depth == 0 {
			break // first top-level value only
		}
	}
	return sb.String(), nil
}

// lexTokens drives NextLexeme to the end, checks nesting and spans, and renders
// the same token stream from the lexemes.
// c12Between, when set, runs after every NextLexeme call of lexTokens: work on
// other documents in the middle of a walk.
var c12Between func()

var c12Companions = []string{`{"k":2}`, `[1,[true,"s"],{}]`, `"s"`, `[1`, `{"a":[null,{"b":-1.5e3}]} x`}

func lexTokens(doc []byte, trailing bool) (tokens string, problem string, p *mon.Panic) {
	var opts []jdoc.Option
	if trailing {
		opts = append(opts, jdoc.AllowTrailingNonSpaceCharacters())
	}
	var sb strings.Builder
	p = mon.Guard(func() {
		d := jdoc.New("doc", doc, opts...)
		var stack []lexeme.LexEvent
		n := len(doc)
		steps := 0
		for {
			lex, err := d.NextLexeme()
			if c12Between != nil {
				c12Between()
			}
			if err != nil {
				if !errors.Is(err, io.EOF) {
					problem = "lexeme-error: NextLexeme failed on a document Check() accepts: " + err.Error()
				}
				break
			}
			steps++
			if steps > 4*n+16 {
				problem = "lexeme-progress: more lexemes than 4*len+16"
				return
			}
			b, e := int(lex.Begin()), int(lex.End())
			if b < 0 || e < b || e >= n {
				problem = fmt.Sprintf("lexeme-span: %s outside the content (len %d)", lex.String(), n)
				return
			}
			t := lex.Type()
			if t.IsOpening() {
				stack = append(stack, lex)
				switch t {
				case lexeme.ObjectBegin:
					sb.WriteString("{ ")
				case lexeme.ArrayBegin:
					sb.WriteString("[ ")
				}
				continue
			}
			if len(stack) == 0 {
				problem = fmt.Sprintf("lexeme-nesting: closing %s without an opening", lex.String())
				return
			}
			top := stack[len(stack)-1]
			stack = stack[:len(stack)-1]
			wantOpen := map[lexeme.LexEventType]lexeme.LexEventType{
				lexeme.LiteralEnd: lexeme.LiteralBegin, lexeme.ObjectEnd: lexeme.ObjectBegin, lexeme.ArrayEnd: lexeme.ArrayBegin,
				lexeme.ObjectKeyEnd: lexeme.ObjectKeyBegin, lexeme.ObjectValueEnd: lexeme.ObjectValueBegin, lexeme.ArrayItemEnd: lexeme.ArrayItemBegin}[t]
			if top.Type() != wantOpen {
				problem = fmt.Sprintf("lexeme-nesting: %s closes %s", lex.String(), top.String())
				return
			}
			if b != int(top.Begin()) {
				problem = fmt.Sprintf("lexeme-span: %s does not start where %s started", lex.String(), top.String())
				return
			}
			raw := doc[b : e+1]
			switch t {
			case lexeme.ObjectEnd:
				if raw[0] != '{' || raw[len(raw)-1] != '}' {
					problem = fmt.Sprintf("lexeme-span: object lexeme covers %q", mon.Trunc(string(raw), 60))
					return
				}
				sb.WriteString("} ")
			case lexeme.ArrayEnd:
				if raw[0] != '[' || raw[len(raw)-1] != ']' {
					problem = fmt.Sprintf("lexeme-span: array lexeme covers %q", mon.Trunc(string(raw), 60))
					return
				}
				sb.WriteString("] ")
			case lexeme.LiteralEnd:
				if !stdjson.Valid(raw) || bytes.ContainsAny(raw[:1], blanks) || bytes.ContainsAny(raw[len(raw)-1:], blanks) {
					problem = fmt.Sprintf("literal-span: literal lexeme covers %q, which is not exactly one JSON literal", mon.Trunc(string(raw), 60))
					return
				}
				isKey := len(stack) > 0 && stack[len(stack)-1].Type() == lexeme.ObjectKeyBegin
				switch {
				case raw[0] == '"':
					var s string
					stdjson.Unmarshal(raw, &s)
					if isKey {
						fmt.Fprintf(&sb, "k:%q ", s)
					} else {
						fmt.Fprintf(&sb, "s:%q ", s)
					}
				case raw[0] == 't' || raw[0] == 'f':
					fmt.Fprintf(&sb, "b:%s ", raw)
				case raw[0] == 'n':
					sb.WriteString("z ")
				default:
					fmt.Fprintf(&sb, "n:%s ", raw)
				}
				if isKey != (len(stack) > 0 && stack[len(stack)-1].Type() == lexeme.ObjectKeyBegin) {
					problem = "lexeme-nesting: key literal outside key"
				}
			case lexeme.ObjectKeyEnd:
				if raw[0] != '"' || raw[len(raw)-1] != '"' || !stdjson.Valid(raw) {
					problem = fmt.Sprintf("literal-span: key lexeme covers %q", mon.Trunc(string(raw), 60))
					return
				}
				var ks string
				stdjson.Unmarshal(raw, &ks)
				fmt.Fprintf(&sb, "k:%q ", ks)
			case lexeme.ObjectValueEnd, lexeme.ArrayItemEnd:
				if !stdjson.Valid(raw) {
					problem = fmt.Sprintf("lexeme-span: %s covers %q, not one JSON value", t.String(), mon.Trunc(string(raw), 60))
					return
				}
			}
		}
		if problem == "" && len(stack) != 0 {
			problem = fmt.Sprintf("lexeme-nesting: %d lexemes left open at the end (%s)", len(stack), stack[len(stack)-1].String())
		}
	})
	return sb.String(), problem, p
}

// refStrict / refTrailing: the reference verdicts.
func refTrailing(doc []byte) (ok bool, end int) {
	dec := stdjson.NewDecoder(bytes.NewReader(doc))
	var v stdjson.RawMessage
	if err := dec.Decode(&v); err != nil {
		return false, 0
	}
	return true, int(dec.InputOffset())
}

type c12Case struct {
	Doc      []byte `json:"doc"`
	Trailing bool   `json:"trailing"`
}

// c12Doc judges one document in one mode. It returns whether both the library
// and the reference rejected the text because of an offending byte (as opposed
// to end of input), i.e. whether no extension of the text can be accepted.
func c12Doc(r *mon.Run, doc []byte, trailing bool) (deadPrefix bool) {
	r.Eval(1)
	cs := c12Case{Doc: doc, Trailing: trailing}
	mode := "strict"
	if trailing {
		mode = "trailing"
	}
	key := mode + " " + string(doc)
	var opts []jdoc.Option
	if trailing {
		opts = append(opts, jdoc.AllowTrailingNonSpaceCharacters())
	}
	var err error
	var ln uint
	var lerr error
	if p := mon.Guard(func() {
		d := jdoc.New("doc", doc, opts...)
		err = d.Check()
		ln, lerr = d.Len()
	}); p != nil {
		r.Violate("panic", "json.Document/"+p.Site, fmt.Sprintf("Document Check/Len (%s) panicked on %q: %s", mode, mon.Trunc(string(doc), 80), p.Value), cs)
		return false
	}
	// order of calls on one Document object: Len() before Check(), Check() twice, NextLexeme to the end before
	// Check() - the answers must be those of the fresh object above
	if len(doc) <= 4 || doc[len(doc)/2]%8 == byte(len(doc)%8) {
		var err2, err3, err4, lerr2, lerr3, lerr4 error
		var ln2, ln3, ln4 uint
		if p := mon.Guard(func() {
			d2 := jdoc.FromFile(fs.NewFile("doc", doc), opts...) // the other public constructor
			ln2, lerr2 = d2.Len()
			err2 = d2.Check()
			err3 = d2.Check()
			ln3, lerr3 = d2.Len()
			d3 := jdoc.New("doc", string(doc), opts...) // content given as a string
			for i := 0; i <= 2*len(doc)+4; i++ {
				if _, e := d3.NextLexeme(); e != nil {
					break
				}
			}
			err4 = d3.Check()
			d4 := jdoc.New("doc", string(doc), opts...) // the first Len() comes after the caller has read every lexeme
			for i := 0; i <= 2*len(doc)+4; i++ {
				if _, e := d4.NextLexeme(); e != nil {
					break
				}
			}
			ln4, lerr4 = d4.Len()
		}); p != nil {
			r.Violate("panic", "json.Document(call order)/"+p.Site, fmt.Sprintf("Document Len/Check/NextLexeme in another order (%s) panicked on %q: %s", mode, mon.Trunc(string(doc), 80), p.Value), cs)
			return false
		}
		r.Count("call_order_variants_compared", 1)
		switch {
		case (err2 == nil) != (err == nil) || (err3 == nil) != (err == nil):
			r.Violate("call-order", key, fmt.Sprintf("Document(%s) %q: Check() on a fresh object: %v; after Len() on the same object: %v, repeated: %v", mode, mon.Trunc(string(doc), 80), err, err2, err3), cs)
			return false
		case (err4 == nil) != (err == nil):
			r.Violate("call-order", key, fmt.Sprintf("Document(%s) %q: Check() on a fresh object: %v; after reading all lexemes from the same object: %v", mode, mon.Trunc(string(doc), 80), err, err4), cs)
			return false
		case err == nil && ((lerr2 == nil) != (lerr == nil) || ln2 != ln || (lerr3 == nil) != (lerr == nil) || ln3 != ln):
			r.Violate("call-order", key, fmt.Sprintf("Document(%s) %q: Len() after Check() = %d (%v); Len() first = %d (%v); Len() again = %d (%v)", mode, mon.Trunc(string(doc), 80), ln, lerr, ln2, lerr2, ln3, lerr3), cs)
			return false
		case (lerr4 == nil) != (lerr2 == nil) || ln4 != ln2:
			r.Violate("call-order", key, fmt.Sprintf("Document(%s) %q: Len() first = %d (%v); first Len() after reading all lexemes from the same object = %d (%v)", mode, mon.Trunc(string(doc), 80), ln2, lerr2, ln4, lerr4), cs)
			return false
		}
	}
	var want bool
	var wantLen int
	if trailing {
		want, wantLen = refTrailing(doc)
	} else {
		want = stdjson.Valid(doc)
		wantLen = len(bytes.TrimRight(doc, blanks))
	}
	if (err == nil) != want {
		r.Violate("accept-"+mode, string(doc), fmt.Sprintf("Document(%s).Check() on %q: accepted=%v (%v); independent decoder says %v", mode, mon.Trunc(string(doc), 80), err == nil, err, want), cs)
		return false
	}
	if err != nil {
		// dead prefix? library: a positioned error strictly before the end; reference: a syntax error about a character
		var se *stdjson.SyntaxError
		refHard := false
		uerr := stdjson.Unmarshal(doc, new(any))
		if errors.As(uerr, &se) && !strings.Contains(se.Error(), "unexpected end") {
			refHard = true
		}
		libHard := !strings.Contains(err.Error(), "nexpected end") && len(doc) > 0
		type indexer interface{ Index() uint }
		return refHard && libHard && !trailing
	}
	if lerr != nil || int(ln) != wantLen {
		r.Violate("len-"+mode, key, fmt.Sprintf("Document(%s).Len() on %q = %d (%v); the value ends at %d", mode, mon.Trunc(string(doc), 80), ln, lerr, wantLen), cs)
	}
	got, problem, p := lexTokens(doc, trailing)
	if p != nil {
		r.Violate("panic", "json.Document.NextLexeme/"+p.Site, fmt.Sprintf("NextLexeme panicked on %q: %s", mon.Trunc(string(doc), 80), p.Value), cs)
		return false
	}
	if problem != "" {
		r.Violate(problem[:strings.Index(problem, ":")], key, fmt.Sprintf("%q: %s", mon.Trunc(string(doc), 80), problem), cs)
		return false
	}
	wantTok, terr := refTokens(doc)
	if terr != nil {
		r.Inconclusive("reference-token-stream")
		return false
	}
	if got != wantTok {
		r.Violate("tree", key, fmt.Sprintf("%q: tree rebuilt from lexemes is %s; independent decoder gives %s", mon.Trunc(string(doc), 80), mon.Trunc(got, 200), mon.Trunc(wantTok, 200)), cs)
		return false
	}
	// several documents in flight: the same walk with another document stepped
	// (created, checked, measured) between any two lexemes gives the same stream
	if len(doc) <= 4 || doc[len(doc)/2]%8 == byte(len(doc)%8) {
		comp := c12Companions[len(doc)%len(c12Companions)]
		var other schema.Document
		k := 0
		c12Between = func() {
			k++
			if other == nil {
				other = jdoc.New("other", comp, jdoc.AllowTrailingNonSpaceCharacters())
				if k%2 == 0 {
					_ = other.Check()
				}
				if k%3 == 0 {
					_, _ = other.Len()
				}
			}
			if _, e := other.NextLexeme(); e != nil {
				other = nil
			}
		}
		got2, problem2, p2 := lexTokens(doc, trailing)
		c12Between = nil
		r.Count("walks_repeated_with_another_document_in_flight", 1)
		switch {
		case p2 != nil:
			r.Violate("panic", "json.Document.NextLexeme(interleaved)/"+p2.Site, fmt.Sprintf("NextLexeme panicked on %q while %q was being walked in between: %s", mon.Trunc(string(doc), 80), comp, p2.Value), cs)
		case problem2 != "" || got2 != got:
			r.Violate("interleaved", key, fmt.Sprintf("%q walked alone gives %s; with the document %q stepped between its lexemes: %s %s", mon.Trunc(string(doc), 80), mon.Trunc(got, 160), comp, mon.Trunc(got2, 160), problem2), cs)
		}
	}
	return false
}

// ---- generators ---------------------------------------------------------------

func genJSONValue(rng *rand.Rand, depth int, sb *strings.Builder, ws func()) {
	k := rng.IntN(10)
	if depth <= 0 && k < 4 {
		k = 4 + rng.IntN(6)
	}
	switch {
	case k < 2:
		sb.WriteByte('{')
		ws()
		n := rng.IntN(4)
		for i := 0; i < n; i++ {
			if i > 0 {
				sb.WriteByte(',')
				ws()
			}
			genJSONString(rng, sb, fmt.Sprintf("k%d", i))
			ws()
			sb.WriteByte(':')
			ws()
			genJSONValue(rng, depth-1, sb, ws)
			ws()
		}
		sb.WriteByte('}')
	case k < 4:
		sb.WriteByte('[')
		ws()
		n := rng.IntN(4)
		for i := 0; i < n; i++ {
			if i > 0 {
				sb.WriteByte(',')
				ws()
			}
			genJSONValue(rng, depth-1, sb, ws)
			ws()
		}
		sb.WriteByte(']')
	case k < 6:
		genJSONString(rng, sb, "")
	case k < 8:
		sb.WriteString(randNumber(rng, 400))
	case k == 8:
		sb.WriteString([]string{"true", "false"}[rng.IntN(2)])
	default:
		sb.WriteString("null")
	}
}

var strAtoms = []string{"a", "Z", "0", " ", `\"`, `\\`, `\/`, `\b`, `\f`, `\n`, `\r`, `\t`, `\u0000`, "\\u00e9", "\\ud83d\\ude00", `\ud800`, "é", "€", "😀", "/", "//", "#", "@a", "{", ":", ",", "]", "*/", "-", "."}

func genJSONString(rng *rand.Rand, sb *strings.Builder, prefix string) {
	sb.WriteByte('"')
	sb.WriteString(prefix)
	for n := rng.IntN(5); n > 0; n-- {
		sb.WriteString(strAtoms[rng.IntN(len(strAtoms))])
	}
	sb.WriteByte('"')
}

func randWS(rng *rand.Rand, level int) func(sb *strings.Builder) {
	return func(sb *strings.Builder) {
		switch level {
		case 0:
		case 1:
			if rng.IntN(3) == 0 {
				sb.WriteByte(' ')
			}
		default:
			for n := rng.IntN(3); n > 0; n-- {
				sb.WriteByte(blanks[rng.IntN(4)])
			}
		}
	}
}

func mutateBytes(rng *rand.Rand, b []byte, alpha []byte) []byte {
	out := append([]byte(nil), b...)
	if len(out) == 0 {
		return []byte{alpha[rng.IntN(len(alpha))]}
	}
	switch rng.IntN(5) {
	case 0: // delete
		i := rng.IntN(len(out))
		out = append(out[:i], out[i+1:]...)
	case 1: // insert
		i := rng.IntN(len(out) + 1)
		out = append(out[:i], append([]byte{alpha[rng.IntN(len(alpha))]}, out[i:]...)...)
	case 2: // substitute
		out[rng.IntN(len(out))] = alpha[rng.IntN(len(alpha))]
	case 3: // truncate
		out = out[:rng.IntN(len(out)+1)]
	default: // duplicate a span
		i := rng.IntN(len(out))
		j := i + rng.IntN(len(out)-i+1)
		out = append(out[:j], append(append([]byte(nil), out[i:j]...), out[j:]...)...)
	}
	return out
}

var c12Alpha = []string{"{", "}", "[", "]", ":", ",", `"`, `\`, "/", "u", "b", "0", "1", "9", "-", "+", ".", "e", "E", "t", "r", "f", "a", "l", "s", "n", " ", "\n", "\xc3\xa9", "\x1f", "\x7f"}

func c12Run(r *mon.Run) {
	verifhook.SetScanProbes(true)
	// (1) exhaustive byte strings with dead-prefix pruning
	L := r.Pick(6, 7)
	pruned := int64(0)
	k := 0
	gen.TokensSharded(c12Alpha, L, r.Shard, mon.LogicalShards, func(s []byte, n int) bool {
		if n == 1 && r.Shard != 0 {
			return true
		}
		doc := append([]byte(nil), s...)
		dead := c12Doc(r, doc, false)
		c12Doc(r, doc, true)
		r.Nontrivial("x", string(doc))
		k++
		if k%50021 == 0 {
			r.Sample(map[string]any{"kind": "exhaustive string", "text": string(doc)})
		}
		if dead {
			pruned++
			return false
		}
		return true
	})
	r.Count("exhaustive_prefixes_pruned_as_dead_in_both", pruned)
	r.CountMax("max:exhaustive_len", int64(L))
	// (2) generated and mutated documents
	rng := r.Rand("c12")
	n := r.Share(r.Pick(100_000, 3_000_000))
	alphaBytes := []byte("{}[]:,\"\\/ub019-+.eEtrfalsn \n\t\r\x1f\x7f\xc3")
	for i := 0; i < n; i++ {
		var sb strings.Builder
		level := rng.IntN(3)
		wsf := randWS(rng, level)
		ws := func() { wsf(&sb) }
		ws()
		genJSONValue(rng, 1+rng.IntN(6), &sb, ws)
		ws()
		doc := []byte(sb.String())
		switch rng.IntN(4) {
		case 0:
			doc = mutateBytes(rng, doc, alphaBytes)
		case 1:
			doc = append(doc, []string{" x", "\n{}", ",", "]", " 1", "// c", "\n# c"}[rng.IntN(7)]...)
		}
		c12Doc(r, doc, false)
		c12Doc(r, doc, true)
		r.Nontrivial("g", string(doc))
		if i == 0 {
			r.Sample(map[string]any{"kind": "generated document", "text": string(doc)})
		}
	}
	// (3) big documents: widths, depths and lengths around the usual thresholds (8 .. 257, 1 Ki, 4 Ki)
	{
		sizes := []int{8, 9, 16, 17, 32, 33, 64, 65, 128, 129, 256, 257, 1023, 1025, 4097}
		bi := 0
		big := func(doc string) {
			if r.Mine(bi) {
				c12Doc(r, []byte(doc), false)
				c12Doc(r, []byte(doc), true)
				c12Doc(r, []byte(doc+"\n x"), true)
				c12Doc(r, []byte(doc[:len(doc)-1]), false) // cut short
				r.Nontrivial("b", doc)
				r.Count("big_documents", 1)
			}
			bi++
		}
		scalars := []string{"1", `"s"`, "true", "null", "-0.5e3", `"\u00e9"`, "{}", "[]"}
		for _, n := range sizes {
			var items, members []string
			for i := 0; i < n; i++ {
				v := scalars[(i+n)%len(scalars)]
				items = append(items, v)
				members = append(members, fmt.Sprintf(`"k%d":%s`, i, v))
			}
			big("[" + strings.Join(items, ",") + "]")
			big("[ " + strings.Join(items, " ,\n ") + " ]")
			big("{" + strings.Join(members, ",") + "}")
			big("{\n" + strings.Join(members, ",\n") + "\n}")
			for _, inner := range []string{"1", `"x"`, "{}", "[]", `{"a":[1,{"b":null}]}`} {
				big(strings.Repeat("[", n) + inner + strings.Repeat("]", n))
				big(strings.Repeat(`{"a":`, n) + inner + strings.Repeat("}", n))
				big(strings.Repeat(`[{"a":`, n/2+1) + inner + strings.Repeat("}]", n/2+1))
			}
			for _, unit := range []string{"a", "é", "😀", `\n`, `\u0041`, `\\`, " "} {
				big(`"` + strings.Repeat(unit, n) + `"`)
				big(`{"` + strings.Repeat(unit, n) + `":"` + strings.Repeat(unit, n) + `"}`)
			}
			big(strings.Repeat("9", n))
			big("-" + strings.Repeat("9", n) + "." + strings.Repeat("0", n) + "1e-" + strings.Repeat("0", n%7) + "5")
			big("[" + strings.Repeat(" ", n) + "]")
		}
	}
	// (3b) byte order marks and other multi-byte prefixes in front of valid documents
	if r.Shard == 1 {
		for _, pre := range []string{"\xef\xbb\xbf", "\xef\xbb", "\xfe\xff", "\xff\xfe", "\xef\xbb\xbf\xef\xbb\xbf", "\xc2\xa0", "\xe2\x80\xa8", "\xe3\x80\x80"} {
			for _, base := range []string{`{}`, `[1]`, `12`, `"a"`, `null`, ``, ` `, "\n{}"} {
				for _, doc := range []string{pre + base, base + pre, pre + base + pre, " " + pre + base} {
					c12Doc(r, []byte(doc), false)
					c12Doc(r, []byte(doc), true)
					r.Nontrivial("bom", doc)
				}
			}
		}
	}
	// (4) every byte 0x00-0xFF inserted at every position of small valid documents (blank-like bytes that are not
	// JSON white space - VT, FF, NEL, NBSP, NUL, DEL - must be refused wherever they stand outside a string)
	{
		ii := 0
		for _, base := range []string{`{}`, `[1,2]`, `12`, `-0.5e3`, `"a"`, `{"a":1}`, `true`, `null`, `[{"k":[]}]`, ` {"a" : "b"} `, "[\n1\n]"} {
			for pos := 0; pos <= len(base); pos++ {
				if !r.Mine(ii) {
					ii++
					continue
				}
				ii++
				for b := 0; b < 256; b++ {
					doc := append(append(append([]byte(nil), base[:pos]...), byte(b)), base[pos:]...)
					c12Doc(r, doc, false)
					c12Doc(r, doc, true)
				}
				r.Nontrivial("ins", base, fmt.Sprint(pos))
				r.Count("single_byte_insertions", 256)
			}
		}
	}
	// hook evidence
	for name, cnt := range verifhook.ScanPairs()[verifhook.KindJSONDoc] {
		r.Count("pair:jsondoc:"+shortState(name), cnt)
	}
	r.Count("scanner_steps_jsondoc", verifhook.ScanSteps[verifhook.KindJSONDoc].Load())
	if o := verifhook.ScanOverrun.Load(); o > 0 {
		r.Violate("scan-overrun", "json document scanner", fmt.Sprintf("scanner index ran beyond size+1 %d times", o), nil)
	}
}

func shortState(name string) string {
	if i := strings.LastIndex(name, "."); i >= 0 {
		return name[i+1:]
	}
	return name
}

func init() {
	register(&mon.CheckDef{
		ID:  "C12",
		Run: c12Run,
		Replay: func(r *mon.Run, raw stdjson.RawMessage) {
			var c c12Case
			stdjson.Unmarshal(raw, &c)
			c12Doc(r, c.Doc, c.Trailing)
		},
		Rule:               "every byte string over a 31-symbol JSON alphabet ({ } [ ] : , quote backslash / u b 0 1 9 - + . e E t r f a l s n space LF é 0x1f 0x7f) up to length 6 (quick) / 7 (thorough), pruned only below prefixes that both the library and encoding/json reject because of an offending byte, plus generated documents (depth <= 7, all escape forms, random blanks) and their byte mutations / trailers, plus every byte 0x00-0xFF inserted at every position of 11 small documents, plus big documents (arrays / objects of 8..4097 members, nesting 8..4097 deep, strings and numbers 8..4097 units long, each also with a trailer and cut short); each text is checked in strict and trailing mode (texts up to 4 bytes and one in eight longer ones also with Len() before Check(), Check() repeated and all lexemes read before Check() on one object, which must answer like a fresh object): Check() vs encoding/json.Valid resp. a streaming Decoder, Len(), and for accepted texts the NextLexeme stream (nesting, spans, literal coverage) and the token tree vs encoding/json's. distinct_nontrivial = distinct texts (hashed).",
		MinNontrivialQuick: 100000, MinNontrivialThorough: 1000000,
		Assumptions: []string{"encoding/json (Valid, Decoder) is the independent RFC 8259 decoder", "invalid UTF-8 inside strings is not judged differently from encoding/json (which accepts it)",
			"trailing mode reference: accepted iff a streaming json.Decoder decodes a first value"},
		Exhaustive: "all strings up to the stated length over the 31-symbol alphabet (modulo pruning of prefixes dead in both library and reference)",
		Finalize:   foldScanPairs,
	})
}

// foldScanPairs turns the per-pair counters into a compact evidence entry.
func foldScanPairs(c *mon.Coord) {
	pairs := map[string][]string{}
	for k := range c.Merged.Counters {
		if strings.HasPrefix(k, "pair:") {
			parts := strings.SplitN(k, ":", 3)
			pairs[parts[1]] = append(pairs[parts[1]], parts[2])
			delete(c.Merged.Counters, k)
		}
	}
	out := map[string]any{}
	for kind, ps := range pairs {
		states := map[string]bool{}
		for _, p := range ps {
			states[p[:strings.Index(p, "/")]] = true
		}
		out[kind] = map[string]any{"state_byteclass_pairs_crossed": len(ps), "distinct_step_functions_entered": len(states)}
	}
	if len(out) > 0 {
		c.Extra["scanner_probe_coverage"] = out
	}
}
