package props

import (
	stdjson "encoding/json"
	"fmt"
	"math/rand/v2"
	"sort"
	"strconv"
	"strings"

	"github.com/jsightapi/jsight-schema-core/notations/jschema"

	"verifharness/internal/gen"
	"verifharness/internal/mon"
)

// C06 - no false recursion alarms; self-requiring roots are reported; Example() ends.
//
// A case is a project model (root object + further types), the decision whether
// the root is also registered under its own name @main (the library's idiom for
// a root that can refer to itself) and a wiring: on which objects the types are
// registered.
//
// Judged, and nothing else:
//   (i)   Check() answers 104 although the least fix-point "has a finite
//         instance" holds for the root                           -> false-alarm
//   (ii)  the root reaches @main over required plain single-type members of
//         object types and Check() does not answer 104           -> missed-self-requirement
//   (iii) Check() == nil and Example() errs / is not JSON / is larger than
//         8 MiB (a hang or a stack overflow kills the worker and is attributed
//         by the coordinator through the r.Begin journal)
// Roots that have no finite instance for another reason (a cycle among other
// types, choices that all recurse, links through nested objects or alias types)
// are unspecified: counted, never judged for their Check() verdict.

const (
	c06RootName   = "@main"
	c06MaxExample = 8 << 20

	c06WireShallowSame = 0 // types on the root only; @main is the root object itself (the repository tests' idiom)
	c06WireShallowCopy = 1 // types on the root only; @main is a second object with the same text
	c06WireDeepCopy    = 2 // every type is registered on every type as well (project.build's idiom); @main is a copy
)

type c06Case struct {
	Project *gen.Project `json:"project"` // Types never contains @main itself
	Reg     bool         `json:"reg"`     // the root is registered as @main (file name @main); else file name "root"
	Wiring  int          `json:"wiring"`
	// OptDefault: every schema object is created with AreKeysOptionalByDefault, so a member is required only when
	// it says optional: false
	OptDefault bool `json:"opt_default,omitempty"`
	// OptTypes: the same for the type objects (the root and the types may be created in different modes)
	OptTypes bool `json:"opt_types,omitempty"`
}

func c06WiringName(c c06Case) string {
	reg := "root not registered"
	if c.Reg {
		reg = "root = @main, registered as the same object"
		if c.Wiring != c06WireShallowSame {
			reg = "root = @main, registered as a copy"
		}
	}
	w := "types on the root only"
	if c.Wiring == c06WireDeepCopy {
		w = "types on the root and on every type"
	}
	switch {
	case c.OptDefault && c.OptTypes:
		w += "; keys optional by default"
	case c.OptDefault:
		w += "; keys optional by default in the root only"
	case c.OptTypes:
		w += "; keys optional by default in the types only"
	}
	return "[" + reg + "; " + w + "]"
}

func c06Texts(c c06Case) project { return toTexts(c.Project, gen.DefaultLayout) }

func c06Key(c c06Case) string { return c06WiringName(c) + " " + projectKey(c06Texts(c)) }

// ---- the library side ------------------------------------------------------------

func c06Build(pt project, reg bool, wiring int, optDefault, optTypes bool) (*jschema.JSchema, error) {
	name := "root"
	if reg {
		name = c06RootName
	}
	s := jschema.New(name, pt.Root)
	s.AreKeysOptionalByDefault = optDefault
	type named struct {
		name string
		s    *jschema.JSchema
	}
	var all []named
	for _, t := range pt.Types {
		o := jschema.New(t.Name, t.Text)
		o.AreKeysOptionalByDefault = optTypes
		if err := s.AddType(t.Name, o); err != nil {
			return nil, fmt.Errorf("AddType(%s): %w", t.Name, err)
		}
		all = append(all, named{t.Name, o})
	}
	if reg {
		m := s
		if wiring != c06WireShallowSame {
			m = jschema.New(c06RootName, pt.Root)
			m.AreKeysOptionalByDefault = optDefault
		}
		if err := s.AddType(c06RootName, m); err != nil {
			return nil, fmt.Errorf("AddType(%s): %w", c06RootName, err)
		}
		if m != s {
			all = append(all, named{c06RootName, m})
		}
	}
	if wiring == c06WireDeepCopy {
		for _, o := range all {
			for _, u := range all {
				if err := o.s.AddType(u.name, u.s); err != nil {
					return nil, fmt.Errorf("AddType(%s) on %s: %w", u.name, o.name, err)
				}
			}
		}
	}
	return s, nil
}

type c06Lib struct {
	BuildErr string
	Code     int // 0 = accepted, -1 = error without code
	Msg      string
	Panic    *mon.Panic
	Stage    string
	Example  []byte
	ExErr    string
	ExCode   int
}

func c06RunLib(c c06Case) c06Lib {
	var out c06Lib
	pt := c06Texts(c)
	out.Stage = "build"
	out.Panic = mon.Guard(func() {
		s, err := c06Build(pt, c.Reg, c.Wiring, c.OptDefault, c.OptTypes)
		if err != nil {
			out.BuildErr = err.Error()
			return
		}
		out.Stage = "Check"
		if err = s.Check(); err != nil {
			v, _ := viewError(err)
			out.Code, out.Msg = -1, v.Message
			if v.HasCode {
				out.Code = v.Code
			}
			return
		}
		out.Stage = "Example"
		b, err := s.Example()
		if err != nil {
			v, _ := viewError(err)
			out.ExErr, out.ExCode = v.Message, -1
			if v.HasCode {
				out.ExCode = v.Code
			}
			if out.ExErr == "" {
				out.ExErr = "error"
			}
			return
		}
		out.Example = b
	})
	return out
}

// ---- the reference side ----------------------------------------------------------

// c06Optional tells whether a member may be left out: it says optional: true, or - with keys optional by default -
// it does not say optional: false.
// c06OwnerIsRoot tells the model whether the members it is looking at are written in the root's text.
var c06OwnerIsRoot bool

func c06Optional(c c06Case, m *gen.Node) bool {
	if m.KeyIsRef {
		return true // a key shortcut stands for any number of members, none included
	}
	if (c06OwnerIsRoot && c.OptDefault) || (!c06OwnerIsRoot && c.OptTypes) {
		v, ok := m.Rule("optional")
		return !ok || v.Lit != "false"
	}
	return c06IsTrue(m, "optional")
}

func c06IsTrue(n *gen.Node, rule string) bool {
	v, ok := n.Rule(rule)
	return ok && v.Lit == "true"
}

type c06Ref struct {
	Unknown   bool // a reference to a type that is not registered: nothing is judged
	Finite    bool // the root has a finite instance
	SelfReq   bool // the root reaches @main over required plain members
	Chain     int  // number of links of the shortest such chain
	Nested    bool // no plain chain, but one that also passes nested objects (not judged, counted)
	SharedMan bool // some type has two incoming mandatory links from the mandatory closure of the root
}

func c06TypeMap(c c06Case) map[string]*gen.Node {
	m := map[string]*gen.Node{}
	for _, t := range c.Project.Types {
		m[t.Name] = t.Node
	}
	if c.Reg {
		m[c06RootName] = c.Project.Root
	}
	return m
}

func c06Reference(c c06Case) c06Ref {
	var out c06Ref
	types := c06TypeMap(c)
	names := make([]string, 0, len(types))
	for k := range types {
		names = append(names, k)
	}
	sort.Strings(names)
	check := func(n *gen.Node) {
		n.Walk(func(m *gen.Node) {
			for _, r := range m.Refs {
				if _, ok := types[r]; !ok {
					out.Unknown = true
				}
			}
		})
	}
	check(c.Project.Root)
	for _, t := range c.Project.Types {
		check(t.Node)
	}
	if out.Unknown {
		return out
	}
	// least fix-point of "has a finite instance"
	fin := map[string]bool{}
	var val func(n *gen.Node) bool
	val = func(n *gen.Node) bool {
		if c06IsTrue(n, "nullable") {
			return true // null
		}
		switch n.Kind {
		case gen.KArray:
			return true // []
		case gen.KObject:
			for _, m := range n.Children {
				if c06Optional(c, m) {
					continue // left out
				}
				if !val(m) {
					return false
				}
			}
			return true
		case gen.KRef:
			for _, r := range n.Refs {
				if fin[r] {
					return true
				}
			}
			return false
		}
		return true
	}
	for changed := true; changed; {
		changed = false
		for _, k := range names {
			c06OwnerIsRoot = k == c06RootName
			if !fin[k] && val(types[k]) {
				fin[k] = true
				changed = true
			}
		}
	}
	c06OwnerIsRoot = true
	out.Finite = val(c.Project.Root)

	// required plain links: members of an object type (not of a nested object)
	// whose value is one type name, neither optional nor nullable
	edges := func(n *gen.Node, nested bool) []string {
		if n.Kind != gen.KObject || c06IsTrue(n, "nullable") {
			return nil
		}
		var out []string
		var members func(o *gen.Node, depth int)
		members = func(o *gen.Node, depth int) {
			for _, m := range o.Children {
				if c06Optional(c, m) || c06IsTrue(m, "nullable") {
					continue
				}
				switch {
				case m.Kind == gen.KRef && len(m.Refs) == 1:
					out = append(out, m.Refs[0])
				case m.Kind == gen.KObject && nested:
					members(m, depth+1)
				}
			}
		}
		members(n, 0)
		return out
	}
	search := func(nested bool) (bool, int, map[string]int) {
		dist := map[string]int{}
		indeg := map[string]int{}
		frontier := []string{}
		c06OwnerIsRoot = true
		for _, e := range edges(c.Project.Root, nested) {
			indeg[e]++
			if _, ok := dist[e]; !ok {
				dist[e] = 1
				frontier = append(frontier, e)
			}
		}
		for len(frontier) > 0 {
			cur := frontier[0]
			frontier = frontier[1:]
			if c.Reg && cur == c06RootName {
				continue // its links are the root's links
			}
			c06OwnerIsRoot = false
			for _, e := range edges(types[cur], nested) {
				indeg[e]++
				if _, ok := dist[e]; !ok {
					dist[e] = dist[cur] + 1
					frontier = append(frontier, e)
				}
			}
		}
		d, ok := dist[c06RootName]
		return ok && c.Reg, d, indeg
	}
	var indeg map[string]int
	out.SelfReq, out.Chain, _ = search(false)
	var nestedReq bool
	nestedReq, _, indeg = search(true)
	out.Nested = nestedReq && !out.SelfReq
	for _, n := range indeg {
		if n > 1 {
			out.SharedMan = true
		}
	}
	return out
}

// c06JSONDefect names what is wrong with a text that is not JSON: the first
// misplaced separator found outside strings.
func c06JSONDefect(b []byte) string {
	if len(strings.TrimSpace(string(b))) == 0 {
		return "empty text"
	}
	var prev byte
	inStr := false
	for i := 0; i < len(b); i++ {
		ch := b[i]
		if inStr {
			if ch == '\\' {
				i++
			} else if ch == '"' {
				inStr = false
			}
			prev = '"'
			continue
		}
		switch ch {
		case ' ', '\t', '\n', '\r':
			continue
		case '"':
			inStr = true
		}
		switch {
		case prev == ',' && ch == '}':
			return "separator before } (last object member skipped)"
		case prev == ',' && ch == ']':
			return "separator before ] (last array item skipped)"
		case prev == ',' && ch == ',':
			return "two separators in a row"
		case prev == '{' && ch == ',', prev == '[' && ch == ',':
			return "separator right after the opening bracket"
		case prev == ':' && (ch == ',' || ch == '}'):
			return "member without a value"
		}
		prev = ch
	}
	return "other"
}

// c06Verdict is the complete judgement of one case.
type c06Verdict struct {
	Ref          c06Ref
	Lib          c06Lib
	Class        string // finite | self-requiring | unspecified | unknown-reference
	Clause       string // "" when nothing is violated
	Shape        string // sub-classification used to fold frequent violations
	What         string
	Inconclusive string
	Judged       bool // some clause was applicable and the library's answer was compared
}

func c06Evaluate(c c06Case) c06Verdict {
	v := c06Verdict{Ref: c06Reference(c)}
	switch {
	case v.Ref.Unknown:
		v.Class = "unknown-reference"
	case v.Ref.Finite && v.Ref.SelfReq:
		v.Class = "oracle-conflict"
	case v.Ref.Finite:
		v.Class = "finite"
	case v.Ref.SelfReq:
		v.Class = "self-requiring"
	default:
		v.Class = "unspecified"
	}
	v.Lib = c06RunLib(c)
	l := v.Lib
	if l.Panic != nil {
		v.Clause, v.Shape = "panic", l.Stage+"/"+l.Panic.Site
		v.What = fmt.Sprintf("%s panicked (%s)", l.Stage, mon.Trunc(l.Panic.Value, 200))
		return v
	}
	if l.BuildErr != "" {
		v.Inconclusive = "build-error"
		return v
	}
	if v.Class == "unknown-reference" || v.Class == "oracle-conflict" {
		v.Inconclusive = v.Class
		return v
	}
	switch {
	case l.Code == 104 && v.Class == "finite":
		v.Judged = true
		v.Clause = "false-alarm"
		v.What = "Check() reports code 104 (" + mon.Trunc(l.Msg, 160) + ") although the root has a finite instance"
		return v
	case v.Class == "self-requiring" && l.Code != 104:
		v.Judged = true
		v.Clause = "missed-self-requirement"
		ans := "accepts the schema"
		if l.Code != 0 {
			ans = fmt.Sprintf("answers code %d (%s) instead of 104", l.Code, mon.Trunc(l.Msg, 120))
		}
		v.Shape = fmt.Sprintf("chain of %d links", v.Ref.Chain)
		v.What = fmt.Sprintf("the root requires itself through %d required plain link(s) but Check() %s", v.Ref.Chain, ans)
		return v
	case l.Code == 104:
		v.Judged = v.Class == "self-requiring"
		return v
	case l.Code != 0:
		v.Inconclusive = fmt.Sprintf("structural-code-%d", l.Code)
		return v
	}
	// accepted: (i) was judged if the root is finite; (iii) applies in any case
	v.Judged = true
	switch {
	case l.ExErr != "":
		v.Clause, v.Shape = "example-error", fmt.Sprintf("code %d", l.ExCode)
		v.What = fmt.Sprintf("Check() passes but Example() fails with code %d (%s)", l.ExCode, mon.Trunc(l.ExErr, 160))
	case len(l.Example) > c06MaxExample:
		v.Clause, v.Shape = "example-unbounded", "larger than 8 MiB"
		v.What = fmt.Sprintf("Check() passes but Example() returned %d bytes", len(l.Example))
	case !stdjson.Valid(l.Example):
		v.Clause, v.Shape = "example-not-json", c06JSONDefect(l.Example)
		if v.Shape == "empty text" && !v.Ref.Finite {
			// accepted although no finite instance exists (a cycle of type names that does not pass the root):
			// there is nothing Example() could return - a family of its own (recorded finding)
			v.Shape = c06NoInstanceShape
		}
		v.What = fmt.Sprintf("Check() passes but Example() is not RFC 8259 JSON (%s): %s", v.Shape, mon.Trunc(string(l.Example), 240))
	}
	return v
}

// ---- shrinking and canonical naming ----------------------------------------------------

func c06CloneNode(n *gen.Node) *gen.Node {
	c := *n
	c.Refs = append([]string(nil), n.Refs...)
	c.Rules = append([]gen.Rule(nil), n.Rules...)
	c.Children = make([]*gen.Node, len(n.Children))
	for i, ch := range n.Children {
		c.Children[i] = c06CloneNode(ch)
	}
	if len(c.Children) == 0 {
		c.Children = nil
	}
	return &c
}

func c06Clone(c c06Case) c06Case {
	p := &gen.Project{Root: c06CloneNode(c.Project.Root)}
	for _, t := range c.Project.Types {
		p.Types = append(p.Types, gen.NamedNode{Name: t.Name, Node: c06CloneNode(t.Node)})
	}
	return c06Case{Project: p, Reg: c.Reg, Wiring: c.Wiring, OptDefault: c.OptDefault, OptTypes: c.OptTypes}
}

// c06Nodes lists every node of the project in a fixed order.
func c06Nodes(c c06Case) []*gen.Node {
	var out []*gen.Node
	c.Project.Root.Walk(func(n *gen.Node) { out = append(out, n) })
	for _, t := range c.Project.Types {
		t.Node.Walk(func(n *gen.Node) { out = append(out, n) })
	}
	return out
}

// c06Shrink removes members, alternatives, rules and types, replaces values by
// the scalar 1 and moves to the plainest wiring while the same violation (clause,
// and shape unless shape is "*") is still observed.
func c06Shrink(c c06Case, clause, shape string) c06Case {
	holds := func(x c06Case) bool {
		v := c06Evaluate(x)
		return v.Clause == clause && (shape == "*" || v.Shape == shape)
	}
	budget := 600
	try := func(x c06Case) bool {
		if budget <= 0 {
			return false
		}
		budget--
		if holds(x) {
			c = x
			return true
		}
		return false
	}
	if c.Wiring != c06WireShallowSame {
		x := c06Clone(c)
		x.Wiring = c06WireShallowSame
		try(x)
	}
	unregister := func() {
		if !c.Reg {
			return
		}
		for _, n := range c06Nodes(c) {
			for _, r := range n.Refs {
				if r == c06RootName {
					return
				}
			}
		}
		x := c06Clone(c)
		x.Reg = false
		try(x)
	}
	for budget > 0 {
		progressed := false
		// drop the types the root does not reach
		reach := map[string]bool{}
		var mark func(n *gen.Node)
		mark = func(n *gen.Node) {
			n.Walk(func(m *gen.Node) {
				for _, r := range m.Refs {
					if !reach[r] {
						reach[r] = true
						for _, t := range c.Project.Types {
							if t.Name == r {
								mark(t.Node)
							}
						}
					}
				}
			})
		}
		mark(c.Project.Root)
		for i := 0; i < len(c.Project.Types); i++ {
			if reach[c.Project.Types[i].Name] {
				continue
			}
			x := c06Clone(c)
			x.Project.Types = append(x.Project.Types[:i:i], x.Project.Types[i+1:]...)
			if try(x) {
				progressed = true
				i--
			}
		}
		nodes := c06Nodes(c)
		for ni := 0; ni < len(nodes) && !progressed; ni++ {
			n := nodes[ni]
			// remove a member / an item, or put the scalar 1 in its place
			for mi := 0; mi < len(n.Children) && !progressed; mi++ {
				x := c06Clone(c)
				xn := c06Nodes(x)[ni]
				xn.Children = append(xn.Children[:mi:mi], xn.Children[mi+1:]...)
				if try(x) {
					progressed = true
					break
				}
				if ch := n.Children[mi]; ch.Kind != gen.KInt || ch.Lit != "1" || len(ch.Rules) > 0 {
					x = c06Clone(c)
					xn = c06Nodes(x)[ni]
					one := gen.Int("1")
					one.Key, one.KeyLit = ch.Key, ch.KeyLit
					xn.Children[mi] = one
					progressed = try(x)
				}
			}
			// a single alternative instead of a choice
			for ri := 0; len(n.Refs) > 1 && ri < len(n.Refs) && !progressed; ri++ {
				x := c06Clone(c)
				xn := c06Nodes(x)[ni]
				xn.Refs = []string{xn.Refs[ri]}
				progressed = try(x)
			}
			// without a rule
			for ri := 0; ri < len(n.Rules) && !progressed; ri++ {
				x := c06Clone(c)
				xn := c06Nodes(x)[ni]
				xn.Rules = append(xn.Rules[:ri:ri], xn.Rules[ri+1:]...)
				xn.HasRules = len(xn.Rules) > 0
				progressed = try(x)
			}
		}
		if !progressed {
			break
		}
	}
	unregister()
	return c06Canonical(c)
}

// c06Canonical renames the further types in the order the root reaches them and
// the keys by position, so that isomorphic witnesses get one key.
func c06Canonical(c c06Case) c06Case {
	c = c06Clone(c)
	byName := map[string]*gen.Node{}
	for _, t := range c.Project.Types {
		byName[t.Name] = t.Node
	}
	rename := map[string]string{c06RootName: c06RootName}
	var order []string
	var visit func(n *gen.Node)
	visit = func(n *gen.Node) {
		var queue []string
		n.Walk(func(m *gen.Node) {
			for _, r := range m.Refs {
				if _, ok := rename[r]; !ok && byName[r] != nil {
					rename[r] = "@t" + strconv.Itoa(len(order)+1)
					order = append(order, r)
					queue = append(queue, r)
				}
			}
		})
		for _, q := range queue {
			visit(byName[q])
		}
	}
	visit(c.Project.Root)
	for _, t := range c.Project.Types { // unreachable ones keep their relative order
		if _, ok := rename[t.Name]; !ok {
			rename[t.Name] = "@t" + strconv.Itoa(len(order)+1)
			order = append(order, t.Name)
		}
	}
	var keys func(n *gen.Node, prefix string)
	keys = func(n *gen.Node, prefix string) {
		for i, r := range n.Refs {
			if to, ok := rename[r]; ok {
				n.Refs[i] = to
			}
		}
		for i, m := range n.Children {
			if n.Kind == gen.KObject {
				m.K(prefix + strconv.Itoa(i+1))
			}
			keys(m, "n")
		}
	}
	keys(c.Project.Root, "m")
	var types []gen.NamedNode
	for _, old := range order {
		keys(byName[old], "m")
		types = append(types, gen.NamedNode{Name: rename[old], Node: byName[old]})
	}
	c.Project.Types = types
	return c
}

// ---- recording -------------------------------------------------------------------

type c06Witness struct {
	Case c06Case
	What string
	Key  string
	Seen int
}

type c06State struct {
	shrunk map[string]int         // per clause: how many violations were shrunk in this shard
	told   map[string]bool        // clause + key already handed to r.Violate (which counts every call against its per-clause cap)
	best   map[string]*c06Witness // per clause + shape: the smallest exact witness among the first few
	order  []string
}

func newC06State() *c06State {
	return &c06State{shrunk: map[string]int{}, told: map[string]bool{}, best: map[string]*c06Witness{}}
}

// c06NoInstanceShape names the shape "Example() returns no text for an accepted root that has no finite instance".
const c06NoInstanceShape = "empty text, the root has no finite instance"

func c06WitnessPrefix(shape string) string { return "witness (" + shape + "): " }

// c06Finalize keeps, per clause and shape, the three smallest of the exact
// witnesses the shards proposed (each shard proposes the smallest it met).
func c06Finalize(c *mon.Coord) {
	groups := map[string][]int{}
	for i, v := range c.Merged.Violations {
		if strings.HasPrefix(v.Key, "witness (") {
			if j := strings.Index(v.Key, "): "); j > 0 {
				id := v.Clause + "\x00" + v.Key[:j]
				groups[id] = append(groups[id], i)
			}
		}
	}
	drop := map[int]bool{}
	for _, idx := range groups {
		vs := c.Merged.Violations
		sort.Slice(idx, func(a, b int) bool {
			ka, kb := vs[idx[a]].Key, vs[idx[b]].Key
			if len(ka) != len(kb) {
				return len(ka) < len(kb)
			}
			return ka < kb
		})
		distinct := 0
		last := ""
		for _, i := range idx {
			if vs[i].Key != last {
				distinct++
				last = vs[i].Key
			}
			if distinct > 3 {
				drop[i] = true
			}
		}
	}
	if len(drop) == 0 {
		return
	}
	var kept []mon.Violation
	for i, v := range c.Merged.Violations {
		if !drop[i] {
			kept = append(kept, v)
		}
	}
	c.Merged.Violations = kept
}

// flush reports the minimal exact witnesses collected for the frequent clauses.
func (st *c06State) flush(r *mon.Run) {
	for _, id := range st.order {
		w := st.best[id]
		clause := id[:strings.Index(id, "\x00")]
		if w.Key != "" {
			r.Violate(clause, c06WitnessPrefix(id[len(clause)+1:])+w.Key, w.What, w.Case)
		}
	}
}

func c06Judge(r *mon.Run, st *c06State, c c06Case, family string, shrink bool) c06Verdict {
	r.Eval(1)
	v := c06Evaluate(c)
	r.Count("class_"+v.Class, 1)
	switch {
	case v.Lib.Code == 0 && v.Lib.BuildErr == "" && v.Lib.Panic == nil:
		r.Count("check_accepts_"+v.Class, 1)
	case v.Lib.Code == 104:
		r.Count("check_reports_104_"+v.Class, 1)
	}
	if v.Class == "self-requiring" {
		r.Count(fmt.Sprintf("self_requiring_chain_of_%d_links", v.Ref.Chain), 1)
	}
	if v.Ref.Nested && v.Class == "unspecified" {
		if v.Lib.Code == 104 {
			r.Count("self_requirement_through_nested_object_not_judged_reported_104", 1)
		} else {
			r.Count("self_requirement_through_nested_object_not_judged_accepted", 1)
		}
	}
	if v.Class == "finite" && v.Ref.SharedMan {
		r.Count("finite_roots_with_a_type_required_along_two_paths", 1)
	}
	if v.Inconclusive != "" {
		r.Inconclusive(v.Inconclusive)
		if r.Shard == 0 {
			r.Note(v.Inconclusive + ": " + mon.Trunc(v.Lib.BuildErr+v.Lib.Msg, 100) + " :: " + mon.Trunc(c06Key(c), 240))
		}
		return v
	}
	if v.Judged {
		r.Nontrivial(c06Key(c))
		r.Count("judged_"+family, 1)
	}
	if v.Lib.Code == 0 && v.Clause != "panic" {
		r.Count("examples_checked", 1)
		r.CountMax("max:example_bytes", int64(len(v.Lib.Example)))
	}
	if v.Clause == "" {
		return v
	}
	r.Count("violating_cases:"+v.Clause, 1)
	if v.Shape != "" {
		r.Count("violating_cases:"+v.Clause+" / "+v.Shape, 1)
	}
	switch v.Clause {
	case "example-not-json", "example-error", "example-unbounded", "panic":
		// frequent: one entry per shape at once, and the smallest exact witness
		// among the first few of that shape at the end of the shard
		id := v.Clause + "\x00" + v.Shape
		if st == nil || !st.told[id] {
			r.Violate(v.Clause, "shape: "+v.Shape, v.What+" :: "+mon.Trunc(c06Key(c), 400), c)
		}
		if !shrink || st == nil {
			break
		}
		st.told[id] = true
		if v.Shape == c06NoInstanceShape {
			break // one entry for the family; the pinned witness is replayed on every run
		}
		w := st.best[id]
		if w == nil {
			w = &c06Witness{}
			st.best[id] = w
			st.order = append(st.order, id)
		}
		if w.Seen >= 24 {
			break
		}
		w.Seen++
		m := c06Shrink(c, v.Clause, v.Shape)
		if mv := c06Evaluate(m); mv.Clause == v.Clause && mv.Shape == v.Shape {
			k := c06Key(m)
			if w.Key == "" || len(k) < len(w.Key) || (len(k) == len(w.Key) && k < w.Key) {
				w.Case, w.What, w.Key = m, mv.What, k
			}
		}
	default:
		// false-alarm, missed-self-requirement: keyed by the shrunk project
		m, mv := c, v
		if shrink && st != nil {
			if st.shrunk[v.Clause] >= 300 {
				// this shard has reported 300 shrunk witnesses of the clause already
				r.Count("violating_cases_not_listed_individually:"+v.Clause, 1)
				break
			}
			st.shrunk[v.Clause]++
			x := c06Shrink(c, v.Clause, "*")
			if xv := c06Evaluate(x); xv.Clause == v.Clause {
				m, mv = x, xv
			}
		}
		key := c06Key(m)
		if len(key) > 300 {
			key = mon.Trunc(key, 300) + " #" + mon.Hash(c06Key(m))
		}
		if st == nil || !st.told[v.Clause+"\x00"+key] {
			r.Violate(v.Clause, key, mv.What+" (first seen in family "+family+")", m)
		}
		if st != nil {
			st.told[v.Clause+"\x00"+key] = true
		}
	}
	return v
}

// ---- the enumerated families ---------------------------------------------------------

// c06Val is one member value of the enumerated alphabet.
type c06Val struct {
	Kind int // 0 scalar, 1 required, 2 optional, 3 nullable, 4 array, 5 choice, 6 nested object
	X, Y string
}

func c06Alphabet(targets []string) []c06Val {
	out := []c06Val{{Kind: 0}}
	for kind := 1; kind <= 6; kind++ {
		for _, x := range targets {
			if kind == 5 {
				for _, y := range targets {
					if x != y {
						out = append(out, c06Val{kind, x, y})
					}
				}
				continue
			}
			out = append(out, c06Val{Kind: kind, X: x})
		}
	}
	return out
}

func (v c06Val) node(key string) *gen.Node {
	switch v.Kind {
	case 1:
		return gen.Ref(v.X).K(key)
	case 2:
		return gen.Ref(v.X).K(key).R("optional", "true")
	case 3:
		return gen.Ref(v.X).K(key).R("nullable", "true")
	case 4:
		return gen.Arr(gen.Ref(v.X)).K(key)
	case 5:
		return gen.Ref(v.X, v.Y).K(key)
	case 6:
		return gen.Obj(gen.Ref(v.X).K("n1")).K(key)
	}
	return gen.Int("1").K(key)
}

type c06Family struct {
	Name     string
	Reg      bool
	K        int // further types
	RootMin  int
	RootMax  int
	TypeMin  int
	TypeMax  int
	Thorough bool
	Sample   int // > 0: draw that many cases at random instead of enumerating
}

func c06Families() []c06Family {
	return []c06Family{
		{Name: "R0 root alone, 1-2 members", Reg: true, K: 0, RootMin: 1, RootMax: 2},
		{Name: "R1 root + 1 type, 1-2 members each", Reg: true, K: 1, RootMin: 1, RootMax: 2, TypeMin: 1, TypeMax: 2},
		{Name: "U1 unregistered root + 1 type, 1-2 members each", K: 1, RootMin: 1, RootMax: 2, TypeMin: 1, TypeMax: 2},
		{Name: "U2a unregistered root (1-2 members) + 2 types (1 member)", K: 2, RootMin: 1, RootMax: 2, TypeMin: 1, TypeMax: 1},
		{Name: "R2a root (1-2 members) + 2 types (1 member)", Reg: true, K: 2, RootMin: 1, RootMax: 2, TypeMin: 1, TypeMax: 1},
		{Name: "U2b unregistered root (1 member) + 2 types (1-2 members)", K: 2, RootMin: 1, RootMax: 1, TypeMin: 1, TypeMax: 2, Thorough: true},
		{Name: "R3a root + 3 types, 1 member each", Reg: true, K: 3, RootMin: 1, RootMax: 1, TypeMin: 1, TypeMax: 1, Thorough: true},
		{Name: "R2b root (1 member) + 2 types (1-2 members), sampled", Reg: true, K: 2, RootMin: 1, RootMax: 1, TypeMin: 1, TypeMax: 2, Thorough: true, Sample: 500_000},
		{Name: "R2c root + 2 types, 1-2 members each, sampled", Reg: true, K: 2, RootMin: 1, RootMax: 2, TypeMin: 1, TypeMax: 2, Thorough: true, Sample: 500_000},
		{Name: "R3b root + 3 types, 1-2 members each, sampled", Reg: true, K: 3, RootMin: 1, RootMax: 2, TypeMin: 1, TypeMax: 2, Thorough: true, Sample: 500_000},
	}
}

func (f c06Family) names() (further, targets []string) {
	for i := 1; i <= f.K; i++ {
		further = append(further, "@t"+strconv.Itoa(i))
	}
	if f.Reg {
		targets = append(targets, c06RootName)
	}
	targets = append(targets, further...)
	return
}

func c06ObjCount(v, min, max int) uint64 {
	var n, p uint64 = 0, 1
	for m := 1; m <= max; m++ {
		p *= uint64(v)
		if m >= min {
			n += p
		}
	}
	return n
}

func c06ObjDecode(alpha []c06Val, o uint64, min, max int) *gen.Node {
	v := uint64(len(alpha))
	p := uint64(1)
	for m := 1; m <= max; m++ {
		p *= v
		if m < min {
			continue
		}
		if o < p {
			members := make([]*gen.Node, m)
			for i := m - 1; i >= 0; i-- {
				members[i] = alpha[o%v].node("m" + strconv.Itoa(i+1))
				o /= v
			}
			return gen.Obj(members...)
		}
		o -= p
	}
	return gen.Obj()
}

var c06Wirings = []int{c06WireShallowSame, c06WireDeepCopy}

// size is the number of cases (graphs x 2 wirings).
func (f c06Family) size() uint64 {
	_, targets := f.names()
	v := len(c06Alphabet(targets))
	n := c06ObjCount(v, f.RootMin, f.RootMax)
	for i := 0; i < f.K; i++ {
		n *= c06ObjCount(v, f.TypeMin, f.TypeMax)
	}
	return n * uint64(len(c06Wirings))
}

func (f c06Family) decode(idx uint64) c06Case {
	further, targets := f.names()
	alpha := c06Alphabet(targets)
	v := len(alpha)
	w := c06Wirings[idx%uint64(len(c06Wirings))]
	idx /= uint64(len(c06Wirings))
	p := &gen.Project{}
	for i := f.K - 1; i >= 0; i-- {
		n := c06ObjCount(v, f.TypeMin, f.TypeMax)
		p.Types = append(p.Types, gen.NamedNode{Name: further[i], Node: c06ObjDecode(alpha, idx%n, f.TypeMin, f.TypeMax)})
		idx /= n
	}
	for i, j := 0, len(p.Types)-1; i < j; i, j = i+1, j-1 {
		p.Types[i], p.Types[j] = p.Types[j], p.Types[i]
	}
	p.Root = c06ObjDecode(alpha, idx, f.RootMin, f.RootMax)
	return c06Case{Project: p, Reg: f.Reg, Wiring: w}
}

// ---- random graphs ------------------------------------------------------------------

type c06Gen struct {
	rng     *rand.Rand
	targets []string
	self    int  // index of the type being generated in targets, -1 for none
	soft    bool // fewer required links
	keyRefs bool // objects may have a member described by a key shortcut
}

func (g *c06Gen) target() string {
	// forward bias: mostly a type that comes later (gives chains, shared sub-types and diamonds
	// that do have a finite instance), sometimes any type (gives cycles)
	if g.self >= 0 && g.self+1 < len(g.targets) && g.rng.IntN(10) < 6 {
		return g.targets[g.self+1+g.rng.IntN(len(g.targets)-g.self-1)]
	}
	return g.targets[g.rng.IntN(len(g.targets))]
}

func (g *c06Gen) choice() *gen.Node {
	n := 2
	if len(g.targets) > 2 && g.rng.IntN(4) == 0 {
		n = 3
	}
	if len(g.targets) < 2 {
		return gen.Ref(g.target())
	}
	perm := g.rng.Perm(len(g.targets))
	var names []string
	first := g.target()
	names = append(names, first)
	for _, i := range perm {
		if len(names) < n && g.targets[i] != first {
			names = append(names, g.targets[i])
		}
	}
	return gen.Ref(names...)
}

func (g *c06Gen) scalar() *gen.Node {
	switch g.rng.IntN(4) {
	case 0:
		return gen.Str("s")
	case 1:
		return gen.Bool(true)
	}
	return gen.Int(strconv.Itoa(1 + g.rng.IntN(9)))
}

// refMember returns a member value that mentions types.
func (g *c06Gen) refMember() *gen.Node {
	w := []int{24, 12, 11, 11, 12, 10} // required, optional, nullable, array, choice, nested
	if g.soft {
		w = []int{14, 18, 14, 14, 14, 8}
	}
	total := 0
	for _, x := range w {
		total += x
	}
	k, pick := 0, g.rng.IntN(total)
	for pick >= w[k] {
		pick -= w[k]
		k++
	}
	switch k {
	case 0:
		n := gen.Ref(g.target())
		switch g.rng.IntN(8) {
		case 0:
			n.R("optional", "false")
		case 1:
			n.R("nullable", "false")
		}
		return n
	case 1:
		n := gen.Ref(g.target()).R("optional", "true")
		if g.rng.IntN(6) == 0 {
			n.R("nullable", "true")
		}
		return n
	case 2:
		return gen.Ref(g.target()).R("nullable", "true")
	case 3:
		switch g.rng.IntN(5) {
		case 0:
			return gen.Arr(g.choice())
		case 1:
			return gen.Arr(gen.Obj(gen.Ref(g.target()).K("n1")))
		case 2:
			if g.rng.IntN(2) == 0 {
				return gen.Arr(g.scalar(), gen.Ref(g.target()))
			}
			return gen.Arr(gen.Ref(g.target()), g.scalar())
		}
		return gen.Arr(gen.Ref(g.target()))
	case 4:
		n := g.choice()
		switch g.rng.IntN(8) {
		case 0:
			n.R("optional", "true")
		case 1:
			n.R("nullable", "true")
		}
		return n
	}
	inner := gen.Ref(g.target()).K("n1")
	switch g.rng.IntN(6) {
	case 0:
		inner.R("optional", "true")
	case 1:
		inner.R("nullable", "true")
	case 2:
		inner = g.choice().K("n1")
	}
	o := gen.Obj(inner)
	if g.rng.IntN(3) == 0 {
		o.Children = append(o.Children, g.scalar().K("n2"))
	}
	switch g.rng.IntN(8) {
	case 0:
		o.R("optional", "true")
	case 1:
		o.R("nullable", "true")
	}
	return o
}

// object draws 1-3 members of which at most two mention types (this bounds the
// size of a legitimate example: every type is expanded at most twice per path).
func (g *c06Gen) object() *gen.Node {
	m := 1 + g.rng.IntN(3)
	refs := 2
	o := gen.Obj()
	for i := 0; i < m; i++ {
		var n *gen.Node
		if refs > 0 && len(g.targets) > 0 && g.rng.IntN(10) < 7 {
			n = g.refMember()
			refs--
		} else {
			n = g.scalar()
		}
		o.Children = append(o.Children, n.K("m"+strconv.Itoa(i+1)))
	}
	if g.keyRefs && g.rng.IntN(8) == 0 {
		// one member described by a key shortcut instead of a name
		o.Children[g.rng.IntN(len(o.Children))].KRefKey(c06KeyType)
	}
	return o
}

// c06KeyType is the string type used for key shortcuts.
const c06KeyType = "@k"

// setLink makes sure object o has the member value v (replacing a member or appended).
func (g *c06Gen) setLink(o *gen.Node, v *gen.Node) {
	if o.Kind != gen.KObject {
		return
	}
	if len(o.Children) > 0 && (len(o.Children) >= 3 || g.rng.IntN(2) == 0) {
		i := g.rng.IntN(len(o.Children))
		o.Children[i] = v.K("m" + strconv.Itoa(i+1))
		return
	}
	o.Children = append(o.Children, v.K("m"+strconv.Itoa(len(o.Children)+1)))
}

func c06Random(rng *rand.Rand) (c06Case, string) {
	c := c06Case{Reg: rng.IntN(6) != 0}
	switch rng.IntN(12) {
	case 0:
		c.OptDefault, c.OptTypes = true, true
	case 1:
		c.OptDefault = true
	case 2:
		c.OptTypes = true
	}
	k := rng.IntN(7) // further types: at most 7 types in all
	mode := rng.IntN(8)
	if mode >= 5 {
		mode = 0
	}
	if (mode == 1 || mode == 2) && !c.Reg {
		c.Reg = true
	}
	if mode == 3 && k < 3 {
		k = 3 + rng.IntN(4)
	}
	switch {
	case !c.Reg:
		c.Wiring = []int{c06WireShallowSame, c06WireDeepCopy}[rng.IntN(2)]
	default:
		c.Wiring = rng.IntN(3)
	}
	var further []string
	for i := 1; i <= k; i++ {
		further = append(further, "@t"+strconv.Itoa(i))
	}
	g := &c06Gen{rng: rng, soft: mode == 3 || mode == 4, keyRefs: rng.IntN(5) == 0}
	if c.Reg {
		g.targets = append([]string{c06RootName}, further...)
	} else {
		g.targets = further
	}
	off := len(g.targets) - len(further) // index of @t1 in targets
	p := &gen.Project{}
	g.self = off - 1
	p.Root = g.object()
	if c.Reg && len(further) > 0 && rng.IntN(25) == 0 {
		// the root is a type choice (that may name the root itself) or one type name
		if rng.IntN(3) == 0 {
			p.Root = gen.Ref(g.target())
		} else {
			p.Root = g.choice()
		}
		if rng.IntN(4) == 0 {
			p.Root.R("nullable", "true")
		}
	}
	for i, name := range further {
		g.self = off + i
		var n *gen.Node
		switch a := rng.IntN(40); {
		case a == 0:
			n = gen.Ref(g.target())
		case a == 1:
			n = g.choice()
		case a == 2:
			n = gen.Arr(gen.Ref(g.target()))
		case a == 3:
			n = g.scalar()
		default:
			n = g.object()
			if rng.IntN(25) == 0 {
				n.R("nullable", "true")
			}
		}
		p.Types = append(p.Types, gen.NamedNode{Name: name, Node: n})
	}
	c.Project = p
	label := "general"
	node := func(name string) *gen.Node {
		if name == c06RootName {
			return p.Root
		}
		for _, t := range p.Types {
			if t.Name == name {
				return t.Node
			}
		}
		return nil
	}
	switch mode {
	case 1, 2:
		// plant a chain of required plain links root -> ... -> root
		label = "planted chain"
		perm := rng.Perm(k)
		l := rng.IntN(k + 1)
		chain := []string{c06RootName}
		for _, i := range perm[:l] {
			if further[i] != "" && node(further[i]).Kind != gen.KObject {
				p.Types[i].Node = g.object()
			}
			chain = append(chain, further[i])
		}
		chain = append(chain, c06RootName)
		weak := -1
		if mode == 2 {
			label = "planted chain with one weakened link"
			weak = rng.IntN(len(chain) - 1)
		}
		for i := 0; i+1 < len(chain); i++ {
			var v *gen.Node
			next := chain[i+1]
			if i != weak {
				v = gen.Ref(next)
			} else {
				switch rng.IntN(6) {
				case 0:
					v = gen.Ref(next).R("optional", "true")
				case 1:
					v = gen.Ref(next).R("nullable", "true")
				case 2:
					v = gen.Arr(gen.Ref(next))
				case 3:
					v = gen.Obj(gen.Ref(next).K("n1").R("optional", "true"))
				default:
					// a choice with an escape: a fresh leaf type when there is room
					if len(p.Types) < 6 {
						leaf := "@t" + strconv.Itoa(len(p.Types)+1)
						p.Types = append(p.Types, gen.NamedNode{Name: leaf, Node: gen.Obj(gen.Int("1").K("m1"))})
						if rng.IntN(2) == 0 {
							v = gen.Ref(next, leaf)
						} else {
							v = gen.Ref(leaf, next)
						}
					} else {
						v = gen.Ref(next).R("optional", "true")
					}
				}
			}
			g.setLink(node(chain[i]), v)
		}
	case 3:
		// a diamond: root -> a, root -> b, a -> d, b -> d
		label = "planted diamond"
		perm := rng.Perm(k)
		a, b, d := further[perm[0]], further[perm[1]], further[perm[2]]
		for _, i := range perm[:3] {
			if p.Types[i].Node.Kind != gen.KObject {
				p.Types[i].Node = g.object()
			}
		}
		p.Root.Children = []*gen.Node{gen.Ref(a).K("m1"), gen.Ref(b).K("m2")}
		if rng.IntN(3) == 0 {
			p.Root.Children = append(p.Root.Children, g.scalar().K("m3"))
		}
		g.setLink(node(a), gen.Ref(d))
		switch rng.IntN(4) {
		case 0:
			g.setLink(node(b), gen.Obj(gen.Ref(d).K("n1")))
		case 1:
			g.setLink(node(b), gen.Ref(d, a))
		default:
			g.setLink(node(b), gen.Ref(d))
		}
		if rng.IntN(2) == 0 { // make the shared type a leaf
			dn := node(d)
			dn.Children = []*gen.Node{g.scalar().K("m1")}
		}
	case 4:
		label = "general, few required links"
	}
	if rng.IntN(4) == 0 {
		// member names that contain each other (a later name inside an earlier one) and the empty name: what a
		// member is called must not matter
		names := []string{"items", "item", "parent_id", "parent", "", "ident", "id", "value", "val", "a", "ab"}
		if rng.IntN(2) == 0 {
			// ordinary (quoted) names that look like something else: a type name, a union, a comment, a reference
			names = []string{"@next", "@t1", "@", "@t1 | @t2", "$ref", "//", "#", "a b", "@id", "é", "@t0"}
			label += " + names that look like type names"
		}
		rename := func(n *gen.Node) {
			n.Walk(func(o *gen.Node) {
				if o.Kind != gen.KObject || len(o.Children) > len(names) {
					return
				}
				for i, m := range o.Children {
					if !m.KeyIsRef {
						m.K(names[i])
					}
				}
			})
		}
		rename(c.Project.Root)
		for _, t := range c.Project.Types {
			rename(t.Node)
		}
		label += " + names that contain each other"
	}
	if g.keyRefs {
		used := false
		see := func(n *gen.Node) {
			n.Walk(func(m *gen.Node) { used = used || m.KeyIsRef })
		}
		see(p.Root)
		for _, t := range p.Types {
			see(t.Node)
		}
		if used {
			p.Types = append(p.Types, gen.NamedNode{Name: c06KeyType, Node: gen.Str("abc")})
		}
	}
	return c, label
}

// ---- the run -------------------------------------------------------------------------

func c06Desc(c c06Case) func() []byte {
	return func() []byte { return []byte(c06Key(c)) }
}

// c06RefWithOr is the pinned witness of a recorded finding: a value that is a type shortcut and carries an `or` rule
// is accepted by Check() (the rule replaces the reference), but such a schema has no example value at all and
// Example() answers "Loader error". Anything else about this input family is reported as usual.
func c06RefWithOr(r *mon.Run) {
	for _, root := range []string{`@t // {or: ["string", "integer"]}`, "{\n  \"k\": @t // {or: [\"string\", \"integer\"]}\n}"} {
		r.Eval(1)
		var cerr, eerr error
		var ex []byte
		if p := mon.Guard(func() {
			s := jschema.New("root", root)
			if err := s.AddType("@t", jschema.New("@t", `1`)); err != nil {
				cerr = err
				return
			}
			if cerr = s.Check(); cerr == nil {
				ex, eerr = s.Example()
			}
		}); p != nil {
			r.Violate("panic", "reference value with an or rule/"+p.Site, "panic: "+p.Value, map[string]any{"root": root})
			continue
		}
		if cerr == nil && (eerr != nil || !stdjson.Valid(ex)) {
			r.Violate("example-error", "a reference value with an or rule", fmt.Sprintf("Check() accepts %q (with @t registered) but Example() answers %q, %v", root, ex, eerr), map[string]any{"root": root})
			return
		}
	}
}

// c06DenseOptional is the pinned witness of a recorded finding: the example builder follows every type twice on
// every path, so n object types that all refer to each other through optional members give an example whose size
// grows faster than n! (n = 5: 0.5 MB, n = 6: 26 MB, n = 7 does not end in minutes).
func c06DenseOptional(r *mon.Run) {
	const n = 6
	r.Eval(1)
	var types []typeDef
	for i := 0; i < n; i++ {
		var mem []string
		for j := 0; j < n; j++ {
			c := ","
			if j == n-1 {
				c = ""
			}
			mem = append(mem, fmt.Sprintf("  \"m%d\": @t%d%s // {optional: true}", j, j, c))
		}
		types = append(types, typeDef{Name: fmt.Sprintf("@t%d", i), Text: "{\n" + strings.Join(mem, "\n") + "\n}"})
	}
	pt := project{Root: `{"r": @t0}`, Types: types}
	var cerr, eerr error
	var size int
	if p := mon.Guard(func() {
		s, err := pt.build()
		if cerr = err; cerr != nil {
			return
		}
		if cerr = s.Check(); cerr == nil {
			var ex []byte
			ex, eerr = s.Example()
			size = len(ex)
		}
	}); p != nil {
		r.Violate("panic", "densely connected optional types/"+p.Site, "panic: "+p.Value, map[string]any{"project": pt})
		return
	}
	if cerr == nil && eerr == nil && size > c06MaxExample {
		r.Violate("example-unbounded", "six object types that all refer to each other through optional members", fmt.Sprintf("Check() passes and Example() returns %d bytes (5 such types: about 0.5 MB, 7: no answer within minutes)", size), map[string]any{"project": pt})
	}
}

func c06Run(r *mon.Run) {
	st := newC06State()
	defer st.flush(r)
	sampled := 0
	if r.Shard == 0 {
		c06RefWithOr(r)
	}
	if r.Shard == 1 {
		c06DenseOptional(r)
	}
	if r.Shard == 2%mon.LogicalShards {
		// pinned witness of a recorded finding: a root that is a type name leading into a cycle of type names
		w := c06Case{Wiring: c06WireShallowSame, Project: &gen.Project{Root: gen.Ref("@t1"), Types: []gen.NamedNode{{Name: "@t1", Node: gen.Ref("@t2")}, {Name: "@t2", Node: gen.Ref("@t2")}}}}
		c06Judge(r, st, w, "pinned: cycle of type names behind the root", false)
	}
	// (1) enumerated families; the global index runs over all of them
	var base uint64
	for _, f := range c06Families() {
		if f.Thorough && !r.Thor {
			continue
		}
		n := f.size()
		if f.Sample > 0 {
			rng := r.Rand("c06/" + f.Name)
			for i, m := 0, r.Share(f.Sample); i < m; i++ {
				c := f.decode(rng.Uint64N(n))
				if !r.Begin(c06Desc(c)) {
					continue
				}
				c06Judge(r, st, c, f.Name, true)
			}
			r.Count("cases_of_family "+f.Name, int64(r.Share(f.Sample)))
			continue
		}
		cnt := int64(0)
		for idx := uint64(0); idx < n; idx++ {
			if (base+idx)%mon.LogicalShards != uint64(r.Shard) {
				continue
			}
			c := f.decode(idx)
			cnt++
			if !r.Begin(c06Desc(c)) {
				continue
			}
			v := c06Judge(r, st, c, f.Name, true)
			if sampled < 2 && v.Judged && idx%7 == 3 {
				sampled++
				r.Sample(map[string]any{"kind": "enumerated", "family": f.Name, "case": c06Key(c), "class": v.Class, "check_code": v.Lib.Code, "example": mon.Trunc(string(v.Lib.Example), 200)})
			}
		}
		base += n
		r.Count("cases_of_family "+f.Name, cnt)
	}
	// (2) random graphs over up to 7 types
	rng := r.Rand("c06")
	n := r.Share(r.Pick(50_000, 2_000_000))
	for i := 0; i < n; i++ {
		c, label := c06Random(rng)
		if !r.Begin(c06Desc(c)) {
			continue
		}
		v := c06Judge(r, st, c, "random: "+label, true)
		r.Count(fmt.Sprintf("random_graphs_with_%d_types", len(c.Project.Types)+1), 1)
		if i == 5 {
			r.Sample(map[string]any{"kind": "random", "family": label, "case": c06Key(c), "class": v.Class, "check_code": v.Lib.Code, "example": mon.Trunc(string(v.Lib.Example), 200)})
		}
	}
}

func init() {
	register(&mon.CheckDef{
		ID:       "C06",
		Run:      c06Run,
		Finalize: c06Finalize,
		Replay: func(r *mon.Run, raw stdjson.RawMessage) {
			var c c06Case
			if stdjson.Unmarshal(raw, &c) == nil && c.Project != nil && c.Project.Root != nil {
				c06Judge(r, nil, c, "replay", false)
			}
		},
		Rule:               "type-reference graphs are built as project models (root object + further object types), printed and compiled; the root is given the file name @main and registered under that name (the library's idiom for a root that can name itself) or left unregistered, and the types are registered on the root only (the repository tests' idiom) or on every type as well. Reference: least fix-point of 'has a finite instance' (optional members, nullable values and arrays are satisfiable by omission / null / []; an object needs all its mandatory members; @a | @b needs one alternative) and a breadth-first search over required plain single-type members of object types from the root back to @main. Judged: 104 although the root is finite (false-alarm); self-requiring root not answered with 104 (missed-self-requirement); for every accepted schema Example() must return, without error, at most 8 MiB of text that encoding/json.Valid accepts. Enumerated completely: root alone, root + 1 type (1-2 ordered members each over the alphabet {scalar, @x, @x optional, @x nullable, [@x], @x | @y, {\"n1\": @x}} for all targets), root (1-2 members) + 2 types (1 member), the same without registration; thorough adds root + 3 types with 1 member each, unregistered root + 2 types with 1-2 members, and samples of the families that are too large (root + 2 / 3 types with 1-2 members each). Random: graphs over up to 7 types with planted chains of 1-7 required links back to the root, the same chain with one weakened link, planted diamonds, choices of 2-3, alias types, nested objects, arrays of choices / objects, explicit optional: false / nullable: false. A case is non-trivial when a clause applied and the library's answer was compared (finite or self-requiring root, or an accepted schema whose example was checked); distinct by wiring + printed project.",
		MinNontrivialQuick: 300_000, MinNontrivialThorough: 4_000_000,
		MaxInconclusiveFrac: 0.02,
		Assumptions: []string{
			"only the three clauses are judged: a root without a finite instance that does not reach @main over required plain members of object types (a cycle among other types - pinned as accepted by TestSchema_Example -, choices whose alternatives all recurse, links through nested objects or alias types) is 'unspecified': counted, its Check() verdict is never judged",
			"the 8 MiB example bound stands in for 'finite': generated object types mention types in at most two members, so an example that expands every type at most twice per path stays far below it",
			"a generated project answered with a code other than 0 / 104 is inconclusive (generator mismatch) unless the root is self-requiring, where anything but 104 is the violation the property names",
		},
		Exhaustive: "every graph of the families R0, R1, R2a, U1, U2a (quick) and R3a, U2b (thorough) under both wirings",
	})
}
