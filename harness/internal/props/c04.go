package props

import (
	stdjson "encoding/json"
	"fmt"
	"math/rand/v2"
	"strings"

	schema "github.com/jsightapi/jsight-schema-core"
	"github.com/jsightapi/jsight-schema-core/notations/jschema"

	"verifharness/internal/gen"
	"verifharness/internal/mon"
	"verifharness/internal/ref"
)

// genAccepted draws projects until the reference evaluator does not predict a
// value violation (so that Check() can be expected to pass and the AST exists).
func genAccepted(rng *rand.Rand, exotic bool) *gen.Project {
	for i := 0; ; i++ {
		p := gen.GenProject(rng, i < 3, exotic)
		if v, _ := ref.EvalProject(p); v != ref.Viol {
			return p
		}
	}
}

type c04Case struct {
	Project *gen.Project `json:"project"`
	Layout  gen.Layout   `json:"layout"`
}

// astOf builds the project and returns the AST of the root and of every JSchema type.
func astOf(pt project) (root schema.ASTNode, types map[string]schema.ASTNode, err error, p *mon.Panic) {
	types = map[string]schema.ASTNode{}
	p = mon.Guard(func() {
		s, berr := pt.build()
		if berr != nil {
			err = berr
			return
		}
		if err = s.Check(); err != nil {
			return
		}
		root, err = s.GetAST()
		if err != nil {
			return
		}
		for name, ts := range s.UserTypeCollection {
			a, aerr := ts.GetAST()
			if aerr != nil {
				err = fmt.Errorf("GetAST of type %s: %w", name, aerr)
				return
			}
			types[name] = a
		}
	})
	return
}

func c04Judge(r *mon.Run, p *gen.Project, l gen.Layout) bool {
	r.Eval(1)
	pt := toTexts(p, l)
	cs := c04Case{p, l}
	root, types, err, pn := astOf(pt)
	if pn != nil {
		r.Violate("panic", "GetAST/"+pn.Site, fmt.Sprintf("building the AST panicked (%s) on %s", pn.Value, mon.Trunc(projectKey(pt), 300)), cs)
		return false
	}
	if err != nil {
		r.Inconclusive("project-not-accepted")
		if r.Shard == 0 {
			r.Note("not accepted: " + mon.Trunc(err.Error(), 100) + " :: " + mon.Trunc(projectKey(pt), 200))
		}
		return false
	}
	report := func(d, where string, n *gen.Node) {
		clause := d[:strings.Index(d, ":")]
		// minimise: the printed text of the smallest sub-tree that still shows the difference
		key := where + " " + gen.Print(n, gen.DefaultLayout)
		if len(key) > 240 {
			key = where + " " + d
		}
		r.Violate(clause, key, fmt.Sprintf("%s (layout %+v)", d, l), cs)
	}
	if d := ref.CompareAST(p.Root, root, "root"); d != "" {
		report(d, "root", p.Root)
		return true
	}
	for _, t := range p.Types {
		a, ok := types[t.Name]
		if !ok {
			r.Violate("ast-shape", "type "+t.Name+" missing", "registered type has no AST", cs)
			return true
		}
		if d := ref.CompareAST(t.Node, a, t.Name); d != "" {
			report(d, t.Name, t.Node)
			return true
		}
	}
	return true
}

// bigRuleValues adds rule values with very long digit strings to a project's scalars.
func c04Spice(rng *rand.Rand, p *gen.Project) {
	digits := func(n int) string {
		b := make([]byte, n)
		for i := range b {
			b[i] = byte('0' + rng.IntN(10))
		}
		if b[0] == '0' {
			b[0] = '7'
		}
		return string(b)
	}
	p.Root.Walk(func(n *gen.Node) {
		if (n.Kind == gen.KInt || n.Kind == gen.KFloat) && len(n.Rules) == 0 && rng.IntN(3) == 0 {
			n.R("max", digits(1+rng.IntN(40)))
			if rng.IntN(2) == 0 {
				n.R("min", "-"+digits(1+rng.IntN(40))+"."+digits(1+rng.IntN(10)))
			}
		}
		if n.Kind == gen.KString && len(n.Rules) == 0 && rng.IntN(4) == 0 {
			n.R("maxLength", digits(3+rng.IntN(16)))
		} else if n.Kind == gen.KString && len(n.Rules) == 0 && rng.IntN(6) == 0 {
			// bytes that are not UTF-8, before and after an escape: the AST reports the replacement character for each
			n.Lit = []string{"\"a\xffb\"", "\"\xfe-\\n-\xfe\"", "\"caf\xe9\"", "\"\xed\xa0\x80\"", "\"\xf0\x9f\x98\"", "\"\\t\xc3\"", "\"\xc3(\"", "\"ok\xe2\x82\"",
				`"a\ud800\udc00b"`, `"a\udbff\udfffb"`, `"\ud83d\ude00"`, `"\udbff\udc00"`, `"\ud800\udfff"`, `"\uD83D\uDE00 \ud800"`, `"\udfff\ud800"`}[rng.IntN(15)]
		}
		if n.Kind == gen.KArray && len(n.Rules) == 0 && rng.IntN(4) == 0 {
			n.R("maxItems", digits(2+rng.IntN(17)))
		}
	})
}

// c04Boundary: rule values around the machine-word boundaries, in every annotation placement. Most of these
// schemas are rejected (value out of range); the ones that are accepted must report exactly the written value.
func c04Boundary(r *mon.Run) {
	if r.Shard != 0 {
		return
	}
	values := []string{"0", "1", "4294967295", "4294967296", "9223372036854775807", "9223372036854775808", "18446744073709551614", "18446744073709551615",
		"18446744073709551616", "18446744073709551617", "18446744073709551618", "18446744073709551619", "18446744073709551626", "36893488147419103232",
		"10000000000000000000", "99999999999999999999", "100000000000000000000", "340282366920938463463374607431768211456"}
	type mk func(v string) *gen.Node
	makers := map[string]mk{
		"maxLength": func(v string) *gen.Node { return gen.Str("abc").R("maxLength", v) },
		"minLength": func(v string) *gen.Node { return gen.Str("").R("minLength", v) },
		"maxItems":  func(v string) *gen.Node { return gen.Arr(gen.Int("1")).R("maxItems", v) },
		"minItems":  func(v string) *gen.Node { return gen.Arr().R("minItems", v) },
		"precision": func(v string) *gen.Node { return gen.Float("1.5").R("precision", v) },
		"max":       func(v string) *gen.Node { return gen.Int("1").R("max", v) },
		"min":       func(v string) *gen.Node { return gen.Int("1").R("min", "-"+v) },
	}
	for name, m := range makers {
		for _, v := range values {
			for _, place := range []int{0, 1, 2} {
				n := m(v)
				var root *gen.Node
				switch place {
				case 0:
					root = n
				case 1:
					root = gen.Obj(n.K("k"), gen.Int("2").K("z"))
				default:
					root = gen.Arr(gen.Str("pad"), n)
				}
				for _, l := range []gen.Layout{gen.DefaultLayout, {NL: "\n", Indent: " ", Multi: true, Spread: true, Pad: 2, AnnGap: 2}} {
					p := &gen.Project{Root: root}
					if c04Judge(r, p, l) {
						r.Count("boundary_rule_values_accepted_and_compared", 1)
						r.Nontrivial("boundary", name, v, fmt.Sprint(place), l.NL, fmt.Sprint(l.Multi))
					}
				}
			}
		}
	}
}

func c04Run(r *mon.Run) {
	c04Boundary(r)
	c04ItemComments(r)
	rng := r.Rand("c04")
	n := r.Share(r.Pick(60_000, 2_000_000))
	accepted := 0
	for i := 0; i < n; i++ {
		p := genAccepted(rng, true)
		if rng.IntN(3) == 0 {
			c04Spice(rng, p)
		}
		l := gen.RandLayout(rng)
		l.Comments, l.EmptyHash, l.HashGlue = 0, 0, false
		if rng.IntN(3) == 0 {
			l = gen.DefaultLayout
		}
		if c04Judge(r, p, l) {
			accepted++
			r.Nontrivial(projectKey(toTexts(p, l)))
		}
		if i < 2 {
			r.Sample(map[string]any{"project": projectKey(toTexts(p, l))})
		}
	}
	r.Count("projects_accepted_and_compared", int64(accepted))
}

func init() {
	register(&mon.CheckDef{
		ID:  "C04",
		Run: c04Run,
		Replay: func(r *mon.Run, raw stdjson.RawMessage) {
			var c c04Case
			if stdjson.Unmarshal(raw, &c) == nil && c.Project != nil {
				c04Judge(r, c.Project, c.Layout)
			}
		},
		Rule:               "random structurally valid, value-satisfying projects (objects, arrays, all scalar kinds, type shortcuts as values and as keys, every rule kind incl. nested or / enum / allOf lists and rule-sets, notes, keys and strings needing escapes, rule values with up to 40 digits) are printed under a random layout (inline // or multi-line /* */ annotations, rules only / note only / both, quoted or bare rule names, spacing, LF/CRLF/CR) and compiled; the AST of the root and of every registered type is walked in parallel with the model: element count and order, TokenType, Key, IsKeyShortcut, decoded Value / reference text, Comment (modulo blanks), and the manually written rules (names, order, values; numbers compared as exact decimals). distinct_nontrivial = distinct accepted printed projects (hashed).",
		MinNontrivialQuick: 20000, MinNontrivialThorough: 300000,
		MaxInconclusiveFrac: 0.15,
		Assumptions: []string{"the model printer and the library's parser are the two sides being compared; rules the library marks Source=Generated are ignored", "TokenType of a quoted user-type name inside a rule value may be 'string' or 'reference' (the library uses both)",
			"SchemaType and InheritedFrom are not judged here (C20 / C07)"},
	})
}

// c04ItemComments: the items of an enum list written inside a multi-line annotation may carry `//` comments of their
// own; the AST reports each comment with its item, exactly as written (a `#`, `/*` or `//` inside it is comment text).
func c04ItemComments(r *mon.Run) {
	comments := []string{"first", "see issue #12", "a // b", "50% /* off", "poza liczbą", "ok 😅", "{min: 1}", "- dash", "x", "two  blanks", "@a | @b"}
	idx := 0
	for _, nl := range []string{"\n", "\r\n", "\r"} {
		for ci, c1 := range comments {
			c2 := comments[(ci+3)%len(comments)]
			for _, shape := range []string{
				`"a" /* {enum: [%NL%  "a", // %C1%%NL%  "b" // %C2%%NL%]} */`,
				`"a" /* {minLength: 1, enum: [%NL%  "a", // %C1%%NL%  "b", // %C2%%NL%  7%NL%]} - note */`,
				`{%NL%  "k": "b" /* {or: [{type: "enum", enum: [%NL%    "a", // %C1%%NL%    "b" // %C2%%NL%  ]}, "integer"]} */%NL%}`,
			} {
				if !r.Mine(idx) {
					idx++
					continue
				}
				idx++
				text := strings.NewReplacer("%NL%", nl, "%C1%", c1, "%C2%", c2).Replace(shape)
				r.Eval(1)
				var ast schema.ASTNode
				var err error
				if p := mon.Guard(func() {
					s := jschema.New("root", text)
					if err = s.Check(); err == nil {
						ast, err = s.GetAST()
					}
				}); p != nil {
					r.Violate("panic", "GetAST/"+p.Site, fmt.Sprintf("GetAST panicked (%s) on %q", p.Value, text), map[string]any{"text": text})
					continue
				}
				if err != nil {
					r.Inconclusive("item-comment-text-not-accepted")
					if r.Shard == 0 {
						r.Note("item comment text not accepted: " + mon.Trunc(err.Error(), 80) + " :: " + mon.Trunc(text, 120))
					}
					continue
				}
				node := ast
				if len(ast.Children) == 1 {
					node = ast.Children[0]
				}
				var items []schema.RuleASTNode
				if node.Rules != nil {
					if e, ok := node.Rules.Get("enum"); ok {
						items = e.Items
					} else if o, ok := node.Rules.Get("or"); ok && len(o.Items) > 0 && o.Items[0].Properties != nil {
						if e, ok := o.Items[0].Properties.Get("enum"); ok {
							items = e.Items
						}
					}
				}
				r.Nontrivial("itemc", text)
				if len(items) < 2 || items[0].Comment != c1 || items[1].Comment != c2 {
					got := []string{}
					for _, it := range items {
						got = append(got, it.Comment)
					}
					r.Violate("ast-item-comment", fmt.Sprintf("%q / %q in %s", c1, c2, mon.Trunc(shape, 40)), fmt.Sprintf("the enum items are commented %q and %q; the AST reports the comments %q for %q", c1, c2, got, text), map[string]any{"text": text})
				}
			}
		}
	}
}
