package props

// C07, family "placements": the inheriting object in every place an object can stand (root, member, array item,
// nested array item, root of a type, array item inside a type), over parents of several shapes (plain, with a key
// shortcut, inheriting themselves, with an optional member). The oracle is the example text assembled here from
// the shapes: own members first, inherited ones after them in the parent's order; and a refusal whenever the
// parent is missing, is not an object, or brings a name the heir has.

import (
	stdjson "encoding/json"
	"fmt"
	"strings"

	"github.com/jsightapi/jsight-schema-core/openapi"

	"verifharness/internal/mon"
)

// c07OrderedTopKeys returns the member names of a JSON object text in written order.
func c07OrderedTopKeys(obj string) []string {
	dec := stdjson.NewDecoder(strings.NewReader(obj))
	var keys []string
	depth, expectKey := 0, false
	for {
		tok, err := dec.Token()
		if err != nil {
			return keys
		}
		switch t := tok.(type) {
		case stdjson.Delim:
			switch t {
			case '{', '[':
				depth++
				expectKey = t == '{' && depth == 1
			default:
				depth--
				expectKey = depth == 1
			}
		case string:
			if depth == 1 && expectKey {
				keys = append(keys, t)
				expectKey = false
				continue
			}
			expectKey = depth == 1
		default:
			expectKey = depth == 1
		}
	}
}

func c07TopKeys(obj string) map[string]struct{} {
	m := map[string]struct{}{}
	for _, k := range c07OrderedTopKeys(obj) {
		m[k] = struct{}{}
	}
	return m
}

type c07Parent struct {
	name    string
	types   []typeDef // the parent @p and what it needs
	members string    // the members an heir receives, as they appear in an example
	literal string    // one of them that is written as a literal name in the parent
}

func c07Parents() []c07Parent {
	return []c07Parent{
		{"plain", []typeDef{{Name: "@p", Text: `{"a": 3, "o": 4}`}}, `"a":3,"o":4`, `"a"`},
		{"key shortcut", []typeDef{{Name: "@p", Text: "{\n  @K: 2,\n  \"p\": 3\n}"}, {Name: "@K", Text: `"abc"`}}, `"abc":2,"p":3`, `"p"`},
		{"key shortcut last", []typeDef{{Name: "@p", Text: "{\n  \"p\": 3,\n  @K: 2\n}"}, {Name: "@K", Text: `"abc" // {minLength: 1}`}}, `"p":3,"abc":2`, `"p"`},
		{"chain", []typeDef{{Name: "@p", Text: "{ // {allOf: \"@q\"}\n  \"m\": 5\n}"}, {Name: "@q", Text: `{"z": true}`}}, `"m":5,"z":true`, `"z"`},
		{"optional member", []typeDef{{Name: "@p", Text: "{\n  \"a\": 3,\n  \"o\": 4 // {optional: true}\n}"}}, `"a":3,"o":4`, `"o"`},
		{"nested object member", []typeDef{{Name: "@p", Text: "{\n  \"n\": {\n    \"d\": [1]\n  }\n}"}}, `"n":{"d":[1]}`, `"n"`},
		{"member typed by an inheriting type", []typeDef{{Name: "@p", Text: `{"x": @q}`}, {Name: "@q", Text: "{ // {allOf: \"@r\"}\n  \"q\": 1\n}"}, {Name: "@r", Text: `{"r": 2}`}}, `"x":{"q":1,"r":2}`, `"x"`},
	}
}

type c07Placement struct {
	name string
	// root text and extra types given the heir text; example given the heir's example
	root    func(h string) (string, []typeDef)
	example func(eh string) string
}

func c07Placements() []c07Placement {
	ind := func(h, pad string) string { return strings.ReplaceAll(h, "\n", "\n"+pad) }
	return []c07Placement{
		{"root", func(h string) (string, []typeDef) { return h, nil }, func(e string) string { return e }},
		{"member", func(h string) (string, []typeDef) { return "{\n  \"x\": " + ind(h, "  ") + "\n}", nil }, func(e string) string { return `{"x":` + e + `}` }},
		{"array item", func(h string) (string, []typeDef) { return "[\n  " + ind(h, "  ") + "\n]", nil }, func(e string) string { return `[` + e + `]` }},
		{"second array item", func(h string) (string, []typeDef) { return "[\n  1,\n  " + ind(h, "  ") + "\n]", nil }, func(e string) string { return `[1,` + e + `]` }},
		{"array item in a member", func(h string) (string, []typeDef) { return "{\n  \"list\": [\n    " + ind(h, "    ") + "\n  ]\n}", nil }, func(e string) string { return `{"list":[` + e + `]}` }},
		{"nested array item", func(h string) (string, []typeDef) { return "[\n  [\n    " + ind(h, "    ") + "\n  ]\n]", nil }, func(e string) string { return `[[` + e + `]]` }},
		{"root of a type", func(h string) (string, []typeDef) { return "@t", []typeDef{{Name: "@t", Text: h}} }, func(e string) string { return e }},
		{"array item inside a type", func(h string) (string, []typeDef) {
			return "{\n  \"k\": @t\n}", []typeDef{{Name: "@t", Text: "[\n  " + ind(h, "  ") + "\n]"}}
		}, func(e string) string { return `{"k":[` + e + `]}` }},
		{"member of a member of a type", func(h string) (string, []typeDef) {
			return "[@t]", []typeDef{{Name: "@t", Text: "{\n  \"u\": {\n    \"v\": " + ind(h, "    ") + "\n  }\n}"}}
		}, func(e string) string { return `[{"u":{"v":` + e + `}}]` }},
		// a choice that names the parent and the heir (the example is that of the first alternative: not compared)
		{"root choice of the parent and the heir", func(h string) (string, []typeDef) { return "@p | @t", []typeDef{{Name: "@t", Text: h}} }, func(string) string { return "" }},
		{"root choice of the heir and the parent", func(h string) (string, []typeDef) { return "@t | @p", []typeDef{{Name: "@t", Text: h}} }, func(string) string { return "" }},
		{"member choice of the parent and the heir", func(h string) (string, []typeDef) {
			return "{\n  \"c\": @p | @t\n}", []typeDef{{Name: "@t", Text: h}}
		}, func(string) string { return "" }},
	}
}

// c07ExtraAll makes the family run every case in this process (replay).
var c07ExtraAll bool

func c07ExtraRun(r *mon.Run) {
	idx := 0
	for _, par := range c07Parents() {
		for _, pl := range c07Placements() {
			for variant := 0; variant < 8; variant++ {
				if !c07ExtraAll && !r.Mine(idx) {
					idx++
					continue
				}
				idx++
				heir := "{ // {allOf: \"@p\"}\n  \"own\": 1\n}"
				wantEx := `{"own":1,` + par.members + `}`
				types := append([]typeDef(nil), par.types...)
				wantRefused, why := false, ""
				switch variant {
				case 1: // the parent is not registered
					types = types[1:]
					wantRefused, why = true, "the parent @p is not registered"
				case 2: // the parent is not an object
					types[0] = typeDef{Name: "@p", Text: `5`}
					wantRefused, why = true, "the parent @p is not an object"
				case 3: // the heir has a member of a name the parent brings
					first := par.literal
					heir = "{ // {allOf: \"@p\"}\n  \"own\": 1,\n  " + first + ": 9\n}"
					wantRefused, why = true, "the heir and the parent both have the member "+first
				case 4: // a quoted own key that looks like the parent's key shortcut is another member
					heir = "{ // {allOf: \"@p\"}\n  \"own\": 1,\n  \"@K\": 9\n}"
					wantEx = `{"own":1,"@K":9,` + par.members + `}`
				case 5: // allOf written as a list
					heir = "{ // {allOf: [\"@p\"]}\n  \"own\": 1\n}"
				case 6: // the same parent named twice: its members arrive twice
					heir = "{ // {allOf: [\"@p\", \"@p\"]}\n  \"own\": 1\n}"
					wantRefused, why = true, "the parent @p is listed twice, so each of its members arrives twice"
				case 7: // the parent named again behind another type that inherits from it
					heir = "{ // {allOf: [\"@p2\", \"@p\"]}\n  \"own\": 1\n}"
					types = append(types, typeDef{Name: "@p2", Text: "{ // {allOf: \"@p\"}\n  \"second\": 2\n}"})
					wantRefused, why = true, "@p2 inherits from @p and @p is listed as well, so the members of @p arrive twice"
				}
				root, extra := pl.root(heir)
				// every second case: the tables of the types hold objects of their own for the other types
				p := project{Root: root, Types: append(types, extra...), OwnTables: idx%2 == 0, PartialTables: idx%3 == 1}
				want := pl.example(wantEx)
				key := fmt.Sprintf("placement %q, parent %q, variant %d", pl.name, par.name, variant)
				cs := map[string]any{"kind": "placement", "project": p}
				r.Eval(1)
				var code int
				var ex string
				var exErr error
				var listings [][]string
				if pn := mon.Guard(func() {
					s, berr := p.build()
					if berr != nil {
						v, _ := viewError(berr)
						code = v.Code
						if code == 0 {
							code = -1
						}
						return
					}
					if err := s.Check(); err != nil {
						v, _ := viewError(err)
						code = v.Code
						if code == 0 {
							code = -1
						}
						return
					}
					b, e := s.Example()
					ex, exErr = string(b), e
					// the OpenAPI listing: every object that lists the heir's own member lists the inherited ones too
					for _, inf := range openapi.Dereference(s) {
						if oi, ok := inf.(openapi.ObjectInformer); ok {
							var keys []string
							for _, pi := range oi.PropertiesInfos() {
								keys = append(keys, pi.Key())
							}
							listings = append(listings, keys)
						}
					}
				}); pn != nil {
					r.Violate("panic", "placement/"+pn.Site, fmt.Sprintf("%s: panic %s on %s", key, pn.Value, mon.Trunc(projectKey(p), 300)), cs)
					continue
				}
				r.Nontrivial("placement", projectKey(p))
				switch {
				case wantRefused && code == 0:
					r.Violate("accepted-invalid", key, fmt.Sprintf("Check() accepts although %s: %s", why, mon.Trunc(projectKey(p), 300)), cs)
				case !wantRefused && code != 0:
					r.Violate("refused-valid", key, fmt.Sprintf("Check() refuses (code %d) a valid inheritance: %s", code, mon.Trunc(projectKey(p), 300)), cs)
				case !wantRefused && want != "" && (exErr != nil || ex != want):
					r.Violate("example-keys", key, fmt.Sprintf("Example() is %s (%v); own members followed by the inherited ones give %s; project %s", mon.Trunc(ex, 200), exErr, want, mon.Trunc(projectKey(p), 300)), cs)
				}
				if !wantRefused && code == 0 && !strings.Contains(par.name, "key shortcut") {
					// the keys of the heir as its example shows them (own first, then inherited)
					wantKeys := c07OrderedTopKeys(wantEx)
					for _, l := range listings {
						has := false
						for _, k := range l {
							if k == "own" {
								has = true
							}
						}
						if has {
							r.Count("openapi_listings_of_the_heir_compared", 1)
							if strings.Join(l, ",") != strings.Join(wantKeys, ",") {
								r.Violate("openapi-keys", key, fmt.Sprintf("openapi.Dereference lists the inheriting object with the properties %v; own members followed by the inherited ones are %v; project %s", l, wantKeys, mon.Trunc(projectKey(p), 300)), cs)
							}
						}
					}
				}
				r.Count("placement_cases", 1)
			}
		}
	}
}
