package props

import (
	stdjson "encoding/json"
	"fmt"
	"math/rand/v2"
	"regexp"
	"runtime/debug"
	"sort"
	"strings"

	schema "github.com/jsightapi/jsight-schema-core"
	"github.com/jsightapi/jsight-schema-core/notations/jschema"
	"github.com/jsightapi/jsight-schema-core/notations/regex"
	"github.com/jsightapi/jsight-schema-core/rules/enum"

	"verifharness/internal/gen"
	"verifharness/internal/mon"
	"verifharness/internal/ref"
)

// C05 — type references resolve exactly; UsedUserTypes() lists exactly the names used.
//
// The reference side is the project MODEL: which type names a node mentions is
// read off the model by rule name and position (c05Refs), never off the text.

const (
	c05CodeNotFound = 1302 // errs.ErrUserTypeNotFound
	c05PinnedKey    = "root 1 ; @a = @zz (registered, unreachable) ; @zz missing"
)

// ---- reference: names a model node refers to ------------------------------------------

func c05IsTypeLit(lit string) (string, bool) {
	// a name may be spelled with JSON escapes ("\u0040a"): what counts is the decoded text
	if strings.HasPrefix(lit, `"`) {
		if dec := ref.Unq(lit); strings.HasPrefix(dec, "@") {
			return dec, true
		}
	}
	return "", false
}

// c05Esc spells a type name with JSON escapes: the '@' and the last character as \uXXXX.
func c05Esc(name string) string {
	last := name[len(name)-1]
	return fmt.Sprintf(`"\u0040%s\u%04x"`, name[1:len(name)-1], last)
}

// c05Refs returns, in source order and without repetitions, the user type
// names mentioned anywhere below n: value shortcuts (`@a`, `@a | @b`), key
// shortcuts, `type`, `or` (plain names and the `type` / `additionalProperties`
// of rule-sets), `allOf` (one name or a list) and `additionalProperties`.
// Enum rule names (`enum: @e`), enum items and example strings that merely
// look like a type name are not references.
func c05Refs(n *gen.Node) []string {
	var out []string
	seen := map[string]bool{}
	add := func(s string) {
		if !seen[s] {
			seen[s] = true
			out = append(out, s)
		}
	}
	var rules func(rs []gen.Rule, inSet bool)
	rules = func(rs []gen.Rule, inSet bool) {
		for _, r := range rs {
			switch r.Name {
			case "type", "additionalProperties":
				if t, ok := c05IsTypeLit(r.Val.Lit); ok {
					add(t)
				}
			case "allOf":
				if t, ok := c05IsTypeLit(r.Val.Lit); ok {
					add(t)
				}
				for _, it := range r.Val.List {
					if t, ok := c05IsTypeLit(it.Lit); ok {
						add(t)
					}
				}
			case "or":
				if inSet {
					continue
				}
				for _, it := range r.Val.List {
					if it.IsSet || len(it.Set) > 0 {
						rules(it.Set, true)
					} else if t, ok := c05IsTypeLit(it.Lit); ok {
						add(t)
					}
				}
			}
		}
	}
	n.Walk(func(m *gen.Node) {
		if m.KeyIsRef {
			add(m.Key)
		}
		if m.Kind == gen.KRef {
			for _, t := range m.Refs {
				add(t)
			}
		}
		rules(m.Rules, false)
	})
	return out
}

// c05Graph is the reference graph of a project.
type c05Graph struct {
	root  []string
	types map[string][]string // every defined type (regex types refer to nothing)
	order []string
}

func c05GraphOf(p *gen.Project) c05Graph {
	g := c05Graph{root: c05Refs(p.Root), types: map[string][]string{}}
	for _, t := range p.Types {
		g.types[t.Name] = c05Refs(t.Node)
		g.order = append(g.order, t.Name)
	}
	for _, t := range p.Regexes {
		g.types[t.Name] = nil
		g.order = append(g.order, t.Name)
	}
	return g
}

// missing computes, for the registered set (defined and not withheld):
// M = names reachable from the root (through registered types only) that are
// not registered; dangling = names mentioned by registered types the root does
// not reach and that are not registered.
func (g c05Graph) missing(withheld map[string]bool) (M map[string]bool, dangling map[string]bool) {
	registered := func(n string) bool { _, ok := g.types[n]; return ok && !withheld[n] }
	reach := map[string]bool{}
	M = map[string]bool{}
	var visit func(names []string)
	visit = func(names []string) {
		for _, n := range names {
			if reach[n] {
				continue
			}
			reach[n] = true
			if registered(n) {
				visit(g.types[n])
			} else {
				M[n] = true
			}
		}
	}
	visit(g.root)
	dangling = map[string]bool{}
	for _, n := range g.order {
		if !registered(n) || reach[n] {
			continue
		}
		for _, m := range g.types[n] {
			if !registered(m) {
				dangling[m] = true
			}
		}
	}
	return
}

// ---- running the library -------------------------------------------------------------

func c05Registered(pt project, withheld map[string]bool) project {
	out := project{Root: pt.Root, Rules: pt.Rules}
	for _, t := range pt.Types {
		if !withheld[t.Name] {
			out.Types = append(out.Types, t)
		}
	}
	return out
}

type c05Obs struct {
	Code        int
	Msg         string
	UsedBefore  []string // UsedUserTypes() of the built root before Check()
	UsedAfter   []string // ... and after Check()
	UsedChecked []string // UsedUserTypes() of a second, equally built root whose first call was Check()
	HasChecked  bool
	UsedErr     string
	Panic       *mon.Panic
	BuildFailed bool
}

// c05Observe builds the project (withheld types are registered nowhere), asks
// for the used types, runs Check() and asks again.
func c05Observe(reg project, rootOnly bool) c05Obs {
	var o c05Obs
	o.Panic = mon.Guard(func() {
		var s *jschema.JSchema
		var err error
		if rootOnly {
			s, err = c05BuildRootOnly(reg)
		} else {
			s, err = reg.build()
		}
		if err == nil {
			u, uerr := s.UsedUserTypes()
			if uerr != nil {
				o.UsedErr = uerr.Error()
			}
			o.UsedBefore = append([]string(nil), u...)
			err = s.Check()
			u, _ = s.UsedUserTypes()
			o.UsedAfter = append([]string(nil), u...)
			// the other order of calls, on a second object: Check() (and GetAST, Example) first, the names afterwards
			var s2 *jschema.JSchema
			var err2 error
			if rootOnly {
				s2, err2 = c05BuildRootOnly(reg)
			} else {
				s2, err2 = reg.build()
			}
			if err2 == nil {
				_ = s2.Check()
				_, _ = s2.GetAST()
				_, _ = s2.Example()
				if u2, e := s2.UsedUserTypes(); e == nil {
					o.UsedChecked, o.HasChecked = append([]string(nil), u2...), true
				}
			}
		} else {
			o.BuildFailed = true
		}
		if err != nil {
			v, _ := viewError(err)
			o.Code, o.Msg = v.Code, v.Message
			if !v.HasCode {
				o.Code, o.Msg = -1, err.Error()
			}
		}
	})
	return o
}

// c05BuildRootOnly registers rules and types in the root only. Check() of the
// root consults nothing but the root's own type table, so for the root this is
// project.build() without the k*k registrations of every type in every type.
func c05BuildRootOnly(p project) (*jschema.JSchema, error) {
	s := jschema.New("root", p.Root)
	for _, r := range p.Rules {
		if err := s.AddRule(r.Name, enum.New(r.Name, r.Text)); err != nil {
			return s, err
		}
	}
	for _, t := range p.Types {
		var ts schema.Schema
		if t.Regex {
			ts = regex.New(t.Name, t.Text)
		} else {
			tt := jschema.New(t.Name, t.Text)
			for _, r := range p.Rules {
				if err := tt.AddRule(r.Name, enum.New(r.Name, r.Text)); err != nil {
					return s, err
				}
			}
			ts = tt
		}
		if err := s.AddType(t.Name, ts); err != nil {
			return s, err
		}
	}
	return s, nil
}

// c05UsedOfText asks a fresh, type-less schema object for its used types.
// Enum rules are rules, not types: they are supplied so that the text loads.
func c05UsedOfText(name, text string, rules []typeDef) (used []string, err error, pn *mon.Panic) {
	pn = mon.Guard(func() {
		s := jschema.New(name, text)
		for _, r := range rules {
			if err = s.AddRule(r.Name, enum.New(r.Name, r.Text)); err != nil {
				return
			}
		}
		var u []string
		u, err = s.UsedUserTypes()
		used = append([]string(nil), u...)
	})
	return
}

func c05Set(ss []string) string {
	c := append([]string(nil), ss...)
	sort.Strings(c)
	out := c[:0]
	for i, s := range c {
		if i == 0 || c[i-1] != s {
			out = append(out, s)
		}
	}
	return strings.Join(out, ",")
}

func c05HasDup(ss []string) bool {
	seen := map[string]bool{}
	for _, s := range ss {
		if seen[s] {
			return true
		}
		seen[s] = true
	}
	return false
}

var c05NotFoundRE = regexp.MustCompile(`Type "([^"]*)" not found`)

// ---- cases and verdicts -----------------------------------------------------------------

type c05Case struct {
	Kind     string       `json:"kind"` // subset | used | extra | pinned | corpus
	Project  *gen.Project `json:"project,omitempty"`
	Layout   gen.Layout   `json:"layout"`
	Withheld []string     `json:"withheld,omitempty"`
	Extras   []typeDef    `json:"extras,omitempty"`
	Text     string       `json:"text,omitempty"`
}

type c05Verdict struct {
	Clause string // "" = no violation
	What   string
	Status string // judged-missing | judged-complete | carved | other-error | other-error-complete | generator-invalid
	Code   int
}

func c05Withheld(list []string) map[string]bool {
	m := map[string]bool{}
	for _, n := range list {
		m[n] = true
	}
	return m
}

func c05Key(pt project, withheld map[string]bool) string {
	var sb strings.Builder
	sb.WriteString(pt.Root)
	ts := append([]typeDef(nil), pt.Types...)
	sort.Slice(ts, func(i, j int) bool { return ts[i].Name < ts[j].Name })
	for _, t := range ts {
		if withheld[t.Name] {
			sb.WriteString(" ; " + t.Name + " WITHHELD")
		} else {
			sb.WriteString(" ; " + t.Name + " = " + t.Text)
		}
	}
	for _, t := range pt.Rules {
		sb.WriteString(" ; " + t.Name + " = " + t.Text)
	}
	return sb.String()
}

func c05Names(m map[string]bool) string {
	return strings.Join(mon.SortedKeys(m), ",")
}

// c05EvalSubset judges Check() for one registered subset. usedRef is the
// used-type set of the type-less root text ("" = not compared).
func c05EvalSubset(p *gen.Project, l gen.Layout, withheld map[string]bool, usedRef *string) c05Verdict {
	return c05EvalSubsetOf(toTexts(p, l), c05GraphOf(p), withheld, usedRef)
}

// c05EvalSubsetOf is c05EvalSubset on an already printed project and its reference graph.
func c05EvalSubsetOf(pt project, g c05Graph, withheld map[string]bool, usedRef *string) c05Verdict {
	M, dangling := g.missing(withheld)
	o := c05Observe(c05Registered(pt, withheld), len(withheld) > 0)
	if o.Panic != nil {
		return c05Verdict{Clause: "panic", What: fmt.Sprintf("panic (%s) at %s", o.Panic.Value, o.Panic.Site), Status: "panic"}
	}
	if o.BuildFailed {
		return c05Verdict{Status: "generator-invalid", Code: o.Code, What: o.Msg}
	}
	if usedRef != nil && o.UsedErr == "" {
		lists := [][]string{o.UsedBefore, o.UsedAfter}
		if o.HasChecked {
			lists = append(lists, o.UsedChecked)
		}
		for _, u := range lists {
			if c05HasDup(u) {
				return c05Verdict{Clause: "used-types-duplicates", What: fmt.Sprintf("UsedUserTypes() = %q contains a name twice", u), Status: "judged", Code: o.Code}
			}
			if c05Set(u) != *usedRef {
				return c05Verdict{Clause: "used-types-registration-dependent", Status: "judged", Code: o.Code,
					What: fmt.Sprintf("UsedUserTypes() of the root is {%s} with no type registered and {%s} with %d types registered (withheld: %s)", *usedRef, c05Set(u), len(pt.Types)-len(withheld), c05Names(withheld))}
			}
		}
	}
	if len(M) > 0 {
		switch {
		case o.Code == 0:
			return c05Verdict{Clause: "missing-not-reported", Status: "judged-missing",
				What: fmt.Sprintf("Check() accepts although the root reaches {%s}, which %s not registered", c05Names(M), map[bool]string{true: "is", false: "are"}[len(M) == 1])}
		case o.Code == c05CodeNotFound:
			named := ""
			if m := c05NotFoundRE.FindStringSubmatch(o.Msg); m != nil {
				named = m[1]
			}
			ok := M[named] || dangling[named]
			if named == "" {
				for n := range M {
					if strings.Contains(o.Msg, n) {
						ok = true
					}
				}
				for n := range dangling {
					if strings.Contains(o.Msg, n) {
						ok = true
					}
				}
			}
			if !ok {
				return c05Verdict{Clause: "missing-name-wrong", Status: "judged-missing", Code: o.Code,
					What: fmt.Sprintf("Check() fails with 1302 %q; the missing reachable types are {%s}", mon.Trunc(o.Msg, 120), c05Names(M))}
			}
			return c05Verdict{Status: "judged-missing", Code: o.Code}
		}
		return c05Verdict{Status: "other-error", Code: o.Code, What: o.Msg}
	}
	// nothing reachable is missing
	if len(dangling) > 0 {
		return c05Verdict{Status: "carved", Code: o.Code}
	}
	if o.Code == c05CodeNotFound {
		return c05Verdict{Clause: "false-not-found", Status: "judged-complete", Code: o.Code,
			What: fmt.Sprintf("Check() fails with 1302 %q although every type reachable from the root is registered and no registered type has a dangling reference", mon.Trunc(o.Msg, 120))}
	}
	if o.Code != 0 {
		if len(withheld) == 0 {
			return c05Verdict{Status: "generator-invalid", Code: o.Code, What: o.Msg}
		}
		return c05Verdict{Status: "other-error-complete", Code: o.Code, What: o.Msg}
	}
	return c05Verdict{Status: "judged-complete"}
}

// c05EvalUsed judges UsedUserTypes() of the root text and of every type text
// on fresh objects with no type registered. It returns the root's set.
func c05EvalUsed(p *gen.Project, l gen.Layout) (v c05Verdict, rootSet string, ok bool) {
	pt := toTexts(p, l)
	type item struct {
		name, text string
		node       *gen.Node
	}
	items := []item{{"root", pt.Root, p.Root}}
	for i, t := range p.Types {
		items = append(items, item{t.Name, pt.Types[i].Text, t.Node})
	}
	ok = true
	for i, it := range items {
		used, err, pn := c05UsedOfText(it.name, it.text, pt.Rules)
		if pn != nil {
			return c05Verdict{Clause: "panic", What: fmt.Sprintf("UsedUserTypes() panicked (%s) at %s on %q", pn.Value, pn.Site, mon.Trunc(it.text, 200))}, "", false
		}
		if err != nil {
			if i == 0 {
				ok = false
			}
			continue // a text the library does not load is not a subject of this clause
		}
		want := c05Set(c05Refs(it.node))
		if c05HasDup(used) {
			return c05Verdict{Clause: "used-types-duplicates", What: fmt.Sprintf("UsedUserTypes() of %s = %q contains a name twice; text: %s", it.name, used, mon.Trunc(it.text, 240))}, "", false
		}
		if c05Set(used) != want {
			return c05Verdict{Clause: "used-types", What: fmt.Sprintf("UsedUserTypes() of %s is {%s}; the text refers to {%s}; text: %s", it.name, c05Set(used), want, mon.Trunc(it.text, 300))}, "", false
		}
		if i == 0 {
			rootSet = want
		}
	}
	return c05Verdict{}, rootSet, ok
}

// ---- unused extra types -----------------------------------------------------------------

var c05ExtraPool = []typeDef{
	{Name: "@x0", Text: `12 // {min: 1}`},
	{Name: "@x1", Text: "{\n  \"a\": 1,\n  \"b\": [\n    true\n  ]\n}"},
	{Name: "@x2", Text: "[\n  1,\n  \"two\"\n]"},
	{Name: "@x3", Text: `/^[0-9]+$/`, Regex: true},
	{Name: "@x4", Text: `"s" // {minLength: 1}`},
	{Name: "@x5", Text: `null`},
	{Name: "@a0", Text: `true`}, // sorts before the generated names
	{Name: "@x6", Text: `"2021-01-02" // {type: "date"}`},
}

func c05PickExtras(rng *rand.Rand) []typeDef {
	n := 1 + rng.IntN(3)
	perm := rng.Perm(len(c05ExtraPool))
	var out []typeDef
	for _, i := range perm[:n] {
		out = append(out, c05ExtraPool[i])
	}
	return out
}

type c05Full struct {
	D    pdigest
	Code int
	Msg  string
}

func c05FullOf(pt project) c05Full {
	f := c05Full{D: digestOf(pt)}
	if f.D.Code != 0 { // the digest of a rejected project is its code; the message is compared as well
		code, msg, pn := checkProject(pt)
		f.Code, f.Msg = code, msg
		if pn != nil {
			f.Msg = "panic: " + pn.Value
		}
	}
	return f
}

func c05DiffFull(a, b c05Full) string {
	if _, what := diffDigest(a.D, b.D); what != "" {
		return what
	}
	if a.Code != b.Code || a.Msg != b.Msg {
		return fmt.Sprintf("Check() error %d %q vs %d %q", a.Code, mon.Trunc(a.Msg, 120), b.Code, mon.Trunc(b.Msg, 120))
	}
	return ""
}

// c05EvalExtra: registering valid types nothing refers to must not change anything.
func c05EvalExtra(p *gen.Project, l gen.Layout, withheld map[string]bool, extras []typeDef) (v c05Verdict, unstable bool) {
	base := c05Registered(toTexts(p, l), withheld)
	ext := base
	// extras first or last in registration order
	if len(extras)%2 == 0 {
		ext.Types = append(append([]typeDef(nil), extras...), base.Types...)
	} else {
		ext.Types = append(append([]typeDef(nil), base.Types...), extras...)
	}
	f0, f1 := c05FullOf(base), c05FullOf(ext)
	d := c05DiffFull(f0, f1)
	if d == "" {
		return c05Verdict{Status: "judged"}, false
	}
	// the difference must be due to the extras, not to a result that varies by itself
	if c05DiffFull(f0, c05FullOf(base)) != "" || c05DiffFull(f1, c05FullOf(ext)) != "" {
		return c05Verdict{Status: "unstable"}, true
	}
	var names []string
	for _, e := range extras {
		names = append(names, e.Name+" = "+e.Text)
	}
	return c05Verdict{Clause: "extra-types-change-result", Status: "judged",
		What: fmt.Sprintf("registering the unused types [%s] changes the result: %s", mon.Trunc(strings.Join(names, " ; "), 200), d)}, false
}

// ---- shrinking ---------------------------------------------------------------------------

func c05Clone(p *gen.Project) *gen.Project {
	b, _ := stdjson.Marshal(p)
	q := &gen.Project{}
	stdjson.Unmarshal(b, q)
	return q
}

type c05Path struct {
	typ  int // -1 = root, else index into Types
	path []int
}

func c05NodeAt(p *gen.Project, at c05Path) *gen.Node {
	n := p.Root
	if at.typ >= 0 {
		n = p.Types[at.typ].Node
	}
	for _, i := range at.path {
		n = n.Children[i]
	}
	return n
}

func c05SetNodeAt(p *gen.Project, at c05Path, m *gen.Node) {
	if len(at.path) == 0 {
		if at.typ < 0 {
			p.Root = m
		} else {
			p.Types[at.typ].Node = m
		}
		return
	}
	parent := c05NodeAt(p, c05Path{at.typ, at.path[:len(at.path)-1]})
	parent.Children[at.path[len(at.path)-1]] = m
}

func c05AllPaths(p *gen.Project) []c05Path {
	var out []c05Path
	var walk func(typ int, n *gen.Node, path []int)
	walk = func(typ int, n *gen.Node, path []int) {
		out = append(out, c05Path{typ, append([]int(nil), path...)})
		for i, c := range n.Children {
			walk(typ, c, append(path, i))
		}
	}
	walk(-1, p.Root, nil)
	for i, t := range p.Types {
		walk(i, t.Node, nil)
	}
	return out
}

// c05Shrink greedily reduces (project, withheld) while still(project, withheld) holds.
func c05Shrink(p *gen.Project, withheld map[string]bool, still func(*gen.Project, map[string]bool) bool) (*gen.Project, map[string]bool) {
	budget := 400
	try := func(q *gen.Project, w map[string]bool) bool {
		if budget <= 0 {
			return false
		}
		budget--
		return still(q, w)
	}
	for progress := true; progress && budget > 0; {
		progress = false
		// drop whole types (defined or withheld) and enums
		for i := len(p.Types) - 1; i >= 0; i-- {
			q := c05Clone(p)
			name := q.Types[i].Name
			q.Types = append(q.Types[:i], q.Types[i+1:]...)
			w := map[string]bool{}
			for k := range withheld {
				if k != name {
					w[k] = true
				}
			}
			if try(q, w) {
				p, withheld, progress = q, w, true
			}
		}
		for i := len(p.Regexes) - 1; i >= 0; i-- {
			q := c05Clone(p)
			name := q.Regexes[i].Name
			q.Regexes = append(q.Regexes[:i], q.Regexes[i+1:]...)
			w := map[string]bool{}
			for k := range withheld {
				if k != name {
					w[k] = true
				}
			}
			if try(q, w) {
				p, withheld, progress = q, w, true
			}
		}
		// a registered type's node becomes the root
		for i := len(p.Types) - 1; i >= 0; i-- {
			if withheld[p.Types[i].Name] {
				continue
			}
			q := c05Clone(p)
			q.Root = q.Types[i].Node
			q.Types = append(q.Types[:i], q.Types[i+1:]...)
			if try(q, withheld) {
				p, progress = q, true
				break
			}
		}
		// un-withhold
		for _, k := range mon.SortedKeys(withheld) {
			w := map[string]bool{}
			for k2 := range withheld {
				if k2 != k {
					w[k2] = true
				}
			}
			if try(p, w) {
				withheld, progress = w, true
			}
		}
		// node edits: after each successful edit the paths are recomputed
		nodeEdit := func() bool {
			for _, at := range c05AllPaths(p) {
				n := c05NodeAt(p, at)
				// hoist a child into the node's place
				for ci := range n.Children {
					q := c05Clone(p)
					m := c05NodeAt(q, at)
					c := m.Children[ci]
					if len(at.path) == 0 {
						c.Key, c.KeyLit, c.KeyIsRef = "", "", false
						var rs []gen.Rule
						for _, r := range c.Rules {
							if r.Name != "optional" {
								rs = append(rs, r)
							}
						}
						c.Rules, c.HasRules = rs, len(rs) > 0
					} else {
						if c.KeyIsRef {
							continue
						}
						c.Key, c.KeyLit, c.KeyIsRef = m.Key, m.KeyLit, m.KeyIsRef
						parent := c05NodeAt(q, c05Path{at.typ, at.path[:len(at.path)-1]})
						if parent.Kind == gen.KArray {
							c.Key, c.KeyLit, c.KeyIsRef = "", "", false
						} else if c.KeyLit == "" {
							continue
						}
					}
					c05SetNodeAt(q, at, c)
					if try(q, withheld) {
						p = q
						return true
					}
				}
				// drop a child
				for ci := len(n.Children) - 1; ci >= 0; ci-- {
					q := c05Clone(p)
					m := c05NodeAt(q, at)
					m.Children = append(m.Children[:ci], m.Children[ci+1:]...)
					if try(q, withheld) {
						p = q
						return true
					}
				}
				// drop a rule
				for ri := len(n.Rules) - 1; ri >= 0; ri-- {
					q := c05Clone(p)
					m := c05NodeAt(q, at)
					m.Rules = append(m.Rules[:ri], m.Rules[ri+1:]...)
					m.HasRules = len(m.Rules) > 0
					if try(q, withheld) {
						p = q
						return true
					}
				}
				// drop an `or` / `allOf` list item
				for ri, r := range n.Rules {
					if len(r.Val.List) <= 2 && r.Name == "or" || len(r.Val.List) <= 1 {
						continue
					}
					for li := len(r.Val.List) - 1; li >= 0; li-- {
						q := c05Clone(p)
						m := c05NodeAt(q, at)
						lst := m.Rules[ri].Val.List
						m.Rules[ri].Val.List = append(lst[:li], lst[li+1:]...)
						if try(q, withheld) {
							p = q
							return true
						}
					}
				}
				// one alternative of a choice
				if n.Kind == gen.KRef && len(n.Refs) > 1 {
					for ri := range n.Refs {
						q := c05Clone(p)
						m := c05NodeAt(q, at)
						m.Refs = []string{m.Refs[ri]}
						if try(q, withheld) {
							p = q
							return true
						}
					}
				}
				// drop a note
				if n.Note != "" {
					q := c05Clone(p)
					c05NodeAt(q, at).Note = ""
					if try(q, withheld) {
						p = q
						return true
					}
				}
			}
			return false
		}
		for nodeEdit() {
			progress = true
		}
	}
	return p, withheld
}

// c05Canon renames the types @a, @b, ... in order of first mention, so that one
// defect reduces to one key whatever the generated names were.
func c05Canon(p *gen.Project, withheld map[string]bool) (*gen.Project, map[string]bool) {
	q := c05Clone(p)
	m := map[string]string{}
	name := func(old string) string {
		if n, ok := m[old]; ok {
			return n
		}
		n := "@" + string(rune('a'+len(m)%26))
		if len(m) >= 26 {
			n += fmt.Sprint(len(m) / 26)
		}
		m[old] = n
		return n
	}
	for _, n := range c05Refs(q.Root) {
		name(n)
	}
	for _, t := range q.Types {
		name(t.Name)
		for _, n := range c05Refs(t.Node) {
			name(n)
		}
	}
	for _, t := range q.Regexes {
		name(t.Name)
	}
	for _, n := range mon.SortedKeys(withheld) {
		name(n)
	}
	lit := func(v *gen.RV) {
		if t, ok := c05IsTypeLit(v.Lit); ok {
			v.Lit = gen.Q(name(t))
		}
	}
	var rules func(rs []gen.Rule, inSet bool)
	rules = func(rs []gen.Rule, inSet bool) {
		for i := range rs {
			r := &rs[i]
			switch r.Name {
			case "type", "additionalProperties":
				lit(&r.Val)
			case "allOf":
				lit(&r.Val)
				for j := range r.Val.List {
					lit(&r.Val.List[j])
				}
			case "or":
				if inSet {
					continue
				}
				for j := range r.Val.List {
					it := &r.Val.List[j]
					if it.IsSet || len(it.Set) > 0 {
						rules(it.Set, true)
					} else {
						lit(it)
					}
				}
			}
		}
	}
	node := func(root *gen.Node) {
		root.Walk(func(n *gen.Node) {
			if n.KeyIsRef {
				n.Key = name(n.Key)
				n.KeyLit = n.Key
			}
			if n.Kind == gen.KRef {
				for i := range n.Refs {
					n.Refs[i] = name(n.Refs[i])
				}
			}
			rules(n.Rules, false)
		})
	}
	node(q.Root)
	for i := range q.Types {
		q.Types[i].Name = name(q.Types[i].Name)
		node(q.Types[i].Node)
	}
	for i := range q.Regexes {
		q.Regexes[i].Name = name(q.Regexes[i].Name)
	}
	w := map[string]bool{}
	for k := range withheld {
		w[name(k)] = true
	}
	return q, w
}

// ---- reporting ---------------------------------------------------------------------------

func c05Report(r *mon.Run, kind string, p *gen.Project, l gen.Layout, withheld map[string]bool, extras []typeDef, v c05Verdict, shrink bool) {
	if v.Clause == "" {
		return
	}
	if v.Clause == "panic" {
		r.Violate("panic", v.What, fmt.Sprintf("%s on %s", v.What, mon.Trunc(c05Key(toTexts(p, l), withheld), 300)),
			c05Case{Kind: kind, Project: p, Layout: l, Withheld: mon.SortedKeys(withheld), Extras: extras})
		return
	}
	if shrink {
		still := func(q *gen.Project, w map[string]bool) bool {
			var nv c05Verdict
			if pn := mon.Guard(func() {
				switch kind {
				case "subset":
					var refSet *string
					if strings.HasPrefix(v.Clause, "used-types") {
						if _, s, ok := c05EvalUsed(q, gen.DefaultLayout); ok {
							refSet = &s
						}
					}
					nv = c05EvalSubset(q, gen.DefaultLayout, w, refSet)
				case "used":
					nv, _, _ = c05EvalUsed(q, gen.DefaultLayout)
				case "extra":
					nv, _ = c05EvalExtra(q, gen.DefaultLayout, w, extras)
				}
			}); pn != nil {
				return false
			}
			return nv.Clause == v.Clause
		}
		if still(p, withheld) { // the violation must not depend on the layout to be reduced under the default one
			p, withheld = c05Shrink(p, withheld, still)
			if q, w := c05Canon(p, withheld); still(q, w) {
				p, withheld = q, w
			}
			l = gen.DefaultLayout
			// describe the reduced case
			switch kind {
			case "subset":
				var refSet *string
				if strings.HasPrefix(v.Clause, "used-types") {
					if _, s, ok := c05EvalUsed(p, l); ok {
						refSet = &s
					}
				}
				v = c05EvalSubset(p, l, withheld, refSet)
			case "used":
				v, _, _ = c05EvalUsed(p, l)
			case "extra":
				v, _ = c05EvalExtra(p, l, withheld, extras)
			}
		}
	}
	key := c05Key(toTexts(p, l), withheld)
	if kind == "extra" {
		for _, e := range extras {
			key += " ; + " + e.Name + " = " + e.Text
		}
	}
	if len(key) > 300 {
		key = key[:280] + "… #" + mon.Hash(key)
	}
	r.Violate(v.Clause, key, v.What, c05Case{Kind: kind, Project: p, Layout: l, Withheld: mon.SortedKeys(withheld), Extras: extras})
}

// ---- one project: all subsets --------------------------------------------------------------

// c05Project runs every clause on one project; it returns false when the
// project is not a usable subject (the library rejects it with everything registered).
func c05Project(r *mon.Run, p *gen.Project, l gen.Layout, rng *rand.Rand, label string) bool {
	// (1) used types on type-less objects
	r.Eval(1)
	uv, rootSet, usedOK := c05EvalUsed(p, l)
	if uv.Clause != "" {
		c05Report(r, "used", p, l, nil, nil, uv, true)
		usedOK = false // the other clauses are still judged
	}
	var refSet *string
	if uv.Clause != "" {
	} else if usedOK {
		refSet = &rootSet
		r.Count("used_types_lists_compared_with_the_model", int64(1+len(p.Types)))
	} else {
		r.Count("root_text_not_loadable_used_types_not_judged", 1)
	}
	// (2) everything registered: the subject must be valid
	all := c05EvalSubset(p, l, map[string]bool{}, refSet)
	r.Eval(1)
	if all.Clause != "" {
		c05Report(r, "subset", p, l, map[string]bool{}, nil, all, true)
		return true
	}
	if all.Status == "generator-invalid" {
		r.Inconclusive(fmt.Sprintf("generated-project-rejected-code-%d", all.Code))
		if r.Shard == 0 {
			r.Note(fmt.Sprintf("%s project rejected with everything registered: %d %s :: %s", label, all.Code, mon.Trunc(all.What, 80), mon.Trunc(c05Key(toTexts(p, l), nil), 240)))
		}
		return false
	}
	r.Count("subsets:everything_registered_accepted", 1)
	// (3) every proper subset
	graph := c05GraphOf(p)
	printed := toTexts(p, l)
	names := graph.order
	k := len(names)
	if k > 6 {
		k = 6 // bound of the property's quantifier as implemented: the first six types vary
	}
	for mask := 1; mask < 1<<k; mask++ {
		w := map[string]bool{}
		for i := 0; i < k; i++ {
			if mask&(1<<i) != 0 {
				w[names[i]] = true
			}
		}
		r.Eval(1)
		v := c05EvalSubsetOf(printed, graph, w, refSet)
		if v.Clause != "" {
			c05Report(r, "subset", p, l, w, nil, v, true)
			continue
		}
		switch v.Status {
		case "judged-missing":
			r.Count("subsets:reachable_type_missing_and_1302_names_it", 1)
		case "judged-complete":
			r.Count("subsets:nothing_reachable_missing_and_no_1302", 1)
		case "carved":
			r.Count("carved_out_unreachable_type_with_dangling_reference", 1)
		case "other-error":
			r.Inconclusive(fmt.Sprintf("missing-type-but-other-error-%d", v.Code))
		case "other-error-complete":
			r.Count(fmt.Sprintf("subsets:nothing_reachable_missing_other_error_%d_not_judged", v.Code), 1)
		case "generator-invalid":
			r.Inconclusive("registration-refused")
		}
	}
	// (4) unused extra types: with everything registered or (every other project) with one random subset withheld
	for round := rng.IntN(2); round < 2; round += 2 {
		w := map[string]bool{}
		if round == 1 {
			if k == 0 {
				break
			}
			mask := 1 + rng.IntN(1<<k-1)
			for i := 0; i < k; i++ {
				if mask&(1<<i) != 0 {
					w[names[i]] = true
				}
			}
		}
		extras := c05PickExtras(rng)
		r.Eval(1)
		v, unstable := c05EvalExtra(p, l, w, extras)
		if unstable {
			r.Count("results_varying_without_any_change_extra_types_not_judged", 1)
			continue
		}
		r.Count("extra_type_comparisons", 1)
		if v.Clause != "" {
			c05Report(r, "extra", p, l, w, extras, v, true)
		}
	}
	return true
}

// ---- systematic reference positions -----------------------------------------------------------

type c05Position struct {
	name string
	// site builds the node holding the reference(s); t is the target, o a second type
	site      func(t, o string) *gen.Node
	targetObj bool // the target must be an object type (allOf); else a string type
	other     int  // 0 none, 1 a string type, 2 an object type
}

func c05Positions() []c05Position {
	q := gen.Q
	lit := gen.LitV
	set := func(rules ...gen.Rule) gen.RV { return gen.SetOf(rules...) }
	return []c05Position{
		{name: "value-shortcut", site: func(t, o string) *gen.Node { return gen.Ref(t) }},
		{name: "choice-first", site: func(t, o string) *gen.Node { return gen.Ref(t, o) }, other: 1},
		{name: "choice-second", site: func(t, o string) *gen.Node { return gen.Ref(o, t) }, other: 1},
		{name: "key-shortcut", site: func(t, o string) *gen.Node { return gen.Obj(gen.Int("1").KRefKey(t)) }},
		{name: "type", site: func(t, o string) *gen.Node { return gen.Str("abc").R("type", q(t)) }},
		{name: "type-on-nullable-null", site: func(t, o string) *gen.Node { return gen.Null().R("type", q(t)).R("nullable", "true") }},
		{name: "or-on-nullable-null", site: func(t, o string) *gen.Node {
			return gen.Null().RVal("or", gen.ListOf(lit(`"integer"`), lit(q(t)))).R("nullable", "true")
		}},
		{name: "or-set-on-nullable-null", site: func(t, o string) *gen.Node {
			return gen.Null().R("nullable", "true").RVal("or", gen.ListOf(set(gen.Rule{Name: "type", Val: lit(q(t))}), lit(`"integer"`)))
		}},
		{name: "value-shortcut-nullable", site: func(t, o string) *gen.Node { return gen.Ref(t).R("nullable", "true") }},
		{name: "type-escaped-name", site: func(t, o string) *gen.Node { return gen.Str("abc").R("type", c05Esc(t)) }},
		{name: "or-item-escaped-name", site: func(t, o string) *gen.Node {
			return gen.Str("abc").RVal("or", gen.ListOf(lit(`"integer"`), lit(c05Esc(t))))
		}},
		{name: "or-set-type-escaped-name", site: func(t, o string) *gen.Node {
			return gen.Str("abc").RVal("or", gen.ListOf(set(gen.Rule{Name: "type", Val: lit(c05Esc(t))}, gen.Rule{Name: "nullable", Val: lit("true")}), lit(`"integer"`)))
		}},
		{name: "allOf-escaped-name", targetObj: true, site: func(t, o string) *gen.Node { return gen.Obj().R("allOf", c05Esc(t)) }},
		{name: "additionalProperties-escaped-name", site: func(t, o string) *gen.Node { return gen.Obj().R("additionalProperties", c05Esc(t)) }},
		{name: "or-item-first", site: func(t, o string) *gen.Node {
			return gen.Str("abc").RVal("or", gen.ListOf(lit(q(t)), lit(`"integer"`)))
		}},
		{name: "or-item-last", site: func(t, o string) *gen.Node {
			return gen.Str("abc").RVal("or", gen.ListOf(lit(`"integer"`), lit(`"boolean"`), lit(q(t))))
		}},
		{name: "or-set-type", site: func(t, o string) *gen.Node {
			return gen.Str("abc").RVal("or", gen.ListOf(set(gen.Rule{Name: "type", Val: lit(q(t))}), lit(`"integer"`)))
		}},
		{name: "or-set-type-last", site: func(t, o string) *gen.Node {
			return gen.Str("abc").RVal("or", gen.ListOf(set(gen.Rule{Name: "type", Val: lit(`"integer"`)}, gen.Rule{Name: "min", Val: lit("0")}), set(gen.Rule{Name: "type", Val: lit(q(t))})))
		}},
		{name: c05FormSetTypeRule, site: func(t, o string) *gen.Node {
			return gen.Str("abc").RVal("or", gen.ListOf(set(gen.Rule{Name: "type", Val: lit(q(t))}, gen.Rule{Name: "nullable", Val: lit("true")}), lit(`"integer"`)))
		}},
		{name: c05FormSetAP, site: func(t, o string) *gen.Node {
			return gen.Obj().RVal("or", gen.ListOf(set(gen.Rule{Name: "type", Val: lit(`"object"`)}, gen.Rule{Name: "additionalProperties", Val: lit(q(t))}), lit(`"string"`)))
		}},
		{name: "allOf", targetObj: true, site: func(t, o string) *gen.Node { return gen.Obj().R("allOf", q(t)) }},
		{name: "allOf-with-own-member", targetObj: true, site: func(t, o string) *gen.Node {
			return gen.Obj(gen.Int("1").K("own")).R("allOf", q(t))
		}},
		{name: "allOf-list-first", targetObj: true, other: 2, site: func(t, o string) *gen.Node {
			return gen.Obj().RVal("allOf", gen.ListOf(lit(q(t)), lit(q(o))))
		}},
		{name: "allOf-list-second", targetObj: true, other: 2, site: func(t, o string) *gen.Node {
			return gen.Obj().RVal("allOf", gen.ListOf(lit(q(o)), lit(q(t))))
		}},
		{name: "additionalProperties", site: func(t, o string) *gen.Node { return gen.Obj().R("additionalProperties", q(t)) }},
		{name: "additionalProperties-with-member", site: func(t, o string) *gen.Node {
			return gen.Obj(gen.Int("1").K("own")).R("additionalProperties", q(t))
		}},
	}
}

// forms that the random generator uses only when their pinned minimal case passes
const (
	c05FormSetTypeRule = "or-set-type-with-another-rule"
	c05FormSetAP       = "or-set-additionalProperties"
)

// c05Wrap nests a site d levels deep, alternating object member and array item.
func c05Wrap(n *gen.Node, d int) *gen.Node {
	for i := 0; i < d; i++ {
		if i%2 == 0 {
			key := fmt.Sprintf("k%d", i)
			if i == 2 {
				key = "@k2" // a quoted key that looks like a type name is still a plain key
			}
			n = gen.Obj(gen.Int("0").K("pad"), n.K(key))
		} else {
			n = gen.Arr(n)
		}
	}
	return n
}

// c05GridProject: the site at nesting depth d inside the last of `chain` types
// the root reaches through value shortcuts (chain 0 = in the root itself);
// deep makes the target itself refer to one more type.
func c05GridProject(pos c05Position, d, chain int, deep bool) *gen.Project {
	p := &gen.Project{}
	target, other := "@t", "@o"
	var tnode *gen.Node
	switch {
	case pos.targetObj && deep:
		tnode = gen.Obj(gen.Ref("@z").K("p"))
	case pos.targetObj:
		tnode = gen.Obj(gen.Int("1").K("p"))
	case deep:
		tnode = gen.Str("abc").R("type", gen.Q("@z"))
	default:
		tnode = gen.Str("abc")
	}
	host := c05Wrap(pos.site(target, other), d)
	if chain == 0 {
		p.Root = host
	} else {
		p.Root = gen.Ref("@h1")
		for i := 1; i <= chain; i++ {
			name := fmt.Sprintf("@h%d", i)
			if i == chain {
				p.Types = append(p.Types, gen.NamedNode{Name: name, Node: host})
			} else {
				p.Types = append(p.Types, gen.NamedNode{Name: name, Node: gen.Ref(fmt.Sprintf("@h%d", i+1))})
			}
		}
	}
	p.Types = append(p.Types, gen.NamedNode{Name: target, Node: tnode})
	switch pos.other {
	case 1:
		p.Types = append(p.Types, gen.NamedNode{Name: other, Node: gen.Int("7")})
	case 2:
		p.Types = append(p.Types, gen.NamedNode{Name: other, Node: gen.Obj(gen.Int("2").K("q"))})
	}
	if deep {
		p.Types = append(p.Types, gen.NamedNode{Name: "@z", Node: gen.Str("abc")})
	}
	return p
}

// c05Traps: texts that look like references and are none.
func c05Traps() []*gen.Project {
	enums := []gen.NamedText{{Name: "@e", Text: `[1, "@t", 12]`}}
	tT := gen.NamedNode{Name: "@t", Node: gen.Str("abc")}
	tE := gen.NamedNode{Name: "@e", Node: gen.Str("abc")} // a type that shares its name with the enum rule
	return []*gen.Project{
		{Root: gen.Int("12").RVal("enum", gen.RV{Bare: "@e"}), Enums: enums, Types: []gen.NamedNode{tT}},
		{Root: gen.Int("12").RVal("enum", gen.RV{Bare: "@e"}), Enums: enums, Types: []gen.NamedNode{tT, tE}},
		{Root: gen.Obj(gen.Int("12").RVal("enum", gen.RV{Bare: "@e"}).K("a"), gen.Ref("@t").K("b")), Enums: enums, Types: []gen.NamedNode{tT}},
		{Root: gen.Str("@t"), Types: []gen.NamedNode{tT}},
		{Root: gen.Str("@t").RVal("enum", gen.ListOf(gen.LitV(`"@t"`), gen.LitV("1"))), Types: []gen.NamedNode{tT}},
		{Root: gen.Obj(gen.Str("@t").K("@t")), Types: []gen.NamedNode{tT}},
		{Root: gen.Arr(gen.Str("@t | @u")), Types: []gen.NamedNode{tT}},
		{Root: gen.Str("abc").N("see @t and type: \"@t\""), Types: []gen.NamedNode{tT}},
		{Root: gen.Str("abc").R("const", "true").N("@t"), Types: []gen.NamedNode{tT}},
		// the same name in several positions: listed once
		{Root: gen.Obj(gen.Ref("@t").K("a"), gen.Ref("@t").K("b"), gen.Str("abc").R("type", `"@t"`).K("c"), gen.Int("1").KRefKey("@t")).R("additionalProperties", `"@t"`), Types: []gen.NamedNode{tT}},
		{Root: gen.Arr(gen.Ref("@t", "@o"), gen.Ref("@o", "@t"), gen.Ref("@t")), Types: []gen.NamedNode{tT, {Name: "@o", Node: gen.Int("7")}}},
	}
}

// ---- random projects ---------------------------------------------------------------------------

const (
	c05KStr = 1 << iota
	c05KInt
	c05KObj
	c05KArr
	c05KOther // boolean, null, or not tracked
)

type c05Type struct {
	name  string
	kinds int             // JSON kinds the type resolves to
	exLit string          // a scalar literal that is valid for the type ("" = none known)
	obj   bool            // a plain object: may be inherited from
	keys  map[string]bool // its keys incl. inherited ones
	ap    bool            // has (or inherits) additionalProperties
	tl    map[string]bool // type names visited when the JSON type of a `type`/`or` reference to it is resolved
}

type c05Gen struct {
	rng     *rand.Rand
	types   []c05Type
	keySeq  int
	enum    bool
	usedE   bool
	setRule bool // form or-set-type-with-another-rule allowed
	setAP   bool // form or-set-additionalProperties allowed
}

func (g *c05Gen) pickType(ok func(t c05Type) bool) (c05Type, bool) {
	var c []c05Type
	for _, t := range g.types {
		if ok == nil || ok(t) {
			c = append(c, t)
		}
	}
	if len(c) == 0 {
		return c05Type{}, false
	}
	return c[g.rng.IntN(len(c))], true
}

func (g *c05Gen) key() string {
	g.keySeq++
	// quoted keys may look like type names, carry quotes or be empty-ish: they are plain keys, and
	// whatever is written below them is still part of the schema
	switch g.rng.IntN(8) {
	case 0:
		return fmt.Sprintf("@k%d", g.keySeq)
	case 1:
		return fmt.Sprintf("\"q%d\"", g.keySeq)
	case 2:
		return fmt.Sprintf("k %d/#", g.keySeq)
	}
	return fmt.Sprintf("k%d", g.keySeq)
}

func c05Union(a, b map[string]bool) map[string]bool {
	out := map[string]bool{}
	for k := range a {
		out[k] = true
	}
	for k := range b {
		out[k] = true
	}
	return out
}

func c05Disjoint(a, b map[string]bool) bool {
	for k := range a {
		if b[k] {
			return false
		}
	}
	return true
}

func c05Closure(t c05Type) map[string]bool {
	return c05Union(map[string]bool{t.name: true}, t.tl)
}

// value returns a node and what a type with that node as its root would be.
func (g *c05Gen) value(depth int) (*gen.Node, c05Type) {
	rng := g.rng
	r := rng.IntN(100)
	have := len(g.types) > 0
	switch {
	case have && r < 28:
		return g.shortcut()
	case have && r < 42:
		if n, m, ok := g.typed(); ok {
			return n, m
		}
	case have && r < 58:
		return g.or()
	case depth > 0 && r < 78:
		return g.object(depth - 1)
	case depth > 0 && r < 90:
		return g.array(depth - 1)
	}
	return g.plain()
}

func (g *c05Gen) plain() (*gen.Node, c05Type) {
	rng := g.rng
	switch rng.IntN(10) {
	case 0, 1:
		return gen.Int("12"), c05Type{kinds: c05KInt, exLit: "12"}
	case 2:
		if g.enum {
			g.usedE = true
			return gen.Int("12").RVal("enum", gen.RV{Bare: "@e0"}), c05Type{kinds: c05KInt, exLit: "12"}
		}
	case 3:
		if t, ok := g.pickType(nil); ok { // a string that looks like a type name
			return gen.Str(t.name), c05Type{kinds: c05KStr, exLit: gen.Q(t.name)}
		}
	case 4:
		if t, ok := g.pickType(nil); ok {
			return gen.Str(t.name).RVal("enum", gen.ListOf(gen.LitV(gen.Q(t.name)), gen.LitV("1"))), c05Type{kinds: c05KStr, exLit: gen.Q(t.name)}
		}
	case 5:
		return gen.Str("abc").R("minLength", "1"), c05Type{kinds: c05KStr, exLit: `"abc"`}
	case 6:
		return gen.Bool(true), c05Type{kinds: c05KOther}
	}
	return gen.Str("abc"), c05Type{kinds: c05KStr, exLit: `"abc"`}
}

func (g *c05Gen) shortcut() (*gen.Node, c05Type) {
	a, _ := g.pickType(nil)
	n := gen.Ref(a.name)
	m := c05Type{kinds: a.kinds, exLit: a.exLit}
	if g.rng.IntN(3) == 0 {
		if b, ok := g.pickType(func(t c05Type) bool { return t.name != a.name }); ok {
			n = gen.Ref(a.name, b.name)
			m.kinds |= b.kinds
			if m.exLit == "" {
				m.exLit = b.exLit
			}
		}
	}
	if g.rng.IntN(8) == 0 {
		n.R("nullable", "true")
	}
	return n, m
}

func c05LitNode(lit string) *gen.Node {
	return &gen.Node{Kind: gen.KindOfLiteral(lit), Lit: lit}
}

func (g *c05Gen) typed() (*gen.Node, c05Type, bool) {
	t, ok := g.pickType(func(t c05Type) bool { return t.exLit != "" })
	if !ok {
		return nil, c05Type{}, false
	}
	n := c05LitNode(t.exLit).R("type", gen.Q(t.name))
	return n, c05Type{kinds: t.kinds, exLit: t.exLit, tl: c05Closure(t)}, true
}

func (g *c05Gen) or() (*gen.Node, c05Type) {
	rng := g.rng
	var items []gen.RV
	tl := map[string]bool{}
	builtin := map[string]bool{}
	ex := ""
	// {type: "@x", nullable: true} only for the alternative the example is taken from: next to an
	// example of another JSON type the library refuses the whole `or` (1301) even when another
	// alternative fits - a value-rule matter outside this property
	first := true
	setOf := func(name string) gen.RV {
		if g.setRule && first && rng.IntN(2) == 0 {
			return gen.SetOf(gen.Rule{Name: "type", Val: gen.LitV(gen.Q(name))}, gen.Rule{Name: "nullable", Val: gen.LitV("true")})
		}
		return gen.SetOf(gen.Rule{Name: "type", Val: gen.LitV(gen.Q(name))})
	}
	addUser := func(t c05Type) bool {
		c := c05Closure(t)
		if !c05Disjoint(c, tl) {
			return false
		}
		tl = c05Union(tl, c)
		if rng.IntN(2) == 0 {
			items = append(items, gen.LitV(gen.Q(t.name)))
		} else {
			items = append(items, setOf(t.name))
		}
		first = false
		return true
	}
	addBuiltin := func(b string) {
		if !builtin[b] {
			builtin[b] = true
			items = append(items, gen.LitV(gen.Q(b)))
		}
	}
	if t, ok := g.pickType(func(t c05Type) bool { return t.exLit != "" }); ok && rng.IntN(3) != 0 {
		ex = t.exLit
		addUser(t)
	} else if rng.IntN(2) == 0 {
		ex = "7"
		addBuiltin("integer")
		first = false
	} else {
		ex = `"abc"`
		addBuiltin("string")
		first = false
	}
	for extra := 1 + rng.IntN(3); extra > 0 || len(items) < 2; extra-- {
		switch rng.IntN(6) {
		case 0, 1, 2:
			if t, ok := g.pickType(nil); ok && addUser(t) {
				continue
			}
			addBuiltin([]string{"boolean", "float", "null"}[rng.IntN(3)])
		case 3:
			if t, ok := g.pickType(nil); ok && g.setAP {
				items = append(items, gen.SetOf(gen.Rule{Name: "type", Val: gen.LitV(`"object"`)}, gen.Rule{Name: "additionalProperties", Val: gen.LitV(gen.Q(t.name))}))
				continue
			}
			addBuiltin("boolean")
		case 4:
			items = append(items, gen.SetOf(gen.Rule{Name: "type", Val: gen.LitV(`"integer"`)}, gen.Rule{Name: "min", Val: gen.LitV(fmt.Sprint(-rng.IntN(50)))}))
		default:
			addBuiltin([]string{"integer", "string", "boolean", "float", "null"}[rng.IntN(5)])
		}
		if len(items) > 5 {
			break
		}
	}
	// rule-sets must differ from each other as well: the min values may collide, harmlessly
	rng.Shuffle(len(items), func(i, j int) { items[i], items[j] = items[j], items[i] })
	n := c05LitNode(ex).RVal("or", gen.ListOf(items...))
	return n, c05Type{kinds: c05KOther, exLit: ex, tl: tl}
}

func (g *c05Gen) object(depth int) (*gen.Node, c05Type) {
	rng := g.rng
	n := gen.Obj()
	m := c05Type{kinds: c05KObj, obj: true, keys: map[string]bool{}}
	for i, cnt := 0, rng.IntN(4); i < cnt; i++ {
		c, _ := g.value(depth)
		k := g.key()
		c.K(k)
		m.keys[k] = true
		if rng.IntN(7) == 0 {
			c.R("optional", "true")
		}
		n.Children = append(n.Children, c)
	}
	if rng.IntN(4) == 0 {
		if t, ok := g.pickType(func(t c05Type) bool { return t.kinds == c05KStr }); ok {
			c, _ := g.plain()
			c.KRefKey(t.name)
			n.Children = append(n.Children, c)
			m.obj = false // keep inherited key shortcuts out of the picture
		}
	}
	switch rng.IntN(5) {
	case 0, 1: // allOf
		var names []gen.RV
		for tries := 0; tries < 3 && len(names) < 2; tries++ {
			t, ok := g.pickType(func(t c05Type) bool { return t.obj && !t.ap && c05Disjoint(t.keys, m.keys) })
			if !ok {
				break
			}
			m.keys = c05Union(m.keys, t.keys)
			names = append(names, gen.LitV(gen.Q(t.name)))
			if rng.IntN(2) == 0 {
				break
			}
		}
		if len(names) == 1 && rng.IntN(2) == 0 {
			n.RVal("allOf", names[0])
		} else if len(names) > 0 {
			n.RVal("allOf", gen.ListOf(names...))
		}
	case 2:
		if t, ok := g.pickType(nil); ok {
			n.R("additionalProperties", gen.Q(t.name))
		} else {
			n.R("additionalProperties", `"integer"`)
		}
		m.ap = true
	}
	if rng.IntN(8) == 0 {
		n.N("a note mentioning @t0")
	}
	return n, m
}

func (g *c05Gen) array(depth int) (*gen.Node, c05Type) {
	n := gen.Arr()
	for i, cnt := 0, g.rng.IntN(3); i < cnt; i++ {
		c, _ := g.value(depth)
		n.Children = append(n.Children, c)
	}
	return n, c05Type{kinds: c05KArr}
}

func c05DropRule(n *gen.Node, name string) {
	var out []gen.Rule
	for _, r := range n.Rules {
		if r.Name != name {
			out = append(out, r)
		}
	}
	n.Rules, n.HasRules = out, len(out) > 0
}

// c05GenProject: up to six types, each referring only to earlier ones (no
// cycles: recursion is C06's subject), and a root biased to many references.
func c05GenProject(rng *rand.Rand, setRule, setAP bool) *gen.Project {
	g := &c05Gen{rng: rng, enum: rng.IntN(3) == 0, setRule: setRule, setAP: setAP}
	p := &gen.Project{}
	k := []int{1, 2, 2, 3, 3, 3, 4, 4, 4, 5, 5, 6, 6}[rng.IntN(13)]
	style := 0
	if rng.IntN(3) == 0 {
		style = 1 + rng.IntN(gen.NameStyles-1)
	}
	for i := 0; i < k; i++ {
		name := gen.StyledName(style, "t", i)
		if rng.IntN(9) == 0 {
			p.Regexes = append(p.Regexes, gen.NamedText{Name: name, Text: `/^[a-z]+$/`})
			g.types = append(g.types, c05Type{name: name, kinds: c05KStr, exLit: `"abc"`})
			continue
		}
		var n *gen.Node
		var m c05Type
		switch r := rng.IntN(10); {
		case r < 3:
			n, m = g.object(1 + rng.IntN(2))
		case r < 4:
			n, m = g.array(1)
		default:
			n, m = g.value(0)
		}
		c05DropRule(n, "optional")
		m.name = name
		p.Types = append(p.Types, gen.NamedNode{Name: name, Node: n})
		g.types = append(g.types, m)
	}
	switch r := rng.IntN(10); {
	case r < 5:
		p.Root, _ = g.object(2 + rng.IntN(2))
	case r < 7:
		p.Root, _ = g.array(2)
	default:
		p.Root, _ = g.value(2)
	}
	c05DropRule(p.Root, "optional")
	if g.usedE {
		p.Enums = []gen.NamedText{{Name: "@e0", Text: `[1, "abc", 12]`}}
	}
	return p
}

// ---- corpus -----------------------------------------------------------------------------------

func c05Corpus(r *mon.Run, lit string) {
	u0, err, pn := c05UsedOfText("root", lit, nil)
	cs := c05Case{Kind: "corpus", Text: lit}
	if pn != nil {
		r.Violate("panic", "UsedUserTypes/"+pn.Site, fmt.Sprintf("UsedUserTypes() panicked (%s) on %q", pn.Value, mon.Trunc(lit, 200)), cs)
		return
	}
	if err != nil {
		r.Count("corpus_texts_not_loadable", 1)
		return
	}
	r.Eval(1)
	if c05HasDup(u0) {
		r.Violate("used-types-duplicates", mon.Trunc(lit, 280), fmt.Sprintf("UsedUserTypes() = %q contains a name twice", u0), cs)
		return
	}
	var u1, u2 []string
	var aerr error
	pn = mon.Guard(func() {
		s := jschema.New("root", lit)
		for i, n := range u0 {
			if i%2 == 1 {
				continue // every second used name stays unregistered
			}
			if aerr = s.AddType(n, jschema.New(n, `"abc"`)); aerr != nil {
				return
			}
		}
		if aerr = s.AddType("@c05unused", jschema.New("@c05unused", `{"a": 1}`)); aerr != nil {
			return
		}
		u, _ := s.UsedUserTypes()
		u1 = append([]string(nil), u...)
		_ = s.Check()
		u, _ = s.UsedUserTypes()
		u2 = append([]string(nil), u...)
	})
	if pn != nil {
		r.Violate("panic", "UsedUserTypes+AddType/"+pn.Site, fmt.Sprintf("panic (%s) on %q", pn.Value, mon.Trunc(lit, 200)), cs)
		return
	}
	if aerr != nil {
		r.Count("corpus_texts_registration_refused", 1)
		return
	}
	for _, u := range [][]string{u1, u2} {
		if c05HasDup(u) {
			r.Violate("used-types-duplicates", mon.Trunc(lit, 280), fmt.Sprintf("UsedUserTypes() = %q contains a name twice once types are registered", u), cs)
			return
		}
		if c05Set(u) != c05Set(u0) {
			r.Violate("used-types-registration-dependent", mon.Trunc(lit, 280), fmt.Sprintf("UsedUserTypes() is {%s} with no type registered and {%s} with types registered", c05Set(u0), c05Set(u)), cs)
			return
		}
	}
	if len(u0) > 0 {
		r.Nontrivial("corpus", lit)
	}
	r.Count("corpus_texts_judged", 1)
}

// ---- run ----------------------------------------------------------------------------------------

func c05Pinned(r *mon.Run) {
	p := &gen.Project{Root: gen.Int("1"), Types: []gen.NamedNode{{Name: "@a", Node: gen.Ref("@zz")}}}
	r.Eval(1)
	o := c05Observe(toTexts(p, gen.DefaultLayout), false)
	cs := c05Case{Kind: "pinned", Project: p, Layout: gen.DefaultLayout}
	switch {
	case o.Panic != nil:
		r.Violate("panic", "pinned/"+o.Panic.Site, "the pinned witness panicked: "+o.Panic.Value, cs)
	case o.Code == c05CodeNotFound:
		r.Violate("false-not-found", c05PinnedKey, fmt.Sprintf("Check() of root `1` fails with 1302 %q: the registered type @a, which the root does not reach, refers to the missing @zz (every registered type is checked, reachable or not)", mon.Trunc(o.Msg, 100)), cs)
	default:
		r.Count("pinned_unreachable_dangling_witness_no_longer_fails", 1)
	}
}

func c05Run(r *mon.Run) {
	debug.SetGCPercent(400) // many short-lived schema objects; the live heap is tiny
	if r.Shard == 0 {
		c05Pinned(r)
	}
	rng := r.Rand("c05")
	// (a) the position grid, complete; every shard evaluates the two pinned
	// minimal cases of the rule-set forms to decide whether random projects use them
	formOK := map[string]bool{}
	idx := 0
	for _, pos := range c05Positions() {
		for chain := 0; chain <= 2; chain++ {
			for d := 0; d <= 3; d++ {
				for _, deep := range []bool{false, true} {
					p := c05GridProject(pos, d, chain, deep)
					label := fmt.Sprintf("grid %s depth=%d chain=%d deep=%v", pos.name, d, chain, deep)
					if chain == 0 && d == 0 && !deep && (pos.name == c05FormSetTypeRule || pos.name == c05FormSetAP) {
						formOK[pos.name] = c05FormPasses(p)
					}
					if r.Mine(idx) {
						if c05Project(r, p, gen.DefaultLayout, rng, label) {
							r.Nontrivial("grid", label)
							r.Count("grid_projects", 1)
						}
						if idx%97 == 0 {
							r.Sample(map[string]any{"kind": label, "project": c05Key(toTexts(p, gen.DefaultLayout), nil)})
						}
					}
					idx++
				}
			}
		}
	}
	for _, p := range c05Traps() {
		if r.Mine(idx) {
			if c05Project(r, p, gen.DefaultLayout, rng, "trap") {
				r.Nontrivial("trap", c05Key(toTexts(p, gen.DefaultLayout), nil))
				r.Count("trap_projects", 1)
			}
		}
		idx++
	}
	for _, f := range []string{c05FormSetTypeRule, c05FormSetAP} {
		if !formOK[f] {
			r.CountMax("max:random_projects_avoid_form_"+strings.ReplaceAll(f, "-", "_")+"_whose_minimal_grid_case_fails", 1)
		}
	}
	// (b) random projects
	n := r.Share(r.Pick(30_000, 300_000))
	for i := 0; i < n; i++ {
		p := c05GenProject(rng, formOK[c05FormSetTypeRule], formOK[c05FormSetAP])
		l := gen.DefaultLayout
		if rng.IntN(5) == 0 {
			l = gen.RandLayout(rng)
		}
		if c05Project(r, p, l, rng, "random") {
			r.Nontrivial("rnd", c05Key(toTexts(p, gen.DefaultLayout), nil))
		}
		if i < 2 {
			r.Sample(map[string]any{"kind": "random", "project": c05Key(toTexts(p, l), nil)})
		}
	}
	// (c) the repository's test corpus: duplicates and registration independence only
	corpus := gen.Corpus(r.Repo)
	for i, lit := range corpus {
		if r.Mine(i) {
			c05Corpus(r, lit)
		}
	}
	r.CountMax("max:corpus_literals", int64(len(corpus)))
}

// c05FormPasses: does the library handle the minimal case of a rule-set form
// (used list right, a missing target reported, a registered one accepted)?
func c05FormPasses(p *gen.Project) bool {
	ok := true
	if pn := mon.Guard(func() {
		v, set, usedOK := c05EvalUsed(p, gen.DefaultLayout)
		if v.Clause != "" || !usedOK {
			ok = false
			return
		}
		for _, w := range []map[string]bool{{}, {"@t": true}} {
			if sv := c05EvalSubset(p, gen.DefaultLayout, w, &set); sv.Clause != "" || strings.HasPrefix(sv.Status, "generator") || strings.HasPrefix(sv.Status, "other") {
				ok = false
			}
		}
	}); pn != nil {
		return false
	}
	return ok
}

func c05Replay(r *mon.Run, raw stdjson.RawMessage) {
	var c c05Case
	if stdjson.Unmarshal(raw, &c) != nil {
		return
	}
	switch c.Kind {
	case "pinned":
		c05Pinned(r)
	case "corpus":
		c05Corpus(r, c.Text)
	case "used":
		if c.Project != nil {
			v, _, _ := c05EvalUsed(c.Project, c.Layout)
			c05Report(r, "used", c.Project, c.Layout, nil, nil, v, false)
		}
	case "subset":
		if c.Project != nil {
			var refSet *string
			if _, s, ok := c05EvalUsed(c.Project, c.Layout); ok {
				refSet = &s
			}
			w := c05Withheld(c.Withheld)
			c05Report(r, "subset", c.Project, c.Layout, w, nil, c05EvalSubset(c.Project, c.Layout, w, refSet), false)
		}
	case "extra":
		if c.Project != nil {
			w := c05Withheld(c.Withheld)
			v, _ := c05EvalExtra(c.Project, c.Layout, w, c.Extras)
			c05Report(r, "extra", c.Project, c.Layout, w, c.Extras, v, false)
		}
	}
}

func init() {
	register(&mon.CheckDef{
		ID:     "C05",
		Run:    c05Run,
		Replay: c05Replay,
		Rule: "project models (root + up to 6 types incl. regex types, enum rules) are printed and given to the library; the reference is the model's own reference graph (value shortcut, `@a | @b`, key shortcut, type, or items and the type / additionalProperties of or rule-sets, allOf name or list, additionalProperties; enum rule names, enum items, notes and example strings that look like names are not references). " +
			"(1) UsedUserTypes() of the root text and of every type text on a fresh type-less object = the model's name set, no duplicates; the same set again from the built root before and after Check() under every registered subset. " +
			"(2) For every one of the 2^k subsets of withheld definitions (withheld = registered nowhere): M = names reachable from the root through registered types that are not registered; M non-empty => Check() must fail with 1302 and its message must name a member of M; M empty => Check() must not fail with 1302. " +
			"(3) the digest (verdict code, AST, example, used types, OpenAPI text) and the Check() message of a project must not change when 1-3 valid self-contained unused types are registered as well (all registered, and under one random subset). " +
			"Workload: a complete grid of 26 reference positions (incl. names spelled with JSON escapes; (incl. type / or on a `null` example with nullable: true) x nesting depth 0-3 x 0-2 intermediate types x target with/without a reference of its own (all subsets each), look-alike traps, random acyclic projects biased to many references (1/5 under a random layout), and the repository test corpus for the duplicate / registration-independence sub-clauses. distinct_nontrivial = distinct projects that were valid subjects (hashed) + corpus texts with at least one used name.",
		MinNontrivialQuick: 20000, MinNontrivialThorough: 200000,
		MaxInconclusiveFrac: 0.10,
		Assumptions: []string{
			"order of UsedUserTypes() and which of several missing types is named are not judged",
			"a reachable type is missing but Check() fails with another code (another defect found first, e.g. a key shortcut through an alias of a missing type gives 1106): inconclusive, counted per code",
			"nothing reachable is missing but a registered type the root does not reach has a dangling reference: not judged (counter carved_out_unreachable_type_with_dangling_reference); the literal reading makes the library's 1302 a violation, recorded once through the pinned witness '" + c05PinnedKey + "'",
			"a generated project the library rejects with everything registered is inconclusive (generator/table mismatch) unless the code is 1302; bounded at 10 %",
			"random projects are acyclic (recursion is C06) and use the two rule-set forms {type:\"@t\", <other rule>} / {type:\"object\", additionalProperties:\"@t\"} only when their minimal grid cases pass, so that one known defect is reported once by its grid key instead of flooding the random part",
			"corpus texts: only duplicates and independence of registration are judged (no independent name scan of free text)",
		},
		Exhaustive: "the reference-position grid (17 positions x depth 0-3 x chain 0-2 x shallow/deep target) with all 2^k registered subsets of each project, and all 2^k subsets of every random project (k <= 6)",
	})
}
