package props

import (
	stdjson "encoding/json"
	"fmt"
	"math/rand/v2"
	"regexp"
	"strings"

	cbytes "github.com/jsightapi/jsight-schema-core/bytes"
	ljson "github.com/jsightapi/jsight-schema-core/json"

	"verifharness/internal/gen"
	"verifharness/internal/mon"
	"verifharness/internal/ref"
)

var c13PlainRE = regexp.MustCompile(`^-?(0|[1-9][0-9]*)(\.[0-9]+)?$`)

// c13Grammar judges NewNumber(s) against the JSON number grammar and, when
// accepted, String() and LengthOfFractionalPart().
func c13Grammar(r *mon.Run, s string) (*ljson.Number, bool) { return c13GrammarP(r, s, false) }

func c13GrammarP(r *mon.Run, s string, pinned bool) (*ljson.Number, bool) {
	r.Eval(1)
	var n *ljson.Number
	var err error
	cs := map[string]any{"kind": "grammar", "s": s}
	// the text is handed over in a buffer of the caller's (no spare capacity
	// behind it) that is reused for something else as soon as NewNumber returns:
	// the number is the one that was written when it was made
	buf := exactBytes(s)
	if p := mon.Guard(func() { n, err = ljson.NewNumber(cbytes.NewBytes(buf)) }); p != nil {
		r.Violate("panic", "NewNumber/"+p.Site, fmt.Sprintf("NewNumber(%q) panicked: %s", s, p.Value), cs)
		return nil, false
	}
	for i := range buf {
		buf[i] = '7'
	}
	want := ref.JSONNumberRE.MatchString(s)
	if ref.ZeroExp(s) && !pinned {
		// carved-out family of a recorded finding; the pinned witnesses are replayed separately
		r.Count("carved_out_zero_mantissa_exponent", 1)
		return nil, false
	}
	if want && hugeExp(s) {
		// resource bound: whether a number whose exponent exceeds 100000 is accepted is not judged, only that the call returns
		r.Count("huge_exponent_probes_returned", 1)
		if err == nil {
			// accepted: then it is the number that was written, not the mantissa alone
			i := strings.IndexAny(s, "eE")
			d, ok := ref.ParseDec(s)
			dm, okm := ref.ParseDec(s[:i])
			nm, merr := ljson.NewNumber(cbytes.NewBytes(s[:i]))
			if ok && okm && merr == nil {
				var got int
				if p := mon.Guard(func() { got = n.Cmp(nm) }); p != nil {
					r.Violate("panic", "Number.Cmp/"+p.Site, fmt.Sprintf("Cmp(%q, %q) panicked: %s", s, s[:i], p.Value), cs)
				} else if want := d.Cmp(dm); got != want {
					r.Violate("cmp", s+" ? "+s[:i], fmt.Sprintf("NewNumber accepts %q, but Cmp with its own mantissa %q is %d; exact arithmetic says %d", s, s[:i], got, want), cs)
				}
				r.Count("huge_exponent_accepted_and_compared_with_mantissa", 1)
			} else if !ok && okm && merr == nil && dm.Digits != "" {
				// the exponent does not fit a machine word: the number written is still not its mantissa; it lies
				// beyond it (positive exponent) or between it and zero (negative exponent)
				want := 1
				if strings.ContainsRune(s[i:], '-') {
					want = -1
				}
				if dm.Neg {
					want = -want
				}
				var got int
				if p := mon.Guard(func() { got = n.Cmp(nm) }); p != nil {
					r.Violate("panic", "Number.Cmp/"+p.Site, fmt.Sprintf("Cmp(%q, %q) panicked: %s", s, s[:i], p.Value), cs)
				} else if got != want {
					r.Violate("cmp", s+" ? "+s[:i], fmt.Sprintf("NewNumber accepts %q, but Cmp with its own mantissa %q is %d; exact arithmetic says %d", s, s[:i], got, want), cs)
				}
				r.Count("huge_exponent_accepted_and_compared_with_mantissa", 1)
			}
		}
		return nil, false
	}
	if (err == nil) != want {
		r.Violate("grammar", s, fmt.Sprintf("NewNumber(%q) accepted=%v (err=%v); the JSON number grammar says %v", s, err == nil, err, want), cs)
		return nil, false
	}
	if err != nil {
		return nil, false
	}
	d, ok := ref.ParseDec(s)
	if !ok {
		return nil, false
	}
	var str string
	var fl uint
	if p := mon.Guard(func() { str = n.String(); fl = n.LengthOfFractionalPart() }); p != nil {
		r.Violate("panic", "Number.String/"+p.Site, fmt.Sprintf("String()/LengthOfFractionalPart() of %q panicked: %s", s, p.Value), cs)
		return nil, false
	}
	if !c13PlainRE.MatchString(str) {
		r.Violate("string", s, fmt.Sprintf("NewNumber(%q).String()=%q is not a plain decimal numeral", s, str), cs)
	} else if d2, _ := ref.ParseDec(str); d2.Cmp(d) != 0 {
		r.Violate("string", s, fmt.Sprintf("NewNumber(%q).String()=%q denotes a different value", s, str), cs)
	}
	if int(fl) != d.FracLen() {
		r.Violate("fraclen", s, fmt.Sprintf("NewNumber(%q).LengthOfFractionalPart()=%d, the value has %d significant fraction digits", s, fl, d.FracLen()), cs)
	}
	return n, true
}

func c13Pair(r *mon.Run, a, b string, na, nb *ljson.Number) {
	r.Eval(1)
	da, _ := ref.ParseDec(a)
	db, _ := ref.ParseDec(b)
	want := da.Cmp(db)
	if abs(da.Exp) < 200 && abs(db.Exp) < 200 && len(da.Digits) < 80 && len(db.Digits) < 80 {
		if rw := da.Rat().Cmp(db.Rat()); rw != want {
			r.Note(fmt.Sprintf("reference self-check failed on %q vs %q", a, b))
			r.Inconclusive("reference-disagreement")
			return
		}
	}
	cs := map[string]any{"kind": "pair", "a": a, "b": b}
	var got int
	var eq, gt, gte, lt, lte bool
	// comparing is read-only: both operands print and measure the same afterwards (skipped for huge exponents,
	// whose plain numerals are megabytes long)
	small := abs(da.Exp) < 4000 && abs(db.Exp) < 4000
	var sa0, sb0 string
	var fa0, fb0 uint
	if small {
		mon.Guard(func() {
			sa0, sb0, fa0, fb0 = na.String(), nb.String(), na.LengthOfFractionalPart(), nb.LengthOfFractionalPart()
		})
	}
	defer func() {
		if !small {
			return
		}
		var sa1, sb1 string
		var fa1, fb1 uint
		mon.Guard(func() {
			sa1, sb1, fa1, fb1 = na.String(), nb.String(), na.LengthOfFractionalPart(), nb.LengthOfFractionalPart()
		})
		if sa0 != sa1 || sb0 != sb1 || fa0 != fa1 || fb0 != fb1 {
			r.Violate("operand-changed", a+" ? "+b, fmt.Sprintf("after comparing %s with %s the operands read %q (fraction length %d) and %q (%d); before: %q (%d) and %q (%d)", a, b, mon.Trunc(sa1, 60), fa1, mon.Trunc(sb1, 60), fb1, mon.Trunc(sa0, 60), fa0, mon.Trunc(sb0, 60), fb0), cs)
		}
	}()
	if p := mon.Guard(func() {
		if small {
			// reading a number as a float is read-only too (the float itself is not judged: ToFloat gives up with a
			// panic beyond the float64 range, which is outside the statement)
			mon.Guard(func() { _ = na.ToFloat() })
			mon.Guard(func() { _ = nb.ToFloat() })
		}
		got = na.Cmp(nb)
		eq, gt, gte, lt, lte = na.Equal(nb), na.GreaterThan(nb), na.GreaterThanOrEqual(nb), na.LessThan(nb), na.LessThanOrEqual(nb)
	}); p != nil {
		r.Violate("panic", "Number.Cmp/"+p.Site, fmt.Sprintf("comparing %q with %q panicked: %s", a, b, p.Value), cs)
		return
	}
	if got != want {
		r.Violate("cmp", a+" ? "+b, fmt.Sprintf("Cmp(%s, %s)=%d, exact arithmetic says %d", a, b, got, want), cs)
		return
	}
	if eq != (want == 0) || gt != (want > 0) || gte != (want >= 0) || lt != (want < 0) || lte != (want <= 0) {
		r.Violate("predicates", a+" ? "+b, fmt.Sprintf("%s vs %s: Equal=%v GT=%v GTE=%v LT=%v LTE=%v, exact comparison %d", a, b, eq, gt, gte, lt, lte, want), cs)
	}
}

func abs(i int) int {
	if i < 0 {
		return -i
	}
	return i
}

func randDigits(rng *rand.Rand, n int) string {
	b := make([]byte, n)
	for i := range b {
		b[i] = byte('0' + rng.IntN(10))
	}
	return string(b)
}

// randNumber makes a grammatical JSON number with long digit strings and big exponents.
func randNumber(rng *rand.Rand, maxExp int) string {
	var sb strings.Builder
	if rng.IntN(3) == 0 {
		sb.WriteByte('-')
	}
	switch rng.IntN(5) {
	case 0:
		sb.WriteByte('0')
	default:
		sb.WriteByte(byte('1' + rng.IntN(9)))
		sb.WriteString(randDigits(rng, rng.IntN(1+rng.IntN(40))))
		if rng.IntN(4) == 0 {
			sb.WriteString(strings.Repeat("0", rng.IntN(6)))
		}
	}
	if rng.IntN(2) == 0 {
		sb.WriteByte('.')
		if rng.IntN(4) == 0 {
			sb.WriteString(strings.Repeat("0", rng.IntN(6)))
		}
		sb.WriteString(randDigits(rng, 1+rng.IntN(1+rng.IntN(30))))
		if rng.IntN(3) == 0 {
			sb.WriteString(strings.Repeat("0", 1+rng.IntN(5)))
		}
	}
	if rng.IntN(2) == 0 {
		sb.WriteByte("eE"[rng.IntN(2)])
		switch rng.IntN(3) {
		case 0:
			sb.WriteByte('+')
		case 1:
			sb.WriteByte('-')
		}
		if rng.IntN(4) == 0 {
			sb.WriteString(strings.Repeat("0", rng.IntN(3)))
		}
		e := rng.IntN(12)
		if rng.IntN(4) == 0 {
			e = rng.IntN(maxExp)
		}
		sb.WriteString(fmt.Sprint(e))
	}
	return sb.String()
}

// shifted writes the same value with the decimal point moved (exponent form).
func shifted(rng *rand.Rand, d ref.Dec) string {
	if d.Digits == "" {
		return []string{"0", "-0", "0.0", "0.0e5", "-0.00", "0.00E-3"}[rng.IntN(6)]
	}
	k := rng.IntN(8)
	digits := d.Digits + strings.Repeat("0", k)
	exp := d.Exp - k
	s := ""
	if d.Neg {
		s = "-"
	}
	// put a point after p digits
	p := 1 + rng.IntN(len(digits))
	s += digits[:p]
	if p < len(digits) {
		s += "." + digits[p:]
		exp += len(digits) - p
	}
	if exp != 0 || rng.IntN(2) == 0 {
		s += fmt.Sprintf("e%d", exp)
	}
	return s
}

// lastDigitNeighbour changes the last digit of the mantissa by one.
func lastDigitNeighbour(s string) string {
	end := len(s)
	if i := strings.IndexAny(s, "eE"); i >= 0 {
		end = i
	}
	b := []byte(s)
	for i := end - 1; i >= 0; i-- {
		if b[i] >= '0' && b[i] <= '9' {
			if b[i] == '9' {
				b[i] = '8'
			} else {
				b[i]++
			}
			break
		}
	}
	out := string(b)
	if !ref.JSONNumberRE.MatchString(out) {
		return s
	}
	return out
}

func c13Run(r *mon.Run) {
	// (1) grammar: every string over the alphabet up to length L
	alpha := []string{"0", "1", "9", "-", "+", ".", "e", "E", "x", ":", "/"} // ':' and '/' are the neighbours of the digit range
	L := r.Pick(6, 8)
	k := 0
	gen.TokensSharded(alpha, L, r.Shard, mon.LogicalShards, func(s []byte, n int) bool {
		if n == 1 && r.Shard != 0 {
			return true
		}
		str := string(s)
		_, acc := c13Grammar(r, str)
		r.Nontrivial("g", str)
		k++
		if acc && k%9973 == 0 {
			r.Sample(map[string]any{"kind": "grammar string (accepted)", "text": str})
		}
		return true
	})
	if r.Shard == 0 {
		for _, s := range []string{"0e0", "0e2", "-0E+5", "0e-1"} { // pinned witnesses of the recorded finding
			c13GrammarP(r, s, true)
		}
		// exponents at the machine-word boundaries (judged for not panicking / not exhausting memory)
		for _, e := range []string{"2147483647", "2147483648", "4294967295", "4294967296", "9223372036854775806", "9223372036854775807", "9223372036854775808",
			"18446744073709551615", "18446744073709551616", "18446744073709551617", "18446744073709551618", "18446744073709551619", "18446744073709551620", "18446744073709551625",
			"18446744073709551626", "36893488147419103232", "36893488147419103233", "184467440737095516160", "184467440737095516161", "340282366920938463463374607431768211456", "340282366920938463463374607431768211457",
			"00018446744073709551617", "4294967297", "1000001", "1000000", "999999"} {
			for _, m := range []string{"1", "12", "1.5", "-1", "0.001", "123456789012345678901234567890"} {
				for _, sign := range []string{"", "+", "-"} {
					c13Grammar(r, m+"e"+sign+e)
				}
			}
		}
		// exponents written with leading zeros (up to 40 of them): the digit count says nothing about the value
		for _, z := range []int{1, 2, 5, 17, 18, 19, 20, 21, 22, 25, 40} {
			for _, m := range []string{"1", "12.5", "-7", "0.001", "0"} {
				for _, sign := range []string{"", "+", "-"} {
					for _, e := range []string{"0", "3", "12", "1000001"} {
						if m == "0" {
							continue // zero mantissa + exponent: recorded finding family
						}
						c13Grammar(r, m+"e"+sign+strings.Repeat("0", z)+e)
						c13Grammar(r, m+"E"+sign+strings.Repeat("0", z)+e)
					}
				}
			}
		}
		// a resource-bound exponent behind every shape of mantissa (0.5, 0.05, 0.50, 5.0, 50, -0.7, 0.3000 ...)
		for _, m := range []string{"0.5", "-0.7", "0.50", "0.3000", "0.05", "5.0", "50", "5", "0.55", "1.5", "10.5", "-0.05", "0.0005"} {
			for _, e := range []string{"e1000001", "E-2000000", "e99999999999999999999", "e+100001", "e-100001", "e999999", "e1000000", "E-1000000"} {
				c13Grammar(r, m+e)
			}
		}
		for _, s := range []string{"", " 1", "1 ", "１", "1e99999999999999999999", "1e-99999999999999999999", "0." + strings.Repeat("0", 500) + "1", "1e18446744073709551617", "-", "1e1048577"} {
			c13Grammar(r, s)
		}
	}
	// (1b) order of calls: a parse must not depend on what the previous call was given. Every kind of refusal
	// (grammar, exponent beyond the resource bound, empty, foreign bytes) is followed by fully judged parses.
	{
		rejectors := []string{"1e1000001", "1E-99999999999999999999", "1.5e+1000001", "-12e99999999999999999999", "1e18446744073709551617", "1.", "1e", "1e+", "1e5+", "abc", "", "-", "--1", "1..2", "1x", "+1", ".5", "01", "0e0",
			"123456789012345678901234567890e1000001"}
		canaries := []string{"7", "0", "12345", "-12345", "250.75", "-0.5", "1e3", "1.5E-2", "10", "0.001", "-0", "9", "1E+2", "100", "0.10"}
		idx := 0
		for _, rej := range rejectors {
			for i, c := range canaries {
				if r.Mine(idx) {
					mon.Guard(func() { _, _ = ljson.NewNumber(cbytes.NewBytes(rej)) })
					na, ok := c13Grammar(r, c)
					mon.Guard(func() { _, _ = ljson.NewNumber(cbytes.NewBytes(rej)) })
					c2 := canaries[(i+1)%len(canaries)]
					nb, ok2 := c13Grammar(r, c2)
					if ok && ok2 {
						c13Pair(r, c, c2, na, nb)
					}
					r.Nontrivial("h", rej, c)
					r.Count("parses_judged_right_after_a_refusal", 2)
				}
				idx++
			}
		}
	}
	// (2) all ordered pairs from the accepted strings up to length P over a smaller alphabet
	var small []string
	P := r.Pick(5, 5)
	gen.Tokens([]string{"0", "1", "9", "-", ".", "e", "E", "+"}, P, func(s []byte, n int) bool {
		if ref.JSONNumberRE.Match(s) && !ref.ZeroExp(string(s)) {
			small = append(small, string(s))
		}
		return true
	})
	nums := make([]*ljson.Number, len(small))
	for i, s := range small {
		n, err := ljson.NewNumber(cbytes.NewBytes(s))
		if err == nil {
			nums[i] = n
		}
	}
	pi := 0
	for i := range small {
		for j := range small {
			if r.Mine(pi) && nums[i] != nil && nums[j] != nil {
				c13Pair(r, small[i], small[j], nums[i], nums[j])
				r.Nontrivial("p", small[i], small[j])
			}
			pi++
		}
	}
	r.Count("exhaustive_pair_set_size", int64(len(small)))
	// (3) random long numbers
	rng := r.Rand("c13")
	n := r.Share(r.Pick(200_000, 4_000_000))
	for i := 0; i < n; i++ {
		if rng.IntN(50) == 0 { // perturb the history with a refusal for the exponent bound
			huge := "1" + randDigits(rng, rng.IntN(5)) + "e" + []string{"", "+", "-"}[rng.IntN(3)] + "1" + randDigits(rng, 7+rng.IntN(14))
			mon.Guard(func() { _, _ = ljson.NewNumber(cbytes.NewBytes(huge)) })
			r.Count("random_history_perturbations", 1)
		}
		a := randNumber(rng, 3000)
		na, ok := c13Grammar(r, a)
		if !ok {
			continue
		}
		da, _ := ref.ParseDec(a)
		var b string
		switch rng.IntN(4) {
		case 0:
			b = shifted(rng, da) // equal by construction
		case 1:
			b = lastDigitNeighbour(shifted(rng, da))
		case 2:
			b = lastDigitNeighbour(a)
		default:
			b = randNumber(rng, 3000)
		}
		nb, ok := c13Grammar(r, b)
		if !ok {
			continue
		}
		c13Pair(r, a, b, na, nb)
		c13Pair(r, b, a, nb, na)
		r.Nontrivial("p", a, b)
		if i == 0 {
			r.Sample(map[string]any{"kind": "random pair", "a": a, "b": b})
		}
	}
}

func init() {
	register(&mon.CheckDef{
		ID:  "C13",
		Run: c13Run,
		Replay: func(r *mon.Run, raw stdjson.RawMessage) {
			var c struct{ Kind, S, A, B string }
			stdjson.Unmarshal(raw, &c)
			if c.Kind == "grammar" {
				c13GrammarP(r, c.S, true)
				return
			}
			na, ok1 := c13Grammar(r, c.A)
			nb, ok2 := c13Grammar(r, c.B)
			if ok1 && ok2 {
				c13Pair(r, c.A, c.B, na, nb)
			}
		},
		Rule:               "grammar: every string over {0 1 9 - + . e E x : /} up to length 6 (quick) / 8 (thorough) is given to NewNumber (in a caller's buffer that is overwritten as soon as the call returns) and compared with the RFC 8259 number regex; for accepted strings String() must be a plain numeral denoting the same exact decimal and LengthOfFractionalPart() the number of significant fraction digits. exponents spelled with up to 40 leading zeros; 13 mantissa shapes x 8 exponents around the resource bound (a text that is accepted there must compare with its own mantissa as exact arithmetic says). order of calls: each of 20 refused texts (grammar, exponent beyond the resource bound, empty, foreign bytes) is followed by fully judged parses of 15 plain numbers, and one random pair in 50 is preceded by a refused huge-exponent text. comparison: all ordered pairs of the grammatical strings of length <= 5 over {0 1 9 - . e E +}, plus random pairs with up to 46 mantissa digits and exponents up to 3000 (equal-by-shift, last-digit neighbours, unrelated), each compared both ways: Cmp/Equal/GT/GTE/LT/LTE vs exact decimal comparison, and String() / LengthOfFractionalPart() of both operands unchanged by the comparison and by ToFloat() (cross-checked with math/big.Rat for small exponents). distinct_nontrivial = distinct strings and pairs (hashed).",
		MinNontrivialQuick: 200000, MinNontrivialThorough: 2000000,
		Assumptions: []string{"reference: harness/internal/ref/decimal.go (exact normalised decimals) cross-checked against math/big.Rat", "exponents with more than 3000 in magnitude are only probed at a few fixed points (memory)"},
		Exhaustive:  "all strings up to the stated length over the 9-byte alphabet; all ordered pairs of grammatical strings up to the stated length",
	})
}

// hugeExp tells whether the exponent part of a grammatical number exceeds 100000 in magnitude.
func hugeExp(s string) bool {
	i := strings.IndexAny(s, "eE")
	if i < 0 {
		return false
	}
	e := strings.TrimLeft(strings.TrimLeft(s[i+1:], "+-"), "0")
	return len(e) > 6 || (len(e) == 6 && e > "100000")
}
