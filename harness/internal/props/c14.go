package props

import (
	stdjson "encoding/json"
	"fmt"
	"reflect"
	"regexp"
	"strings"

	"github.com/jsightapi/jsight-schema-core/openapi"

	"verifharness/internal/gen"
	"verifharness/internal/mon"
)

// pdigest is everything C14 compares between two presentations of one schema.
type pdigest struct {
	Code    int    `json:"code"`
	AST     string `json:"ast,omitempty"`
	Example string `json:"example,omitempty"`
	Used    string `json:"used,omitempty"`
	OpenAPI string `json:"openapi,omitempty"`
	Panic   string `json:"panic,omitempty"`
}

var pipeBlanksRE = regexp.MustCompile(`[ \t]*\|[ \t]*`)

func normComments(v any) any {
	switch t := v.(type) {
	case map[string]any:
		for k, x := range t {
			if k == "Comment" {
				if s, ok := x.(string); ok {
					t[k] = strings.Join(strings.Fields(s), " ")
					continue
				}
			}
			if k == "Value" && t["TokenType"] == "reference" {
				// the AST keeps a type choice as written: blanks around `|` are layout
				if s, ok := x.(string); ok {
					t[k] = pipeBlanksRE.ReplaceAllString(s, " | ")
					continue
				}
			}
			t[k] = normComments(x)
		}
		return t
	case []any:
		for i := range t {
			t[i] = normComments(t[i])
		}
	}
	return v
}

// canonAST renders an AST as JSON with notes compared modulo their own line breaks / blank runs.
func canonAST(b []byte) string {
	var v any
	dec := stdjson.NewDecoder(strings.NewReader(string(b)))
	dec.UseNumber()
	if dec.Decode(&v) != nil {
		return string(b)
	}
	out, _ := stdjson.Marshal(normComments(v))
	return string(out)
}

func digestOf(pt project) pdigest {
	var d pdigest
	p := mon.Guard(func() {
		s, err := pt.build()
		if err == nil {
			err = s.Check()
		}
		if err != nil {
			v, _ := viewError(err)
			d.Code = v.Code
			if !v.HasCode {
				d.Code = -1
			}
			return
		}
		ast, err := s.GetAST()
		if err != nil {
			d.AST = "error: " + err.Error()
		} else if b, merr := marshalAST(ast); merr == nil {
			d.AST = canonAST(b)
		}
		if ex, err := s.Example(); err != nil {
			v, _ := viewError(err)
			d.Example = fmt.Sprintf("error %d", v.Code)
		} else {
			d.Example = string(ex)
		}
		used, _ := s.UsedUserTypes()
		d.Used = strings.Join(used, ",")
		if op := mon.Guard(func() {
			b, err := openapi.NewSchemaObject(s).MarshalJSON()
			if err != nil {
				d.OpenAPI = "error: " + err.Error()
			} else {
				d.OpenAPI = string(b)
			}
		}); op != nil {
			d.OpenAPI = "panic: " + op.Value
		}
	})
	if p != nil {
		d.Panic = p.Value
	}
	return d
}

func diffDigest(a, b pdigest) (clause, what string) {
	switch {
	case a.Panic != b.Panic:
		return "layout-panic", fmt.Sprintf("panic %q vs %q", a.Panic, b.Panic)
	case a.Code != b.Code:
		return "layout-verdict", fmt.Sprintf("verdict code %d vs %d", a.Code, b.Code)
	case a.AST != b.AST:
		return "layout-ast", fmt.Sprintf("AST %s vs %s", mon.Trunc(a.AST, 200), mon.Trunc(b.AST, 200))
	case a.Example != b.Example:
		return "layout-example", fmt.Sprintf("example %s vs %s", mon.Trunc(a.Example, 160), mon.Trunc(b.Example, 160))
	case a.Used != b.Used:
		return "layout-used", fmt.Sprintf("used types %q vs %q", a.Used, b.Used)
	case a.OpenAPI != b.OpenAPI:
		return "layout-openapi", fmt.Sprintf("OpenAPI %s vs %s", mon.Trunc(a.OpenAPI, 200), mon.Trunc(b.OpenAPI, 200))
	}
	return "", ""
}

// layoutDiff names the layout fields in which two layouts differ.
func layoutDiff(a, b gen.Layout) string {
	var out []string
	va, vb := reflect.ValueOf(a), reflect.ValueOf(b)
	for i := 0; i < va.NumField(); i++ {
		if !reflect.DeepEqual(va.Field(i).Interface(), vb.Field(i).Interface()) {
			out = append(out, va.Type().Field(i).Name)
		}
	}
	return strings.Join(out, "+")
}

// oneFactorLayouts: the default layout with exactly one choice changed.
func oneFactorLayouts() []gen.Layout {
	d := gen.DefaultLayout
	var out []gen.Layout
	mod := func(f func(l *gen.Layout)) { l := d; f(&l); out = append(out, l) }
	mod(func(l *gen.Layout) { l.NL = "\r\n" })
	mod(func(l *gen.Layout) { l.NL = "\r" })
	mod(func(l *gen.Layout) { l.Indent = "" })
	mod(func(l *gen.Layout) { l.Indent = "\t" })
	mod(func(l *gen.Layout) { l.Multi = true })
	mod(func(l *gen.Layout) { l.Multi = true; l.Spread = true })
	mod(func(l *gen.Layout) { l.QuoteNames = true })
	mod(func(l *gen.Layout) { l.Pad = 0 })
	mod(func(l *gen.Layout) { l.Pad = 2 })
	mod(func(l *gen.Layout) { l.ColonStyle = 0 })
	mod(func(l *gen.Layout) { l.ColonStyle = 2 })
	mod(func(l *gen.Layout) { l.Lead = 2 })
	mod(func(l *gen.Layout) { l.Trail = 2 })
	mod(func(l *gen.Layout) { l.Comments = 1 })
	mod(func(l *gen.Layout) { l.Comments = 2 })
	mod(func(l *gen.Layout) { l.Compact = true })
	mod(func(l *gen.Layout) { l.TrailBlanks = true })
	mod(func(l *gen.Layout) { l.AnnGap = 3 })
	mod(func(l *gen.Layout) { l.BlankLines = true })
	mod(func(l *gen.Layout) { l.PipeStyle = 1 })
	mod(func(l *gen.Layout) { l.PipeStyle = 2 })
	mod(func(l *gen.Layout) { l.PipeStyle = 3 })
	mod(func(l *gen.Layout) { l.DashStyle = 1 })
	mod(func(l *gen.Layout) { l.QuoteMix = 1 })
	mod(func(l *gen.Layout) { l.QuoteMix = 2 })
	mod(func(l *gen.Layout) { l.Multi = true; l.Spread = true; l.QuoteMix = 1 })
	mod(func(l *gen.Layout) { l.Multi = true; l.Spread = true; l.SpreadHead = true; l.QuoteMix = 1 })
	mod(func(l *gen.Layout) { l.Multi = true; l.Spread = true; l.SpreadHead = true; l.QuoteMix = 2 })
	mod(func(l *gen.Layout) { l.Multi = true; l.Spread = true; l.SpreadHead = true })
	mod(func(l *gen.Layout) { l.OpenGap = 1 })
	mod(func(l *gen.Layout) { l.OpenGap = 2 })
	mod(func(l *gen.Layout) { l.OpenGap = 4 })
	mod(func(l *gen.Layout) { l.Multi = true; l.OpenGap = 2 })
	mod(func(l *gen.Layout) { l.Multi = true; l.OpenGap = 1 })
	mod(func(l *gen.Layout) { l.GapTab = true })
	mod(func(l *gen.Layout) { l.EmptyPad = true })
	mod(func(l *gen.Layout) { l.EmptyDash = true })
	mod(func(l *gen.Layout) { l.EmptyDash = true; l.Multi = true })
	mod(func(l *gen.Layout) { l.BlockInAnn = true })
	mod(func(l *gen.Layout) { l.BlockInAnn = true; l.NL = "\r\n" })
	mod(func(l *gen.Layout) { l.EmptyCmt = true })
	mod(func(l *gen.Layout) { l.EmptyCmt = true; l.EmptyPad = true; l.Multi = true })
	mod(func(l *gen.Layout) { l.EmptyAnn = 1 })
	mod(func(l *gen.Layout) { l.EmptyAnn = 2; l.NL = "\r\n" })
	mod(func(l *gen.Layout) { l.EmptyAnn = 3 })
	mod(func(l *gen.Layout) { l.EmptyAnn = 4; l.NL = "\r" })
	mod(func(l *gen.Layout) { l.ColonTab = true })
	mod(func(l *gen.Layout) { l.ColonTab = true; l.QuoteNames = true; l.Multi = true })
	mod(func(l *gen.Layout) { l.NoteBelow = true })
	mod(func(l *gen.Layout) { l.NoteBelow = true; l.Multi = true; l.NL = "\r\n" })
	mod(func(l *gen.Layout) { l.NoteBelow = true; l.NL = "\r"; l.GapTab = true })
	mod(func(l *gen.Layout) { l.EmptyPad = true; l.Multi = true })
	mod(func(l *gen.Layout) { l.QuoteNames = true; l.Pad = 2 })
	mod(func(l *gen.Layout) { l.Multi = true; l.DashStyle = 2 })
	mod(func(l *gen.Layout) { l.Multi = true; l.DashStyle = 3 })
	mod(func(l *gen.Layout) { l.Multi = true; l.DashStyle = 2; l.NL = "\r\n" })
	mod(func(l *gen.Layout) { l.Comments = 1; l.NL = "\r" })
	mod(func(l *gen.Layout) { l.CloseTight = true; l.Multi = true })
	mod(func(l *gen.Layout) { l.CloseTight = true; l.Multi = true; l.Spread = true; l.NL = "\r\n" })
	mod(func(l *gen.Layout) { l.HashGlue = true; l.Comments = 1 })
	mod(func(l *gen.Layout) { l.HashGlue = true; l.Comments = 2; l.PipeStyle = 1 })
	mod(func(l *gen.Layout) { l.HashGlue = true; l.EmptyHash = 1 })
	mod(func(l *gen.Layout) { l.EmptyHash = 1 })
	mod(func(l *gen.Layout) { l.EmptyHash = 1; l.NL = "\r" })
	mod(func(l *gen.Layout) { l.EmptyHash = 1; l.NL = "\r\n"; l.Multi = true })
	mod(func(l *gen.Layout) { l.EmptyHash = 2 })
	mod(func(l *gen.Layout) { l.EmptyHash = 1; l.Comments = 2; l.Compact = true })
	return out
}

type c14Case struct {
	Project *gen.Project `json:"project,omitempty"`
	A, B    gen.Layout
	TextA   string `json:"text_a,omitempty"`
	TextB   string `json:"text_b,omitempty"`
}

func c14Model(r *mon.Run, p *gen.Project, layouts []gen.Layout) {
	base := toTexts(p, gen.DefaultLayout)
	d0 := digestOf(base)
	r.Eval(1)
	if d0.Code == 0 {
		r.Count("models_accepted", 1)
	} else {
		r.Count("models_rejected", 1)
	}
	for _, l := range layouts {
		r.Eval(1)
		pt := toTexts(p, l)
		d := digestOf(pt)
		if clause, what := diffDigest(d0, d); clause != "" {
			factor := layoutDiff(gen.DefaultLayout, l)
			key := factor + " :: " + mon.Trunc(projectKey(base), 200)
			r.Violate(clause, key, fmt.Sprintf("default layout vs layout differing in %s: %s; variant text: %s", factor, what, mon.Trunc(projectKey(pt), 300)),
				c14Case{Project: p, A: gen.DefaultLayout, B: l})
			return
		}
	}
}

// ---- corpus transforms ------------------------------------------------------------

type textTransform struct {
	name string
	f    func(s string) (string, bool)
}

func c14Transforms() []textTransform {
	noCR := func(s string) bool { return !strings.Contains(s, "\r") }
	return []textTransform{
		{"LF->CRLF", func(s string) (string, bool) {
			if !noCR(s) || !strings.Contains(s, "\n") {
				return "", false
			}
			return strings.ReplaceAll(s, "\n", "\r\n"), true
		}},
		{"LF->CR", func(s string) (string, bool) {
			if !noCR(s) || !strings.Contains(s, "\n") {
				return "", false
			}
			return strings.ReplaceAll(s, "\n", "\r"), true
		}},
		{"leading blank lines", func(s string) (string, bool) { return "\n\n" + s, true }},
		{"leading blanks", func(s string) (string, bool) { return "  \t" + s, true }},
		{"trailing blank lines", func(s string) (string, bool) { return s + "\n\n", true }},
		{"trailing blanks", func(s string) (string, bool) { return s + "  \t", true }},
		{"blanks before line ends", func(s string) (string, bool) {
			if !strings.Contains(s, "\n") || !noCR(s) {
				return "", false
			}
			return strings.ReplaceAll(s, "\n", "  \n"), true
		}},
	}
}

func c14Corpus(r *mon.Run, idx int, lit string) {
	base := project{Root: lit}
	d0 := digestOf(base)
	// texts that end inside a token are not padded: appending to them changes the token
	// a final '/' may be the first half of an annotation opener: what follows it is not layout
	endsInsideToken := d0.Code == 303 || strings.HasSuffix(lit, "/")
	if d0.Code != 0 {
		if err := firstError(base); err != nil {
			v, _ := viewError(err)
			if v.Positioned && int(v.Index)+2 >= len(lit) {
				endsInsideToken = true
			}
		}
	}
	for _, tf := range c14Transforms() {
		t, ok := tf.f(lit)
		if !ok {
			continue
		}
		if endsInsideToken && strings.HasPrefix(tf.name, "trailing") {
			continue
		}
		// a text whose last line is a `//` annotation or `#` comment: trailing blanks become part of that line's text (note), which the note comparison ignores; fine
		r.Eval(1)
		d := digestOf(project{Root: t})
		cmpA, cmpB := d0, d
		if d0.Code != 0 || d.Code != 0 {
			// rejected: only the code is compared
			cmpA, cmpB = pdigest{Code: d0.Code, Panic: d0.Panic}, pdigest{Code: d.Code, Panic: d.Panic}
		}
		if clause, what := diffDigest(cmpA, cmpB); clause != "" {
			r.Violate(clause, tf.name+" :: "+mon.Trunc(lit, 200), fmt.Sprintf("corpus text vs its %s transform: %s", tf.name, what), c14Case{TextA: lit, TextB: t})
		}
		r.Nontrivial("corpus", tf.name, lit)
	}
}

func firstError(pt project) error {
	var err error
	mon.Guard(func() {
		s, berr := pt.build()
		if berr != nil {
			err = berr
			return
		}
		err = s.Check()
	})
	return err
}

func c14Run(r *mon.Run) {
	rng := r.Rand("c14")
	one := oneFactorLayouts()
	n := r.Share(r.Pick(12_000, 400_000))
	for i := 0; i < n; i++ {
		exotic := rng.IntN(2) == 0
		var p *gen.Project
		if rng.IntN(4) == 0 {
			p = gen.GenProject(rng, true, exotic) // also rejected ones: the code must not depend on the layout
		} else {
			p = genAccepted(rng, exotic)
		}
		layouts := append([]gen.Layout{}, one...)
		for k := 0; k < 6; k++ {
			layouts = append(layouts, gen.RandLayout(rng))
		}
		c14Model(r, p, layouts)
		r.Nontrivial("model", projectKey(toTexts(p, gen.DefaultLayout)))
		if i == 0 {
			r.Sample(map[string]any{"kind": "model under two layouts", "default": projectKey(toTexts(p, gen.DefaultLayout)), "variant": projectKey(toTexts(p, layouts[len(layouts)-1]))})
		}
	}
	corpus := gen.Corpus(r.Repo)
	for i, lit := range corpus {
		if r.Mine(i) {
			c14Corpus(r, i, lit)
		}
	}
	r.CountMax("max:corpus_literals", int64(len(corpus)))
	// hand-written texts around a second annotation line below an annotated member (the first one is the pinned
	// witness of a recorded finding), under the same transforms
	if r.Shard == 0 {
		for i, lit := range c14SecondAnnotationLine {
			c14Corpus(r, len(corpus)+i, lit)
		}
	}
}

var c14SecondAnnotationLine = []string{
	"{\n\"a\": 1, // {min: 1}\n// note\n\"b\": 2\n}",
	"{\n\"a\": 1, // {min: 1}\n\n// note\n\"b\": 2\n}",
	"{\n\"a\": 1, // x\n// note\n\"b\": 2\n}",
	"{\n\"a\": 1,\n// note\n\"b\": 2\n}",
	"{\n\"a\": 1, // {min: 1} - note\n\"b\": 2\n}",
	"{\n\"a\": 1 // {min: 1}\n// note\n}",
	"{\n\"a\": 1\n// note\n}",
	"[\n1, // {min: 1}\n// note\n2\n]",
	"[\n1 // {min: 1}\n// note\n]",
	"1 // {min: 1}\n// note",
	"1\n// note",
	"{\n\"a\": 1, /* {min: 1} */\n// note\n\"b\": 2\n}",
	"{\n\"a\": 1, // {min: 1}\n/* note */\n\"b\": 2\n}",
}

func init() {
	register(&mon.CheckDef{
		ID:  "C14",
		Run: c14Run,
		Replay: func(r *mon.Run, raw stdjson.RawMessage) {
			var c c14Case
			if stdjson.Unmarshal(raw, &c) != nil {
				return
			}
			if c.Project != nil {
				c14Model(r, c.Project, []gen.Layout{c.B})
				return
			}
			d0, d := digestOf(project{Root: c.TextA}), digestOf(project{Root: c.TextB})
			if d0.Code != 0 || d.Code != 0 {
				d0, d = pdigest{Code: d0.Code}, pdigest{Code: d.Code}
			}
			if clause, what := diffDigest(d0, d); clause != "" {
				r.Violate(clause, "replay", what, c)
			}
		},
		Rule:               "every generated project model (accepted ones and, one in four, possibly rejected ones) is printed under the default layout, under 22 one-factor variations (CRLF, CR, indentation, /* */ annotations single- and multi-line, quoted rule names, tight/airy rule spacing, key-colon spacing, leading/trailing blank lines, # line-end comments, ### block comments, compact containers, blanks before line ends, annotation gap, blank lines between members, blanks around the `|` of a type choice) and under 6 random combinations; every repository test-corpus literal is compared with its LF->CRLF, LF->CR, leading/trailing blank and blank-line transforms. All presentations of one schema must give the same verdict code and, when accepted, the same AST (notes modulo blank runs), example, used-type list and OpenAPI text. distinct_nontrivial = distinct models / (literal, transform) pairs (hashed).",
		MinNontrivialQuick: 10000, MinNontrivialThorough: 200000,
		Assumptions: []string{"error positions and messages are not compared (only the code)", "trailing padding is not applied to texts that end inside a token (code 303 or an error within the last two bytes)",
			"notes avoid '#', '*/' and a leading '{' or '-' (they are syntax, not layout)"},
	})
}
