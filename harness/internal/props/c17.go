package props

import (
	"bytes"
	stdjson "encoding/json"
	"errors"
	"fmt"
	"math/rand/v2"
	"strconv"
	"strings"
	"unicode/utf8"

	"github.com/jsightapi/jsight-schema-core/errs"
	"github.com/jsightapi/jsight-schema-core/notations/jschema"
	"github.com/jsightapi/jsight-schema-core/rules/enum"
	"github.com/jsightapi/jsight-schema-core/verifhook"

	"verifharness/internal/gen"
	"verifharness/internal/mon"
)

// ---- reference recogniser -----------------------------------------------------

// c17Item is one scalar of a list as the reference reads it.
type c17Item struct {
	Lit  string // exact literal text
	Kind string // string | integer | float | boolean | null
	Str  string // decoded value (strings only)
}

const (
	c17Valid  = iota // bracketed, comma-separated, non-empty, distinct scalars, optional annotations, blank tail
	c17Reject        // not such a list
	c17Unspec        // a corner the property and the documented language do not decide
)

// c17Ref is the reference reading of a rule text.
type c17Ref struct {
	Status int
	Why    string
	// Dead: no extension of the text can become valid (an offending byte, or a
	// completed duplicate). Prune: every extension stays unjudged.
	Dead, Prune bool
	Closed      bool
	Items       []c17Item
	Dup         bool
	// DupOnly: a well-formed closed list with a blank tail whose only fault is a repeated entry.
	DupOnly bool
	// EmptyInline: the layout contains a `//` annotation with no text before the line end.
	EmptyInline bool
}

func c17Blank(c byte) bool { return c == ' ' || c == '\t' || c == '\n' || c == '\r' }

func c17Digit(c byte) bool { return '0' <= c && c <= '9' }

func c17Hex(c byte) bool {
	return c17Digit(c) || ('a' <= c && c <= 'f') || ('A' <= c && c <= 'F')
}

// c17Recognise reads a rule text the way the property states it: optional
// blanks, `[`, scalars (RFC 8259 strings, numbers without exponent, true, false,
// null) separated by `,`, `]`, optional blanks; between the brackets blanks,
// `// ...` up to the end of the line and `/* ... */` may stand wherever a blank
// may. Two entries are the same when both are strings with the same decoded
// value or both are non-strings with the same literal text.
func c17Recognise(t []byte) (res c17Ref) {
	n := len(t)
	i := 0
	dupDead := false
	reject := func(why string, dead bool) c17Ref {
		res.Status, res.Why, res.Dead = c17Reject, why, dead || dupDead
		if res.Dup {
			res.Why = "repeated entry; " + why
		}
		return res
	}
	unspec := func(why string, prune bool) c17Ref {
		if res.Dup { // a repeated entry makes the list invalid whatever else is undecided
			return reject(why, true)
		}
		res.Status, res.Why, res.Prune = c17Unspec, why, prune
		return res
	}
	// trivia skips blanks and annotations: 0 ok, 1 text ended inside, 2 offending byte
	trivia := func() int {
		for i < n {
			c := t[i]
			if c17Blank(c) {
				i++
				continue
			}
			if c != '/' {
				return 0
			}
			if i+1 >= n {
				i = n
				return 1
			}
			switch t[i+1] {
			case '/':
				j := i + 2
				text := false
				for j < n && t[j] != '\n' && t[j] != '\r' {
					if t[j] != ' ' && t[j] != '\t' {
						text = true
					}
					j++
				}
				if j >= n {
					i = n
					return 1
				}
				if !text {
					res.EmptyInline = true
				}
				i = j
			case '*':
				k := bytes.Index(t[i+2:], []byte("*/"))
				if k < 0 {
					i = n
					return 1
				}
				i += 2 + k + 2
			default:
				i++
				return 2
			}
		}
		return 0
	}

	for i < n && c17Blank(t[i]) {
		i++
	}
	if i >= n {
		return reject("no opening bracket", false)
	}
	if t[i] == '/' {
		if i+1 >= n {
			return reject("no opening bracket", false)
		}
		if t[i+1] == '/' || t[i+1] == '*' {
			return unspec("annotation before the opening bracket", true)
		}
		return reject("no opening bracket", true)
	}
	if t[i] != '[' {
		return reject("no opening bracket", true)
	}
	i++

	seenStr := map[string]bool{}
	seenLit := map[string]bool{}
	afterComma := false
	for {
		switch trivia() {
		case 1:
			return reject("text ends inside the list", false)
		case 2:
			return reject("stray slash", true)
		}
		if i >= n {
			return reject("text ends inside the list", false)
		}
		if t[i] == ']' && !afterComma {
			i++
			break
		}
		// one scalar
		start := i
		var it c17Item
		switch c := t[i]; {
		case c == '"':
			j := i + 1
			for {
				if j >= n {
					return reject("text ends inside a string", false)
				}
				d := t[j]
				if d == '"' {
					break
				}
				if d < 0x20 {
					return reject("control character in string", true)
				}
				if d != '\\' {
					j++
					continue
				}
				if j+1 >= n {
					return reject("text ends inside a string", false)
				}
				switch t[j+1] {
				case '"', '\\', '/', 'b', 'f', 'n', 'r', 't':
					j += 2
				case 'u':
					for k := 0; k < 4; k++ {
						if j+2+k >= n {
							return reject("text ends inside a string", false)
						}
						if !c17Hex(t[j+2+k]) {
							return reject("bad \\u escape", true)
						}
					}
					j += 6
				default:
					return reject("bad escape", true)
				}
			}
			i = j + 1
			it.Lit, it.Kind = string(t[start:i]), "string"
			if !utf8.Valid(t[start:i]) {
				return unspec("invalid UTF-8 inside a string", false)
			}
			if err := stdjson.Unmarshal(t[start:i], &it.Str); err != nil {
				return unspec("string not decodable by the reference decoder", false)
			}
			if strings.ContainsRune(it.Str, utf8.RuneError) {
				return unspec("unpaired surrogate escape or U+FFFD in a string", false)
			}
		case c == '-' || c17Digit(c):
			j := i
			if t[j] == '-' {
				j++
				if j >= n {
					return reject("text ends inside a number", false)
				}
			}
			switch {
			case t[j] == '0':
				j++
			case '1' <= t[j] && t[j] <= '9':
				for j < n && c17Digit(t[j]) {
					j++
				}
			default:
				return reject("bad number", true)
			}
			it.Kind = "integer"
			if j < n && t[j] == '.' {
				j++
				if j >= n {
					return reject("text ends inside a number", false)
				}
				if !c17Digit(t[j]) {
					return reject("bad number", true)
				}
				for j < n && c17Digit(t[j]) {
					j++
				}
				it.Kind = "float"
			}
			if j < n && (t[j] == 'e' || t[j] == 'E') {
				return reject("exponent number", true)
			}
			i = j
			it.Lit = string(t[start:i])
		case c == 't' || c == 'f' || c == 'n':
			w := map[byte]string{'t': "true", 'f': "false", 'n': "null"}[c]
			for k := 0; k < len(w); k++ {
				if i+k >= n {
					return reject("text ends inside a literal", false)
				}
				if t[i+k] != w[k] {
					return reject("bad literal", true)
				}
			}
			i += len(w)
			it.Lit, it.Kind = w, "boolean"
			if c == 'n' {
				it.Kind = "null"
			}
		default:
			return reject("scalar expected", true)
		}
		same := false
		if it.Kind == "string" {
			same = seenStr[it.Str]
			seenStr[it.Str] = true
		} else {
			same = seenLit[it.Lit]
			seenLit[it.Lit] = true
		}
		if same && !res.Dup {
			res.Dup = true
			dupDead = i < n // a number at the very end could still grow into a different one
		}
		res.Items = append(res.Items, it)
		afterComma = false
		switch trivia() {
		case 1:
			return reject("text ends inside the list", false)
		case 2:
			return reject("stray slash", true)
		}
		if i >= n {
			return reject("text ends inside the list", false)
		}
		if t[i] == ',' {
			i++
			afterComma = true
			continue
		}
		if t[i] == ']' {
			i++
			break
		}
		return reject("comma or closing bracket expected", true)
	}
	res.Closed = true
	tailBlank := true
	for _, c := range t[i:] {
		if !c17Blank(c) {
			tailBlank = false
		}
	}
	if res.Dup {
		res.DupOnly = tailBlank
		return reject("closed list", true)
	}
	if len(res.Items) == 0 {
		return unspec("empty list", true)
	}
	if !tailBlank {
		return unspec("text after the closing bracket", true)
	}
	res.Status = c17Valid
	return res
}

// ---- library side -------------------------------------------------------------

type c17Case struct {
	Text string `json:"text"`
	Ex   string `json:"ex,omitempty"`
	// Dup marks the inline half of a repeated-entry case.
	Dup bool `json:"dup,omitempty"`
}

const c17Reps = 8

// c17JudgeEmptyInline: a `//` annotation with no text before the line end is
// read as an (empty) annotation ending at that line end, as the schema scanner
// reads it (`1 /* {enum: [1, //\n 2]} */` is accepted). Set to false to leave
// such layouts unjudged.
const c17JudgeEmptyInline = true

func c17Code(err error) string {
	if err == nil {
		return "ok"
	}
	var a interface{ ErrCode() int }
	if errors.As(err, &a) {
		return strconv.Itoa(a.ErrCode())
	}
	var b errs.CodeKeeper
	if errors.As(err, &b) {
		return strconv.Itoa(int(b.Code()))
	}
	s := err.Error()
	if k := strings.Index(s, "(code "); k >= 0 {
		if e := strings.IndexByte(s[k:], ')'); e > 0 {
			return s[k+6 : k+e]
		}
	}
	return "uncoded"
}

func c17Render(vs []enum.Value) string {
	var sb strings.Builder
	for _, v := range vs {
		fmt.Fprintf(&sb, "%q:%s:%q ", v.Value.String(), v.Type, v.Comment)
	}
	return sb.String()
}

// c17Rule judges one rule text: panic, accept, values, values-deterministic.
// exs selects the example values for the inline comparison (nil: none).
func c17Rule(r *mon.Run, text string, exs func(items []c17Item) []string) (ref c17Ref, accepted bool) {
	r.Eval(1)
	cs := c17Case{Text: text}
	ref = c17Recognise([]byte(text))
	var err error
	var vals []enum.Value
	if p := mon.Guard(func() {
		e := enum.New("@e", text)
		err = e.Check()
		if err == nil {
			var verr error
			vals, verr = e.Values()
			if verr != nil {
				err = verr
			}
		}
	}); p != nil {
		r.Violate("panic", "Enum.Check/"+p.Site, fmt.Sprintf("enum.New(%q).Check()/Values() panicked: %s", mon.Trunc(text, 120), p.Value), cs)
		return ref, false
	}
	accepted = err == nil
	if ref.Status == c17Unspec {
		r.Count("not_judged:"+ref.Why, 1)
		return ref, accepted
	}
	if ref.EmptyInline && !c17JudgeEmptyInline {
		r.Count("not_judged:// annotation without text", 1)
		return ref, accepted
	}
	if accepted != (ref.Status == c17Valid) {
		why := ref.Why
		if ref.Status == c17Valid {
			why = "a list of distinct scalars"
			if ref.EmptyInline {
				why += " (layout has a // annotation without text)"
			}
		}
		r.Violate("accept", text, fmt.Sprintf("enum rule %q: Check() accepted=%v (%v); reference recogniser says %v: %s", mon.Trunc(text, 160), accepted, c17ErrLine(err), ref.Status == c17Valid, why), cs)
		return ref, accepted
	}
	if !accepted {
		if ref.DupOnly && exs != nil {
			c17InlineDup(r, text, ref.Items)
		}
		return ref, false
	}
	// values in order with kinds
	var got, want strings.Builder
	for _, v := range vals {
		if string(v.Type) == "comment" {
			continue
		}
		fmt.Fprintf(&got, "%s:%s ", v.Value.String(), v.Type)
	}
	for _, it := range ref.Items {
		fmt.Fprintf(&want, "%s:%s ", it.Lit, it.Kind)
	}
	if got.String() != want.String() {
		note := ""
		if ref.EmptyInline {
			note = " (layout has a // annotation without text)"
		}
		r.Violate("values", text, fmt.Sprintf("enum rule %q: Values() without comment-only entries = [%s]; the list holds [%s]%s", mon.Trunc(text, 160), mon.Trunc(got.String(), 200), mon.Trunc(want.String(), 200), note), cs)
		return ref, true
	}
	// repeated execution on fresh objects
	first := c17Render(vals)
	for k := 1; k < c17Reps; k++ {
		var again string
		var aerr error
		if p := mon.Guard(func() {
			vs, e := enum.New("@e", text).Values()
			again, aerr = c17Render(vs), e
		}); p != nil {
			r.Violate("panic", "Enum.Values/"+p.Site, fmt.Sprintf("enum.New(%q).Values() panicked on repetition %d: %s", mon.Trunc(text, 120), k, p.Value), cs)
			return ref, true
		}
		if aerr != nil || again != first {
			r.Violate("values-deterministic", text, fmt.Sprintf("enum rule %q: Values() gave [%s] and on a fresh object [%s] (err %v)", mon.Trunc(text, 160), mon.Trunc(first, 200), mon.Trunc(again, 200), aerr), cs)
			return ref, true
		}
	}
	if exs != nil {
		for _, ex := range exs(ref.Items) {
			c17Inline(r, text, ref.Items, ex)
		}
	}
	return ref, true
}

func c17ErrLine(err error) string {
	if err == nil {
		return "no error"
	}
	s := err.Error()
	if k := strings.IndexByte(s, '\n'); k >= 0 {
		s = s[:k]
	}
	return mon.Trunc(s, 160)
}

func c17InlineList(items []c17Item) string {
	lits := make([]string, len(items))
	for i, it := range items {
		lits[i] = it.Lit
	}
	return "[" + strings.Join(lits, ", ") + "]"
}

type c17Verdict struct {
	code    string
	err     string
	example string
	exErr   string
	pan     *mon.Panic
}

// c17Schema compiles `<ex> // {enum: <value>}`, with the rule registered when
// ruleText is non-nil.
// c17Host writes the example with an annotation holding the enum rule in one of
// the ways an annotation can be laid out (the same way for the named and the
// inline spelling of a pair).
func c17Host(ex, value string, form int) string {
	switch form % 6 {
	case 1:
		return ex + " /* {enum: " + value + "} */"
	case 2:
		return ex + " /* {\n  enum: " + value + "\n} */"
	case 3:
		return ex + " /* {enum: " + value + ",\n nullable: false\n} */"
	case 4:
		return ex + " // {nullable: false, enum: " + value + "}"
	case 5:
		return ex + " /*\n{\n  \"enum\": " + value + " ,\n  nullable: false\n}\n*/"
	}
	return ex + " // {enum: " + value + "}"
}

func c17Schema(ex, value string, ruleText *string, form int) (v c17Verdict) {
	v.pan = mon.Guard(func() {
		s := jschema.New("root", c17Host(ex, value, form))
		if ruleText != nil {
			if err := s.AddRule("@e", enum.New("@e", *ruleText)); err != nil {
				v.code, v.err = "addrule:"+c17Code(err), c17ErrLine(err)
				return
			}
		}
		err := s.Check()
		v.code, v.err = c17Code(err), c17ErrLine(err)
		if err != nil {
			return
		}
		b, eerr := s.Example()
		v.example = string(b) // copied at once: the buffer is recycled by later calls
		if eerr != nil {
			v.exErr = c17ErrLine(eerr)
		}
	})
	return v
}

// c17Inline compares `<ex> // {enum: @e}` (+ rule) with `<ex> // {enum: [list]}`.
func c17Inline(r *mon.Run, text string, items []c17Item, ex string) {
	r.Eval(1)
	cs := c17Case{Text: text, Ex: ex}
	key := text + " | example " + ex
	list := c17InlineList(items)
	form := len(ex) + len(text)
	named := c17Schema(ex, "@e", &text, form)
	inline := c17Schema(ex, list, nil, form)
	if named.pan != nil {
		r.Violate("panic", "named-schema/"+named.pan.Site, fmt.Sprintf("schema `%s // {enum: @e}` with rule %q panicked: %s", ex, mon.Trunc(text, 120), named.pan.Value), cs)
		return
	}
	if inline.pan != nil {
		r.Violate("panic", "inline-schema/"+inline.pan.Site, fmt.Sprintf("schema `%s // {enum: %s}` panicked: %s", ex, mon.Trunc(list, 120), inline.pan.Value), cs)
		return
	}
	r.Nontrivial("i", list, ex)
	if named.code == "ok" {
		r.Count("inline_pairs_both_accept", 1)
	}
	if named.code != inline.code {
		r.Violate("inline-verdict", key, fmt.Sprintf("example %s against rule %q: `enum: @e` gives %s (%s); the same list inline `enum: %s` gives %s (%s)",
			ex, mon.Trunc(text, 120), named.code, named.err, mon.Trunc(list, 120), inline.code, inline.err), cs)
		return
	}
	if named.code != "ok" {
		return
	}
	c17SharedRule(r, text, items, ex)
	if named.example != inline.example || named.exErr != inline.exErr {
		r.Violate("inline-example", key, fmt.Sprintf("example %s against rule %q: Example() with `enum: @e` = %q (err %q); with the list inline = %q (err %q)",
			ex, mon.Trunc(text, 120), named.example, named.exErr, inline.example, inline.exErr), cs)
	}
}

// c17SharedRule uses ONE rule object the way a project does: two members of one schema name it, then a second
// schema gets the same object. Verdicts must equal those of the inline spelling, and Values() of the rule must
// be the same before and after (a loader that edits the rule's memoised values in place shows here only).
func c17SharedRule(r *mon.Run, text string, items []c17Item, ex string) {
	r.Eval(1)
	cs := c17Case{Text: text, Ex: ex}
	key := text + " | example " + ex + " | shared rule object"
	list := c17InlineList(items)
	two := func(v string) string {
		return "{\n  \"a\": " + ex + ", // {enum: " + v + "}\n  \"b\": " + ex + " // {enum: " + v + "}\n}"
	}
	var before, after, code1, code2 string
	var verr error
	if p := mon.Guard(func() {
		rule := enum.New("@e", text)
		vs, err := rule.Values()
		before, verr = c17Render(vs), err
		s1 := jschema.New("root", two("@e"))
		if err := s1.AddRule("@e", rule); err != nil {
			code1 = "addrule:" + c17Code(err)
		} else {
			code1 = c17Code(s1.Check())
		}
		s2 := jschema.New("root", ex+" // {enum: @e}")
		if err := s2.AddRule("@e", rule); err != nil {
			code2 = "addrule:" + c17Code(err)
		} else {
			code2 = c17Code(s2.Check())
		}
		vs, _ = rule.Values()
		after = c17Render(vs)
	}); p != nil {
		r.Violate("panic", "shared-rule/"+p.Site, fmt.Sprintf("using one rule object %q in two schemas panicked: %s", mon.Trunc(text, 120), p.Value), cs)
		return
	}
	if verr != nil {
		return
	}
	if before != after {
		r.Violate("values-stable", key, fmt.Sprintf("Values() of rule %q was %s before two schemas used the rule object and %s afterwards", mon.Trunc(text, 120), mon.Trunc(before, 160), mon.Trunc(after, 160)), cs)
		return
	}
	var in1, in2 string
	if p := mon.Guard(func() {
		in1 = c17Code(jschema.New("root", two(list)).Check())
		in2 = c17Code(jschema.New("root", ex+" // {enum: "+list+"}").Check())
	}); p != nil {
		return
	}
	if code1 != in1 || code2 != in2 {
		r.Violate("inline-verdict", key, fmt.Sprintf("one rule object named by two members and then by a second schema gives %s / %s; the same lists inline give %s / %s (rule %q, example %s)", code1, code2, in1, in2, mon.Trunc(text, 120), ex), cs)
	}
}

// c17InlineDup: the rule file was (rightly) refused for a repeated entry, so a
// schema naming it cannot be accepted; the same list inline must be refused too.
func c17InlineDup(r *mon.Run, text string, items []c17Item) {
	r.Eval(1)
	ex := items[0].Lit
	list := c17InlineList(items)
	inline := c17Schema(ex, list, nil, 0)
	cs := c17Case{Text: text, Ex: ex, Dup: true}
	if inline.pan != nil {
		r.Violate("panic", "inline-schema/"+inline.pan.Site, fmt.Sprintf("schema `%s // {enum: %s}` panicked: %s", ex, mon.Trunc(list, 120), inline.pan.Value), cs)
		return
	}
	r.Nontrivial("d", list)
	if inline.code == "ok" {
		r.Violate("inline-verdict", text+" | example "+ex, fmt.Sprintf("rule %q is refused for a repeated entry, but the same list inline `%s // {enum: %s}` is accepted", mon.Trunc(text, 120), ex, mon.Trunc(list, 120)), cs)
	}
}

// ---- example values -------------------------------------------------------------

func c17EscapeAll(s string) string {
	var sb strings.Builder
	sb.WriteByte('"')
	for _, ru := range s {
		if ru > 0xFFFF {
			ru -= 0x10000
			fmt.Fprintf(&sb, `\u%04x\u%04x`, 0xD800+(ru>>10), 0xDC00+(ru&0x3FF))
		} else {
			fmt.Fprintf(&sb, `\u%04x`, ru)
		}
	}
	sb.WriteByte('"')
	return sb.String()
}

func c17Quote(s string) string {
	var sb strings.Builder
	enc := stdjson.NewEncoder(&sb)
	enc.SetEscapeHTML(false)
	enc.Encode(s)
	return strings.TrimSuffix(sb.String(), "\n")
}

// c17Examples lists the entries themselves and their near-misses.
func c17Examples(items []c17Item) []string {
	var out []string
	seen := map[string]bool{}
	add := func(s string) {
		if !seen[s] {
			seen[s] = true
			out = append(out, s)
		}
	}
	for _, it := range items {
		add(it.Lit)
		switch it.Kind {
		case "string":
			add(c17Quote(it.Str))
			if it.Str != "" {
				add(c17EscapeAll(it.Str))
			}
			if sub := c17Recognise([]byte("[" + it.Str + "]")); sub.Status == c17Valid && len(sub.Items) == 1 && sub.Items[0].Kind != "string" && sub.Items[0].Lit == it.Str {
				add(it.Str) // "1" -> 1, "true" -> true
			}
			add(c17Quote(it.Str + "x"))
		case "integer":
			add(`"` + it.Lit + `"`)
			add(it.Lit + ".0")
			add(it.Lit + "e0")
			add(it.Lit + "0")
		case "float":
			add(`"` + it.Lit + `"`)
			add(it.Lit + "0")
			if k := strings.IndexByte(it.Lit, '.'); k > 0 && strings.Trim(it.Lit[k+1:], "0") == "" {
				add(it.Lit[:k])
			}
		case "boolean":
			add(`"` + it.Lit + `"`)
			if it.Lit == "true" {
				add("false")
			} else {
				add("true")
			}
		case "null":
			add(`"null"`)
			add("0")
			add(`""`)
		}
	}
	add(`"__none__"`)
	add("12345")
	return out
}

func c17AllExamples(items []c17Item) []string { return c17Examples(items) }

func c17SomeExamples(rng *rand.Rand, k int) func(items []c17Item) []string {
	return func(items []c17Item) []string {
		all := c17Examples(items)
		if len(all) <= k {
			return all
		}
		out := make([]string, 0, k)
		for _, j := range rng.Perm(len(all))[:k] {
			out = append(out, all[j])
		}
		return out
	}
}

// ---- generators -----------------------------------------------------------------

var c17Alpha = []string{"[", "]", ",", `"a"`, `"a.b"`, `"1"`, "1", "1.0", "-1", "true", "null", `"\u0061"`, "// c", "/* c */", "x", "\n", " "}

var c17StrAtoms = []string{"a", "b", "A", "1", "0", "5", ".", "-", "e", "E", " ", "é", "😀", `\u0061`, `\u00e9`, `\ud83d\ude00`, `\u0041`,
	`\"`, `\\`, `\/`, "/", "//", "/*", "*/", "]", "[", ",", "#", `\n`, `\t`, "true", "null", "1.5", "1e5", "{", "}", ":", "@e"}

var c17BadItems = []string{"1e5", "1E2", "1.5e-3", ".5", "01", "+1", "1.", "-", "tru", "nul", "True", "'a'", "{}", "[]", "@e", `"a`, `"\x"`, `"\u12"`, "a", "1 2", `"a" "b"`, "#c", "-a", "0x1", "NaN"}

var c17Comments = []string{"c", "Comment for 1", "*", "/", "//", "// nested", "/* nested", `"a"`, "]", ",", "[", "1, 2", "é", "{enum: 1}", "# c", "c *", "**", "x // y", "- item", `"`, "@e"}

func c17GenNumber(rng *rand.Rand) string {
	var sb strings.Builder
	if rng.IntN(4) == 0 {
		sb.WriteByte('-')
	}
	switch rng.IntN(5) {
	case 0:
		sb.WriteByte('0')
	case 1:
		sb.WriteString([]string{"1", "2", "10", "42"}[rng.IntN(4)])
	default:
		sb.WriteByte(byte('1' + rng.IntN(9)))
		for k := rng.IntN(4); k > 0; k-- {
			sb.WriteByte(byte('0' + rng.IntN(10)))
		}
		if rng.IntN(12) == 0 {
			sb.WriteString("23456789012345678901234567890")
		}
	}
	if rng.IntN(3) == 0 {
		sb.WriteByte('.')
		switch rng.IntN(3) {
		case 0:
			sb.WriteString("0")
		case 1:
			sb.WriteString([]string{"5", "50", "00", "14"}[rng.IntN(4)])
		default:
			for k := 1 + rng.IntN(4); k > 0; k-- {
				sb.WriteByte(byte('0' + rng.IntN(10)))
			}
		}
	}
	return sb.String()
}

func c17GenString(rng *rand.Rand) string {
	var sb strings.Builder
	sb.WriteByte('"')
	switch rng.IntN(6) {
	case 0: // looks like a number
		sb.WriteString(c17GenNumber(rng))
	case 1: // contains dots
		sb.WriteString([]string{"a.b", "a.b.c", ".", "1.5", "v1.0", "e.g.", "1.e", "-.5"}[rng.IntN(8)])
	default:
		for k := rng.IntN(4); k > 0; k-- {
			sb.WriteString(c17StrAtoms[rng.IntN(len(c17StrAtoms))])
		}
	}
	sb.WriteByte('"')
	return sb.String()
}

// c17Respell writes the same decoded string with other escapes.
func c17Respell(rng *rand.Rand, decoded string) string {
	var sb strings.Builder
	sb.WriteByte('"')
	for _, ru := range decoded {
		switch {
		case ru == '"' || ru == '\\':
			if rng.IntN(2) == 0 {
				sb.WriteByte('\\')
				sb.WriteRune(ru)
			} else {
				fmt.Fprintf(&sb, `\u%04x`, ru)
			}
		case ru < 0x20:
			fmt.Fprintf(&sb, `\u%04x`, ru)
		case ru == '/' && rng.IntN(2) == 0:
			sb.WriteString(`\/`)
		case ru > 0xFFFF:
			if rng.IntN(2) == 0 {
				sb.WriteRune(ru)
			} else {
				v := ru - 0x10000
				fmt.Fprintf(&sb, `\u%04x\u%04x`, 0xD800+(v>>10), 0xDC00+(v&0x3FF))
			}
		case rng.IntN(2) == 0:
			if rng.IntN(2) == 0 {
				fmt.Fprintf(&sb, `\u%04x`, ru)
			} else {
				fmt.Fprintf(&sb, `\u%04X`, ru)
			}
		default:
			sb.WriteRune(ru)
		}
	}
	sb.WriteByte('"')
	return sb.String()
}

func c17GenItems(rng *rand.Rand, bad bool) []string {
	n := 1 + rng.IntN(6)
	repeatOneIn := 5
	if rng.IntN(25) == 0 { // a long list, around the usual size thresholds; repetitions rarer so that many stay valid
		n = []int{8, 9, 16, 17, 32, 33, 64, 65, 128, 129, 256, 257}[rng.IntN(12)]
		repeatOneIn = 3 * n
	}
	items := make([]string, 0, n)
	for i := 0; i < n; i++ {
		if i > 0 && rng.IntN(repeatOneIn) == 0 {
			prev := items[rng.IntN(len(items))]
			switch rng.IntN(4) {
			case 0: // exact repetition
				items = append(items, prev)
				continue
			case 1: // same string, other spelling
				var s string
				if prev[0] == '"' && stdjson.Unmarshal([]byte(prev), &s) == nil && utf8.ValidString(s) && !strings.ContainsRune(s, utf8.RuneError) {
					items = append(items, c17Respell(rng, s))
					continue
				}
			case 2: // equal in value, different in text
				if c17Digit(prev[len(prev)-1]) && prev[0] != '"' {
					if strings.Contains(prev, ".") {
						items = append(items, prev+"0")
					} else {
						items = append(items, prev+".0")
					}
					continue
				}
			default: // quoted <-> bare
				if prev[0] == '"' {
					var s string
					if stdjson.Unmarshal([]byte(prev), &s) == nil {
						if sub := c17Recognise([]byte("[" + s + "]")); sub.Status == c17Valid && len(sub.Items) == 1 {
							items = append(items, s)
							continue
						}
					}
				} else {
					items = append(items, `"`+prev+`"`)
					continue
				}
			}
		}
		switch k := rng.IntN(20); {
		case bad && k == 0:
			items = append(items, c17BadItems[rng.IntN(len(c17BadItems))])
		case k < 10:
			items = append(items, c17GenString(rng))
		case k < 16:
			items = append(items, c17GenNumber(rng))
		case k < 18:
			items = append(items, []string{"true", "false"}[rng.IntN(2)])
		default:
			items = append(items, "null")
		}
	}
	return items
}

// c17Layout writes the items as a rule text. emptyInline allows `//` annotations
// without text.
func c17Layout(rng *rand.Rand, items []string, emptyInline bool) string {
	nl := "\n"
	if rng.IntN(6) == 0 {
		nl = "\r\n"
	}
	style := rng.IntN(4)                       // 0 compact, 1 comma+space, 2 one per line, 3 random blanks
	pc := []int{0, 0, 15, 40, 70}[rng.IntN(5)] // per-gap annotation probability (%)
	indent := []string{"", "  ", "\t", "    "}[rng.IntN(4)]
	var sb strings.Builder
	blanks := func() {
		switch style {
		case 3:
			for k := rng.IntN(3); k > 0; k-- {
				sb.WriteString([]string{" ", "\t", nl, " "}[rng.IntN(4)])
			}
		}
	}
	annot := func() {
		for rng.IntN(100) < pc {
			txt := c17Comments[rng.IntN(len(c17Comments))]
			if rng.IntN(2) == 0 {
				// inline annotation: runs to the end of the line
				if emptyInline && rng.IntN(2) == 0 {
					txt = []string{"", " ", "\t"}[rng.IntN(3)]
				} else if rng.IntN(3) > 0 {
					txt = " " + txt
				}
				sb.WriteString(" //" + txt + nl + indent)
			} else {
				txt = strings.ReplaceAll(txt, "*/", "* /")
				switch rng.IntN(4) {
				case 0:
					sb.WriteString("/*" + txt + "*/")
				case 1:
					sb.WriteString(" /* " + txt + " */ ")
				case 2:
					sb.WriteString("/* " + txt + nl + indent + "   " + txt + " */" + nl + indent)
				default:
					sb.WriteString("/*" + nl + txt + nl + "*/")
				}
			}
			if rng.IntN(3) > 0 {
				break
			}
		}
	}
	if rng.IntN(4) == 0 {
		sb.WriteString([]string{" ", nl, "\t", "  " + nl}[rng.IntN(4)])
	}
	sb.WriteByte('[')
	if style == 2 {
		sb.WriteString(nl + indent)
	}
	blanks()
	annot()
	for i, it := range items {
		if i > 0 {
			sb.WriteByte(',')
			switch style {
			case 1:
				sb.WriteByte(' ')
			case 2:
				if rng.IntN(3) > 0 {
					// annotation for the previous item on its own line end
					if rng.IntN(100) < pc {
						txt := c17Comments[rng.IntN(len(c17Comments))]
						if emptyInline && rng.IntN(3) == 0 {
							sb.WriteString(" //")
						} else {
							sb.WriteString(" // " + txt)
						}
					}
				}
				sb.WriteString(nl + indent)
				if rng.IntN(8) == 0 {
					sb.WriteString(nl + indent)
				}
			}
			blanks()
			annot()
		}
		sb.WriteString(it)
		blanks()
		annot()
	}
	if style == 2 {
		sb.WriteString(nl)
	}
	sb.WriteByte(']')
	if rng.IntN(4) == 0 {
		sb.WriteString([]string{" ", nl, "\t", nl + nl}[rng.IntN(4)])
	}
	return sb.String()
}

var c17Tails = []string{" // c", " // c\n", " /* c */", " /* c *", "/*", " /", " x", "]", ",", " []", "\n# c", " /* c", "/* * */ *"}

var c17MutAlpha = []byte("[],\"\\/ *01.-etrufalsn \n\r\t#xE")

// ---- the run ----------------------------------------------------------------------

func c17Run(r *mon.Run) {
	// fixed layouts named by the documentation of the enum package's own tests, plus the corners found by probing
	if r.Shard == 0 {
		for _, t := range []string{"", "[]", "[1]", `["a", "\u0061"]`, `["a", "\\u0061"]`, "[1, 1.0]", `[1, "1"]`, `["a.b", "1.0", 1.0]`,
			"[\n\t// Interline comment 1\n\t1, // Comment for 1\n\t2, // Comment for 2\n\n\t// Interline comment 2\n\t3, // Comment for 3\n\t4  // Comment for 4\n]",
			"[\n\t\t/* My\n\t\t   Pets */\n\t\t\"CAT\", /* My\n\t\t          Cat */\n\t\t\"DOG\", // Dog\n\t\t\"PIG\" // Pig\n]",
			"[1 /* c *", "[1] /* c *", "[1, /* c *", "[/* *", "[1 /*", "[1 /", "[1 //", "[1, //\n2]", "[1 //\n, 2]", "[1, // \n2]", "[1, /**/ 2]", "[1, /***/ 2]", "[1, /*/ 2]"} {
			c17Rule(r, t, c17AllExamples)
			r.Nontrivial("x", t)
		}
	}
	// (1) exhaustive token strings
	verifhook.SetScanProbes(true)
	L := r.Pick(6, 8)
	inlineSeen := map[string]uint8{}
	var pruned, unjudged int64
	k := 0
	gen.TokensSharded(c17Alpha, L, r.Shard, mon.LogicalShards, func(s []byte, n int) bool {
		if n == 1 && r.Shard != 0 {
			// visited in every shard for pruning only: decide with the reference alone
			ref := c17Recognise(s)
			return !(ref.Dead || ref.Prune)
		}
		text := string(s)
		ref, accepted := c17Rule(r, text, func(items []c17Item) []string {
			sig := c17InlineList(items)
			if inlineSeen[sig] >= 4 { // the inline comparison is repeated for 4 layouts of each list
				return nil
			}
			inlineSeen[sig]++
			return c17Examples(items)
		})
		r.Nontrivial("x", text)
		k++
		if k%20011 == 0 {
			r.Sample(map[string]any{"kind": "exhaustive token string", "text": text, "reference": []string{"valid", "rejected", "not judged"}[ref.Status]})
		}
		if ref.Prune {
			unjudged++
			return false
		}
		if ref.Dead && !accepted {
			pruned++
			return false
		}
		return true
	})
	verifhook.SetScanProbes(false)
	r.Count("exhaustive_prefixes_pruned_as_dead_in_both", pruned)
	r.Count("exhaustive_prefixes_not_extended_because_unjudged", unjudged)
	r.CountMax("max:exhaustive_tokens", int64(L))
	for name, cnt := range verifhook.ScanPairs()[verifhook.KindEnum] {
		r.Count("pair:enum:"+shortState(name), cnt)
	}
	r.Count("scanner_steps_enum", verifhook.ScanSteps[verifhook.KindEnum].Load())
	if o := verifhook.ScanOverrun.Load(); o > 0 {
		r.Violate("scan-overrun", "enum scanner", fmt.Sprintf("scanner index ran beyond size+1 %d times", o), nil)
	}

	// (2) generated lists in all layouts x example values
	rng := r.Rand("c17")
	n := r.Share(r.Pick(50_000, 2_000_000))
	some := c17SomeExamples(rng, 3)
	var valid int64
	for i := 0; i < n; i++ {
		items := c17GenItems(rng, true)
		text := c17Layout(rng, items, false)
		if rng.IntN(12) == 0 {
			text = string(mutateBytes(rng, []byte(text), c17MutAlpha))
		}
		ref, _ := c17Rule(r, text, some)
		r.Nontrivial("g", text)
		if ref.Status == c17Valid {
			valid++
		}
		if i < 2 {
			r.Sample(map[string]any{"kind": "generated list", "text": text, "reference": []string{"valid", "rejected", "not judged"}[ref.Status]})
		}
	}
	r.Count("generated_lists_valid_per_reference", valid)

	// (3) layout corners kept apart so that their witnesses do not displace others:
	// `//` annotations without text, text after the closing bracket, cut-off texts
	m := r.Share(r.Pick(5_000, 200_000))
	for i := 0; i < m; i++ {
		items := c17GenItems(rng, false)
		var text string
		switch rng.IntN(3) {
		case 0:
			text = c17Layout(rng, items, true)
		case 1:
			text = c17Layout(rng, items, false) + c17Tails[rng.IntN(len(c17Tails))]
		default:
			text = c17Layout(rng, items, rng.IntN(2) == 0)
			text = text[:rng.IntN(len(text)+1)]
			if rng.IntN(3) == 0 {
				text += []string{"/* c *", "/*", "/", "*", "// c", `"`, `\`}[rng.IntN(7)]
			}
		}
		c17Rule(r, text, some)
		r.Nontrivial("g", text)
	}
}

func init() {
	register(&mon.CheckDef{
		ID:  "C17",
		Run: c17Run,
		Replay: func(r *mon.Run, raw stdjson.RawMessage) {
			var c c17Case
			stdjson.Unmarshal(raw, &c)
			ref := c17Recognise([]byte(c.Text))
			switch {
			case c.Dup:
				c17InlineDup(r, c.Text, ref.Items)
			case c.Ex != "":
				c17Inline(r, c.Text, ref.Items, c.Ex)
			default:
				c17Rule(r, c.Text, c17AllExamples)
			}
		},
		Rule:               "every concatenation of up to 6 (quick) / 8 (thorough) tokens from {[ ] , \"a\" \"a.b\" \"1\" 1 1.0 -1 true null \"\\u0061\" `// c` `/* c */` x LF blank}, pruned only below prefixes that the reference finds dead (offending byte or completed repetition) and the library rejects, or that stay unjudged; plus generated lists of 1-6 (one in 25: 8-257) scalars (strings that look like numbers or contain dots, escape-respelled and exact repetitions, value-equal numbers, quoted/bare twins, malformed items) in compact / spaced / one-per-line / random-blank layouts with LF or CRLF, `//` and `/* */` annotations in every gap, byte mutations, cut-off texts and tails. Each text: enum.New(text).Check() vs the reference recogniser; Values() without comment-only entries vs the scalars in order with their kind; 8 fresh Values() computations identical; for valid lists `<ex> // {enum: @e}` + AddRule vs `<ex> // {enum: [list]}` on entries and near-misses (other escapes, 1 / 1.0 / \"1\" / 1e0, true / \"true\"): same error code, same Example(). distinct_nontrivial = distinct rule texts and distinct (list, example) pairs (hashed).",
		MinNontrivialQuick: 100000, MinNontrivialThorough: 1000000,
		Assumptions: []string{
			"the reference recogniser (about 200 lines, RFC 8259 scalars without exponent; encoding/json decodes strings for the sameness test) is the reading of the property text",
			"annotations may stand wherever a blank may between the brackets; a `//` annotation ends at LF or CR and may be empty",
			"not judged: the empty list, any non-blank text after the closing bracket, an annotation before the opening bracket, invalid UTF-8 or unpaired surrogate escapes inside strings, numbers equal in value but not in text",
			"the inline form is the list's literals joined by comma and blank; the annotation that holds `enum: @e` / `enum: [...]` is laid out in one of six ways (//, /* */ on one line, the rule on a line of its own, followed by a line break and another rule, after another rule, quoted name), the same way for both spellings of a pair",
			"a map-order dependence with two outcomes escapes 8 repetitions with probability 2^-7 per text"},
		Exhaustive: "all token strings up to the stated length over the 17-token alphabet (modulo pruning of dead or permanently unjudged prefixes)",
		Finalize:   foldScanPairs,
	})
}
