package props

import (
	stdjson "encoding/json"
	"errors"
	"fmt"
	"io"
	"os"
	"path/filepath"
	"regexp"
	"runtime"
	"strconv"
	"strings"

	schema "github.com/jsightapi/jsight-schema-core"
	cbytes "github.com/jsightapi/jsight-schema-core/bytes"
	"github.com/jsightapi/jsight-schema-core/errs"
	jdoc "github.com/jsightapi/jsight-schema-core/formats/json"
	"github.com/jsightapi/jsight-schema-core/fs"
	ljson "github.com/jsightapi/jsight-schema-core/json"
	"github.com/jsightapi/jsight-schema-core/kit"
	"github.com/jsightapi/jsight-schema-core/notations/jschema"
	"github.com/jsightapi/jsight-schema-core/notations/regex"
	"github.com/jsightapi/jsight-schema-core/openapi"
	"github.com/jsightapi/jsight-schema-core/rules/enum"
	"github.com/jsightapi/jsight-schema-core/verifhook"

	"verifharness/internal/mon"
)

// A project is a root schema text plus named user types and named enum rules.
type typeDef struct {
	Name  string `json:"name"`
	Text  string `json:"text"`
	Regex bool   `json:"regex,omitempty"`
}

type project struct {
	Root  string    `json:"root"`
	Types []typeDef `json:"types,omitempty"`
	Rules []typeDef `json:"rules,omitempty"` // enum rules: name, text
	// OptDefault: every schema object is created with AreKeysOptionalByDefault (a property is required only when it
	// says optional: false)
	OptDefault bool `json:"opt_default,omitempty"`
	// OneName: every text of the project (root, types, rules) is created under this one file name (which may be
	// empty), as a caller does that has no names for its texts
	OneName    string `json:"one_name,omitempty"`
	UseOneName bool   `json:"use_one_name,omitempty"`
	// OwnTables: the table of every type holds objects of its own for the other types (made from the same texts)
	// instead of the objects registered in the root: what a name means is the same everywhere, the objects differ
	OwnTables bool `json:"own_tables,omitempty"`
	// PartialTables: the table of every type lacks every second other type (those are found on the root only)
	PartialTables bool `json:"partial_tables,omitempty"`
}

// fileName is the file name an object of the project is created under.
func (p project) fileName(own string) string {
	if p.UseOneName {
		return p.OneName
	}
	return own
}

// build creates fresh schema objects for a project and registers rules and
// types in the given order. Errors of AddRule/AddType are returned, not hidden.
// The objects of a project are created through every public constructor in turn (New with a string, New with a
// byte slice, FromFile over fs.NewFile, New with bytes.Bytes): which one is a function of the text, so that a case
// always builds the same way.
// exactBytes is a private copy of the text without spare capacity behind it: a
// library step that reslices beyond the end of its input panics instead of
// silently reading what happens to follow in memory.
func exactBytes(text string) []byte {
	b := make([]byte, len(text))
	copy(b, text)
	return b[:len(b):len(b)]
}

// callerBytes hands the text over in a buffer that this caller uses again and again: one buffer per text length,
// without spare capacity, refilled for every call (the objects made from it do not outlive the call). A library that
// remembers something about a buffer by its address and length remembers it about the next text too.
var callerBufs = map[int][]byte{}

func callerBytes(text string) []byte {
	b, ok := callerBufs[len(text)]
	if !ok {
		if len(callerBufs) > 4096 {
			callerBufs = map[int][]byte{}
		}
		b = make([]byte, len(text))
		b = b[:len(b):len(b)]
		callerBufs[len(text)] = b
	}
	copy(b, text)
	return b
}

func ctorMode(name, text string) int { return (len(name)*7 + len(text)) % 4 }

func newJSchemaVia(name, text string) *jschema.JSchema { return newJSchemaAs(name, name, text) }

// newJSchemaAs: own decides the constructor, name is the file name.
func newJSchemaAs(own, name, text string) *jschema.JSchema {
	switch ctorMode(own, text) {
	case 1:
		return jschema.New(name, exactBytes(text))
	case 2:
		return jschema.FromFile(fs.NewFile(name, text))
	case 3:
		return jschema.New(name, cbytes.NewBytes(text))
	}
	return jschema.New(name, text)
}

func newEnumVia(name, text string) *enum.Enum { return newEnumAs(name, name, text) }

func newEnumAs(own, name, text string) *enum.Enum {
	switch ctorMode(own, text) {
	case 1:
		return enum.New(name, exactBytes(text))
	case 2:
		return enum.FromFile(fs.NewFile(name, []byte(text)))
	}
	return enum.New(name, text)
}

func newRegexVia(name, text string) *regex.RSchema { return newRegexAs(name, name, text) }

func newRegexAs(own, name, text string) *regex.RSchema {
	switch ctorMode(own, text) {
	case 1:
		return regex.New(name, exactBytes(text))
	case 2:
		return regex.FromFile(fs.NewFile(name, text))
	}
	return regex.New(name, text)
}

func (p project) build() (*jschema.JSchema, error) {
	s := newJSchemaAs("root", p.fileName("root"), p.Root)
	s.AreKeysOptionalByDefault = p.OptDefault
	for _, r := range p.Rules {
		if err := s.AddRule(r.Name, newEnumAs(r.Name, p.fileName(r.Name), r.Text)); err != nil {
			return s, err
		}
	}
	for _, t := range p.Types {
		var ts schema.Schema
		if t.Regex {
			ts = newRegexAs(t.Name, p.fileName(t.Name), t.Text)
		} else {
			tt := newJSchemaAs(t.Name, p.fileName(t.Name), t.Text)
			tt.AreKeysOptionalByDefault = p.OptDefault
			for _, r := range p.Rules {
				if err := tt.AddRule(r.Name, newEnumAs(r.Name, p.fileName(r.Name), r.Text)); err != nil {
					return s, err
				}
			}
			ts = tt
		}
		if err := s.AddType(t.Name, ts); err != nil {
			return s, err
		}
	}
	// types may refer to each other: every JSchema type gets all types too
	for ti, t := range p.Types {
		if t.Regex {
			continue
		}
		tt, _ := s.UserTypeCollection[t.Name].(*jschema.JSchema)
		if tt == nil {
			continue
		}
		for ui, u := range p.Types {
			if p.PartialTables && (ti+ui)%2 == 1 {
				continue
			}
			if us, ok := s.UserTypeCollection[u.Name]; ok {
				if p.OwnTables && u.Name != t.Name {
					if u.Regex {
						us = newRegexAs(u.Name, p.fileName(u.Name), u.Text)
					} else {
						us = newJSchemaAs(u.Name, p.fileName(u.Name), u.Text)
					}
				}
				if err := tt.AddType(u.Name, us); err != nil {
					return s, err
				}
			}
		}
	}
	return s, nil
}

// call is the outcome of one public entry point invocation.
type call struct {
	Entry string
	Text  string // the primary text the entry point was given
	Err   error
	Panic *mon.Panic
	Out   string // rendering of the successful result (may be empty)
	Steps int64  // scanner steps used (only for single-scan entries), else -1
	// Files maps file names to texts for errors that point into another text
	// than Text (a registered type or rule); File is the name Text was given.
	Files map[string]string
	File  string
	// Candidates: the texts of a project whose files all carry one name - an error position is judged against
	// each of them and has to be right for one
	Candidates []string
}

type entrySet int

const (
	epSchema entrySet = 1 << iota
	epEnum
	epRegex
	epDoc
	epNumber
	epGuess
	epAll = epSchema | epEnum | epRegex | epDoc | epNumber | epGuess
)

func guarded(entry, text string, f func() (string, error)) call {
	c := call{Entry: entry, Text: text, Steps: -1}
	switch {
	case strings.HasPrefix(entry, "Enum."):
		c.File = "@e"
	case strings.HasPrefix(entry, "RSchema."), entry == "openapi.RSchema":
		c.File = "r"
	case strings.HasPrefix(entry, "Document"):
		c.File = "doc"
	case entry == "JSchema.AddType":
		c.File = "@t"
	case entry == "JSchema.AddRule":
		c.File = "@e"
	case entry == "JSchema.AddType(regex)":
		c.File = "@r"
	default:
		c.File = "root"
	}
	c.Panic = mon.Guard(func() { c.Out, c.Err = f() })
	return c
}

func astString(n schema.ASTNode, err error) (string, error) {
	if err != nil {
		return "", err
	}
	b, jerr := marshalAST(n)
	if jerr != nil {
		return "", fmt.Errorf("AST not marshallable: %w", jerr)
	}
	return string(b), nil
}

// runEntries calls every selected public entry point on text, each on fresh
// objects, and hands the outcomes to visit.
func runEntries(text string, which entrySet, visit func(call)) (schemaConsumed int) {
	if which&epSchema != 0 {
		verifhook.ResetScanConsumed(verifhook.KindSchema)
		visit(guardedSteps(verifhook.KindSchema, "JSchema.Len", text, func() (string, error) {
			n, err := jschema.New("root", callerBytes(text)).Len()
			return strconv.Itoa(int(n)), err
		}))
		var accepted bool
		visit(guarded("JSchema.Check", text, func() (string, error) {
			err := jschema.New("root", callerBytes(text)).Check()
			accepted = err == nil
			return "", err
		}))
		visit(guarded("JSchema.Example", text, func() (string, error) {
			b, err := jschema.New("root", callerBytes(text)).Example()
			return string(b), err
		}))
		visit(guarded("JSchema.GetAST", text, func() (string, error) {
			return astString(jschema.New("root", callerBytes(text)).GetAST())
		}))
		visit(guarded("JSchema.UsedUserTypes", text, func() (string, error) {
			l, err := jschema.New("root", callerBytes(text)).UsedUserTypes()
			return strings.Join(l, ","), err
		}))
		schemaConsumed = verifhook.ScanConsumed(verifhook.KindSchema)
		{
			const rootText = `{"k": @t}`
			root := jschema.New("root", rootText)
			added := false
			visit(guarded("JSchema.AddType", text, func() (string, error) {
				err := root.AddType("@t", jschema.New("@t", callerBytes(text)))
				added = err == nil
				return "", err
			}))
			if added {
				c := guarded("JSchema.Check(after AddType)", rootText, func() (string, error) { return "", root.Check() })
				c.Files = map[string]string{"@t": text}
				visit(c)
			}
		}
		if accepted {
			visit(guarded("openapi.JSchema", text, func() (string, error) {
				s := jschema.New("root", callerBytes(text))
				if err := s.Check(); err != nil {
					return "", err
				}
				b, err := openapi.NewSchemaObject(s).MarshalJSON()
				if err != nil {
					return "", err
				}
				// descriptions set by the caller: any text, with blanks and line breaks anywhere
				for _, d := range []string{"", " ", "\nText block", "  indented", "\tx", "a\n\nb  c\t", "é \u00a0 😀", "\r\n", strings.Repeat(" x", 300), "\"q\" \\ /"} {
					so := openapi.NewSchemaObject(s)
					so.SetDescription(d)
					db, derr := so.MarshalJSON()
					if derr == nil && !stdjson.Valid(db) {
						return "", fmt.Errorf("with the description %q the Schema Object is not JSON: %s", d, db)
					}
				}
				for _, inf := range openapi.Dereference(s) {
					if oi, ok := inf.(openapi.ObjectInformer); ok {
						for _, pi := range oi.PropertiesInfos() {
							_ = pi.Key()
						}
					}
				}
				return string(b), nil
			}))
		}
	}
	if which&epEnum != 0 {
		visit(guardedSteps(verifhook.KindEnum, "Enum.Len", text, func() (string, error) {
			n, err := enum.New("@e", callerBytes(text)).Len()
			return strconv.Itoa(int(n)), err
		}))
		visit(guarded("Enum.Check", text, func() (string, error) { return "", enum.New("@e", callerBytes(text)).Check() }))
		visit(guarded("Enum.Values", text, func() (string, error) {
			vv, err := enum.New("@e", callerBytes(text)).Values()
			return fmt.Sprint(len(vv)), err
		}))
		visit(guarded("Enum.GetAST", text, func() (string, error) { return astString(enum.New("@e", callerBytes(text)).GetAST()) }))
		{
			const rootText = `1 // {enum: @e}`
			root := jschema.New("root", rootText)
			added := false
			visit(guarded("JSchema.AddRule", text, func() (string, error) {
				err := root.AddRule("@e", enum.New("@e", callerBytes(text)))
				added = err == nil
				return "", err
			}))
			if added {
				c := guarded("JSchema.Check(after AddRule)", rootText, func() (string, error) { return "", root.Check() })
				c.Files = map[string]string{"@e": text}
				visit(c)
			}
		}
	}
	if which&epRegex != 0 {
		visit(guarded("RSchema.Check", text, func() (string, error) { return "", regex.New("r", callerBytes(text)).Check() }))
		visit(guarded("RSchema.Len", text, func() (string, error) {
			n, err := regex.New("r", callerBytes(text)).Len()
			return strconv.Itoa(int(n)), err
		}))
		visit(guarded("RSchema.Example", text, func() (string, error) {
			b, err := regex.New("r", callerBytes(text)).Example()
			return string(b), err
		}))
		visit(guarded("RSchema.GetAST", text, func() (string, error) { return astString(regex.New("r", callerBytes(text)).GetAST()) }))
		visit(guarded("RSchema.Pattern", text, func() (string, error) { return regex.New("r", callerBytes(text)).Pattern() }))
		visit(guarded("JSchema.AddType(regex)", text, func() (string, error) {
			root := jschema.New("root", `"x" // {type: "@r"}`)
			if err := root.AddType("@r", regex.New("@r", callerBytes(text))); err != nil {
				return "", err
			}
			_ = root.Check() // the example may not match the pattern: a value reason, not judged here
			return "", nil
		}))
		visit(guarded("openapi.RSchema", text, func() (string, error) {
			r := regex.New("r", callerBytes(text))
			if err := r.Check(); err != nil {
				return "", err
			}
			b, err := openapi.NewSchemaObject(r).MarshalJSON()
			return string(b), err
		}))
	}
	if which&epDoc != 0 {
		for _, trailing := range []bool{false, true} {
			var opts []jdoc.Option
			name := "Document"
			if trailing {
				opts = append(opts, jdoc.AllowTrailingNonSpaceCharacters())
				name = "Document(trailing)"
			}
			visit(guardedSteps(verifhook.KindJSONDoc, name+".Check", text, func() (string, error) { return "", jdoc.New("doc", callerBytes(text), opts...).Check() }))
			visit(guarded(name+".Len", text, func() (string, error) {
				n, err := jdoc.New("doc", callerBytes(text), opts...).Len()
				return strconv.Itoa(int(n)), err
			}))
			visit(guarded(name+".NextLexeme", text, func() (string, error) {
				d := jdoc.New("doc", callerBytes(text), opts...)
				n := 0
				for {
					_, err := d.NextLexeme()
					if errors.Is(err, io.EOF) {
						return strconv.Itoa(n), nil
					}
					if err != nil {
						return "", err
					}
					n++
					if n > 4*len(text)+16 {
						panic("NextLexeme does not terminate")
					}
				}
			}))
		}
	}
	if which&epNumber != 0 {
		visit(guarded("json.NewNumber", text, func() (string, error) {
			n, err := ljson.NewNumber(cbytes.NewBytes(text))
			if err != nil {
				return "", err
			}
			return n.String(), nil
		}))
	}
	if which&epGuess != 0 {
		visit(guarded("schema.GuessSchemaType", text, func() (string, error) {
			t, err := schema.GuessSchemaType([]byte(text))
			return string(t), err
		}))
	}
	return schemaConsumed
}

func marshalAST(n schema.ASTNode) ([]byte, error) { return stdjson.Marshal(n) }

func guardedSteps(kind int, entry, text string, f func() (string, error)) call {
	before := verifhook.ScanSteps[kind].Load()
	c := guarded(entry, text, f)
	c.Steps = verifhook.ScanSteps[kind].Load() - before
	return c
}

// runProjectEntries exercises the schema entry points on a project (root plus
// registered types and rules), each on freshly built objects.
func runProjectEntries(p project, visit func(call)) {
	type op struct {
		name string
		f    func(s *jschema.JSchema) (string, error)
	}
	ops := []op{
		{"JSchema.Check", func(s *jschema.JSchema) (string, error) { return "", s.Check() }},
		{"JSchema.Example", func(s *jschema.JSchema) (string, error) { b, err := s.Example(); return string(b), err }},
		{"JSchema.GetAST", func(s *jschema.JSchema) (string, error) { return astString(s.GetAST()) }},
		{"JSchema.UsedUserTypes", func(s *jschema.JSchema) (string, error) {
			l, err := s.UsedUserTypes()
			return strings.Join(l, ","), err
		}},
		{"JSchema.Len", func(s *jschema.JSchema) (string, error) { n, err := s.Len(); return strconv.Itoa(int(n)), err }},
		{"openapi.JSchema", func(s *jschema.JSchema) (string, error) {
			if err := s.Check(); err != nil {
				return "", nil // conversion is only claimed for accepted schemas
			}
			b, err := openapi.NewSchemaObject(s).MarshalJSON()
			if err != nil {
				return "", err
			}
			for _, inf := range openapi.Dereference(s) {
				if oi, ok := inf.(openapi.ObjectInformer); ok {
					for _, pi := range oi.PropertiesInfos() {
						_ = pi.Key()
					}
				}
			}
			return string(b), nil
		}},
	}
	files := map[string]string{}
	for _, t := range p.Types {
		files[t.Name] = t.Text
	}
	for _, t := range p.Rules {
		files[t.Name] = t.Text
	}
	for _, o := range ops {
		o := o
		c := guarded(o.name, p.Root, func() (string, error) {
			s, err := p.build()
			if err != nil {
				return "", err
			}
			return o.f(s)
		})
		c.Files = files
		visit(c)
	}
	// the same project with every text created under ONE file name (a caller without names for its texts): errors
	// must still point into the text they belong to. Check() only (Example() as well for every third project).
	if len(p.Types) > 0 {
		q := p
		q.UseOneName, q.OneName = true, []string{"x", "", "root"}[len(p.Root)%3]
		cands := []string{p.Root}
		for _, t := range p.Types {
			cands = append(cands, t.Text)
		}
		for _, t := range p.Rules {
			cands = append(cands, t.Text)
		}
		nops := 1
		if (len(p.Root)+len(p.Types))%3 == 0 {
			nops = 2
		}
		for _, o := range ops[:nops] {
			o := o
			c := guarded(o.name+"(one file name)", p.Root, func() (string, error) {
				s, err := q.build()
				if err != nil {
					return "", err
				}
				return o.f(s)
			})
			c.File, c.Candidates = q.OneName, cands
			visit(c)
		}
	}
}

// ---- C16: judging a returned error -------------------------------------------

var (
	knownCodes    map[int]bool
	knownCodesErr error
)

func loadKnownCodes(repo string) {
	if knownCodes != nil || knownCodesErr != nil {
		return
	}
	b, err := os.ReadFile(filepath.Join(repo, "errs", "code.go"))
	if err != nil {
		knownCodesErr = err
		return
	}
	knownCodes = map[int]bool{}
	for _, m := range regexp.MustCompile(`(?m)^\s*Err\w+\s+Code\s*=\s*(\d+)`).FindAllStringSubmatch(string(b), -1) {
		n, _ := strconv.Atoi(m[1])
		knownCodes[n] = true
	}
}

type errView struct {
	Type       string
	Code       int
	HasCode    bool
	Message    string
	Rendered   string
	Positioned bool
	Index      uint
	Line, Col  uint
	UserType   string
	Filename   string
}

// viewError extracts everything observable from a returned error.
func viewError(err error) (v errView, renderPanic *mon.Panic) {
	v.Type = fmt.Sprintf("%T", err)
	switch e := err.(type) {
	case kit.JSchemaError:
		v.Code, v.HasCode = e.ErrCode(), true
		v.Message = e.Message()
		v.Index, v.Line, v.Col = e.Index(), e.Line(), e.Column()
		v.UserType = e.IncorrectUserType()
		v.Filename = e.Filename()
		v.Positioned = v.Index > 0 || v.Line > 0
	case *kit.JSchemaError:
		v.Code, v.HasCode = e.ErrCode(), true
		v.Message = e.Message()
		v.Index, v.Line, v.Col = e.Index(), e.Line(), e.Column()
		v.UserType = e.IncorrectUserType()
		v.Filename = e.Filename()
		v.Positioned = v.Index > 0 || v.Line > 0
	case *errs.Err:
		v.Code, v.HasCode = int(e.Code()), true
		v.Message = e.Error()
	case errs.Err:
		v.Code, v.HasCode = int(e.Code()), true
		v.Message = e.Error()
	}
	renderPanic = mon.Guard(func() { v.Rendered = err.Error() })
	if v.Message == "" {
		v.Message = v.Rendered
	}
	return
}

var digitsRE = regexp.MustCompile(`[0-9]+`)

// refLineCol computes the 1-based line and column of byte idx for texts that
// use one newline convention only. ok=false for mixed conventions.
func refLineCol(text string, idx int) (line, col int, lineText string, ok bool) {
	hasCRLF := strings.Contains(text, "\r\n")
	stripped := strings.ReplaceAll(text, "\r\n", "")
	hasCR := strings.Contains(stripped, "\r")
	hasLF := strings.Contains(stripped, "\n")
	n := 0
	for _, b := range []bool{hasCRLF, hasCR, hasLF} {
		if b {
			n++
		}
	}
	if n > 1 {
		return 0, 0, "", false
	}
	term := "\n"
	if hasCRLF {
		term = "\r\n"
	} else if hasCR {
		term = "\r"
	}
	// A terminator byte belongs to the line it ends.
	start := 0
	line = 1
	for {
		i := strings.Index(text[start:], term)
		if i < 0 || start+i+len(term) > idx {
			break
		}
		start += i + len(term)
		line++
	}
	col = idx - start + 1
	end := strings.Index(text[start:], term)
	if end < 0 {
		lineText = text[start:]
	} else {
		lineText = text[start : start+end]
	}
	return line, col, lineText, true
}

// judgeError applies the C16 clauses to one rejected call.
func judgeError(r *mon.Run, c call, cas any) {
	err := c.Err
	key := func(s string) string { return c.Entry + " " + s }
	var rte runtime.Error
	if errors.As(err, &rte) {
		msg := digitsRE.ReplaceAllString(err.Error(), "N")
		r.Violate("runtime-error", key(msg), fmt.Sprintf("%s returned a raw Go runtime error (%v) for %q", c.Entry, err, mon.Trunc(c.Text, 120)), cas)
		return
	}
	v, rp := viewError(err)
	if rp != nil {
		r.Violate("render-panic", key(rp.Site), fmt.Sprintf("Error() of the error returned by %s panicked (%s) for %q", c.Entry, rp.Value, mon.Trunc(c.Text, 120)), cas)
		return
	}
	if !v.HasCode {
		r.Violate("error-type", key(v.Type), fmt.Sprintf("%s returned an error of type %s (%q), not a coded diagnostic, for %q", c.Entry, v.Type, mon.Trunc(v.Rendered, 120), mon.Trunc(c.Text, 120)), cas)
		return
	}
	if v.Code == int(errs.ErrRuntimeFailure) {
		r.Violate("internal-failure", key("code 1"), fmt.Sprintf("%s answered with the internal 'runtime failure' code for %q", c.Entry, mon.Trunc(c.Text, 120)), cas)
		return
	}
	if v.Code == int(errs.ErrLoader) {
		// "Loader error" (801) is the loader's catch-all for a lexeme it does not expect there: unhelpful, but a coded,
		// positioned diagnostic that the untouched library gives for malformed annotation bodies - counted, not raised
		r.Count("loader_error_801_diagnostics", 1)
	}
	if knownCodes != nil && !knownCodes[v.Code] {
		r.Violate("unknown-code", key(strconv.Itoa(v.Code)), fmt.Sprintf("%s answered with code %d, which package errs does not define", c.Entry, v.Code), cas)
	}
	for _, bad := range []string{"%!", "0xc0", "runtime error", "goroutine ", "interface conversion:", "invalid memory address", "nil pointer dereference", "index out of range [", "slice bounds out of range"} {
		if strings.Contains(v.Message, bad) || strings.Contains(v.Rendered, bad) {
			if !strings.Contains(c.Text, bad) { // the message may legitimately quote the input
				r.Violate("message-dump", key(fmt.Sprintf("code %d contains %q", v.Code, bad)), fmt.Sprintf("%s: message %q for %q", c.Entry, mon.Trunc(v.Rendered, 200), mon.Trunc(c.Text, 120)), cas)
				return
			}
		}
	}
	if strings.TrimSpace(v.Message) == "" {
		r.Violate("message-empty", key(fmt.Sprintf("code %d", v.Code)), fmt.Sprintf("%s: empty message for %q", c.Entry, mon.Trunc(c.Text, 120)), cas)
	}
	if !v.Positioned {
		return
	}
	if v.UserType != "" {
		// an error inside a user type is judged like any other: against the text of the file it names
		r.Count("errors_inside_user_types_judged", 1)
	}
	// position judges the error's position against one text: "" = right, "-" = cannot be judged
	position := func(text string) (clause, what string) {
		if int(v.Index) >= len(text) {
			return "index-outside", fmt.Sprintf("%s: error index %d lies outside the %d-byte text %q", c.Entry, v.Index, len(text), mon.Trunc(text, 120))
		}
		line, col, lineText, ok := refLineCol(text, int(v.Index))
		if !ok {
			return "-", ""
		}
		if int(v.Line) != line || int(v.Col) != col {
			return "line-column", fmt.Sprintf("%s: index %d of %q reported as line %d column %d; it is line %d column %d", c.Entry, v.Index, mon.Trunc(text, 120), v.Line, v.Col, line, col)
		}
		quoted := strings.TrimLeft(lineText, " \t\r\n")
		if len(quoted) > 100 {
			quoted = quoted[:100]
		}
		if !strings.Contains(v.Rendered, quoted) {
			return "render-line", fmt.Sprintf("%s: rendered error %q does not quote the source line %q", c.Entry, mon.Trunc(v.Rendered, 200), mon.Trunc(quoted, 100))
		}
		return "", ""
	}
	if len(c.Candidates) > 0 {
		// every text carries the same file name: the position has to be right for one of them
		if v.Filename != c.File {
			r.Count("errors_pointing_into_an_unknown_file_position_not_judged", 1)
			return
		}
		r.Count("positioned_errors_judged_(one_file_name)", 1)
		firstClause, firstWhat := "", ""
		for _, text := range c.Candidates {
			clause, what := position(text)
			if clause == "" || clause == "-" {
				return
			}
			if firstClause == "" {
				firstClause, firstWhat = clause, what
			}
		}
		r.Violate(firstClause, key(fmt.Sprintf("code %d", v.Code)), firstWhat+fmt.Sprintf(" (all %d texts of the project carry the file name %q; the position fits none of them)", len(c.Candidates), c.File), cas)
		return
	}
	text := c.Text
	if v.Filename != c.File {
		other, ok := c.Files[v.Filename]
		if !ok {
			r.Count("errors_pointing_into_an_unknown_file_position_not_judged", 1)
			return
		}
		text = other
	}
	r.Count("positioned_errors_judged", 1)
	switch clause, what := position(text); clause {
	case "":
	case "-":
		r.Count("mixed_newline_conventions_line_col_not_judged", 1)
	default:
		r.Violate(clause, key(fmt.Sprintf("code %d", v.Code)), what, cas)
	}
}
