package props

// C10, family "shared type objects": one set of type objects (and enum rule
// objects) is registered in several root schemas one after the other, the way
// an API description registers its user types in every schema that uses them.
// Roots that lack some type fail; they must not leave anything behind in the
// shared objects: every later root answers exactly like a root built from
// fresh objects with the same registrations.
//
// Histories are restricted to what the library's design can keep apart: a
// successful compilation extends shared types in place (allOf members are
// merged into the type object), so after a success every later root registers
// the complete set again; failing roots come first and all lack the same types.

import (
	stdjson "encoding/json"
	"fmt"
	"math/rand/v2"
	"sort"
	"strings"

	schema "github.com/jsightapi/jsight-schema-core"
	"github.com/jsightapi/jsight-schema-core/notations/jschema"
	"github.com/jsightapi/jsight-schema-core/notations/jschema/ischema"
	"github.com/jsightapi/jsight-schema-core/notations/regex"
	"github.com/jsightapi/jsight-schema-core/openapi"
	"github.com/jsightapi/jsight-schema-core/rules/enum"

	"verifharness/internal/gen"
	"verifharness/internal/mon"
)

type c10SharedCase struct {
	Kind       string  `json:"kind"` // "shared-types"
	Project    project `json:"project"`
	Drop       []int   `json:"drop"`       // indices into Project.Types withheld from the failing roots
	Fail       int     `json:"fail"`       // number of failing roots first
	OK         int     `json:"ok"`         // number of complete roots afterwards
	Standalone []int   `json:"standalone"` // type objects whose own Check() is called before the first root
	Between    bool    `json:"between"`    // type objects' Example()/GetAST() called between roots
	Dup        bool    `json:"dup"`        // after registration every root also tries to register another object under a taken name (refused)
	Rebind     int     `json:"rebind"`     // index of the type that further roots bind to another schema (-1: none)
}

// c10SharedObjs builds the shared objects of a project.
func c10SharedObjs(pt project) (types []schema.Schema, rules []*enum.Enum) {
	for _, r := range pt.Rules {
		rules = append(rules, enum.New(r.Name, r.Text))
	}
	for _, t := range pt.Types {
		if t.Regex {
			types = append(types, regex.New(t.Name, t.Text))
			continue
		}
		tt := jschema.New(t.Name, t.Text)
		for i, r := range pt.Rules {
			_ = tt.AddRule(r.Name, rules[i])
		}
		types = append(types, tt)
	}
	return
}

// c10SharedRoot registers the objects (without the dropped ones) in a new root and renders everything observable.
func c10SharedRoot(pt project, types []schema.Schema, rules []*enum.Enum, drop map[int]bool, dup bool) (digest string, p *mon.Panic) {
	var sb strings.Builder
	p = mon.Guard(func() {
		s := jschema.New("root", pt.Root)
		for i, r := range pt.Rules {
			if err := s.AddRule(r.Name, rules[i]); err != nil {
				fmt.Fprintf(&sb, "AddRule %s: %s\n", r.Name, c10ErrText(err))
			}
		}
		for i, t := range pt.Types {
			if drop[i] {
				continue
			}
			if err := s.AddType(t.Name, types[i]); err != nil {
				fmt.Fprintf(&sb, "AddType %s: %s\n", t.Name, c10ErrText(err))
			}
		}
		if dup {
			// a second registration under a name that is taken is refused and must leave the first one in place
			for i, t := range pt.Types {
				if drop[i] {
					continue
				}
				var other schema.Schema = jschema.New(t.Name, `{"dupA": 1, "dupB": "x"}`)
				if i%2 == 1 && len(types) > 1 {
					other = types[(i+1)%len(types)]
				}
				if err := s.AddType(t.Name, other); err == nil {
					fmt.Fprintf(&sb, "a second AddType %s was accepted\n", t.Name)
				}
			}
		}
		err := s.Check()
		fmt.Fprintf(&sb, "Check: %s\n", c10ErrText(err))
		if err != nil {
			return
		}
		ex, eerr := s.Example()
		fmt.Fprintf(&sb, "Example: %s %s\n", ex, c10ErrText(eerr))
		ast, aerr := s.GetAST()
		ab, _ := stdjson.Marshal(ast)
		fmt.Fprintf(&sb, "AST: %s %s\n", ab, c10ErrText(aerr))
		used, uerr := s.UsedUserTypes()
		fmt.Fprintf(&sb, "Used: %s %s\n", strings.Join(used, ","), c10ErrText(uerr))
		// the compiled objects: members, where they come from, required keys, additionalProperties - of the root and
		// of every (shared) type object as this root leaves it
		dump := func(what string, js *jschema.JSchema) {
			if js == nil || js.Inner == nil {
				return
			}
			if on, ok := js.Inner.RootNode().(*ischema.ObjectNode); ok {
				var d *c07Node
				if pn := mon.Guard(func() { d = c07DumpNode(on) }); pn != nil {
					fmt.Fprintf(&sb, "Compiled %s: panic %s\n", what, pn.Value)
					return
				}
				var sortReq func(n *c07Node)
				sortReq = func(n *c07Node) {
					sort.Strings(n.Req)
					for _, c := range n.Sub {
						if c != nil {
							sortReq(c)
						}
					}
				}
				sortReq(d)
				db, _ := stdjson.Marshal(d)
				fmt.Fprintf(&sb, "Compiled %s: %s\n", what, db)
			}
		}
		dump("root", s)
		for i, t := range pt.Types {
			if js, ok := types[i].(*jschema.JSchema); ok && !drop[i] {
				dump(t.Name, js)
			}
		}
		if pn := mon.Guard(func() {
			ob, oerr := openapi.NewSchemaObject(s).MarshalJSON()
			fmt.Fprintf(&sb, "OpenAPI: %s %s\n", ob, c10ErrText(oerr))
			for _, inf := range openapi.Dereference(s) {
				db, _ := inf.SchemaObject().MarshalJSON()
				fmt.Fprintf(&sb, "Deref: %s", db)
				if oi, ok := inf.(openapi.ObjectInformer); ok {
					for _, pi := range oi.PropertiesInfos() {
						pb, _ := pi.SchemaObject().MarshalJSON()
						fmt.Fprintf(&sb, " [%s optional=%v %s]", pi.Key(), pi.Optional(), pb)
					}
				}
				sb.WriteByte('\n')
			}
		}); pn != nil {
			fmt.Fprintf(&sb, "OpenAPI: panic %s\n", pn.Value)
		}
	})
	return sb.String(), p
}

func c10ErrText(err error) string {
	if err == nil {
		return "<nil>"
	}
	v, rp := viewError(err)
	if rp != nil {
		return "error whose rendering panics"
	}
	return fmt.Sprintf("error code=%d msg=%q file=%q index=%d type=%q", v.Code, v.Message, v.Filename, v.Index, v.UserType)
}

func c10SharedOne(r *mon.Run, cs c10SharedCase) {
	r.Eval(1)
	pt := cs.Project
	drop := map[int]bool{}
	for _, i := range cs.Drop {
		drop[i] = true
	}
	none := map[int]bool{}
	// what fresh objects answer
	ft, fr := c10SharedObjs(pt)
	wantOK, p1 := c10SharedRoot(pt, ft, fr, none, cs.Dup)
	ft, fr = c10SharedObjs(pt)
	wantFail, p2 := c10SharedRoot(pt, ft, fr, drop, cs.Dup)
	if p1 != nil || p2 != nil {
		r.Count("shared_types:fresh_objects_panic_(C02's_subject)", 1)
		return
	}
	for _, w := range []string{wantOK, wantFail} {
		// a name whose registration succeeded is taken: only where a first registration failed may a second one pass
		if strings.Contains(w, "a second AddType") && !strings.HasPrefix(w, "AddType ") && !strings.Contains(w, "\nAddType ") {
			r.Violate("history-dependent", "shared types: second registration ; "+mon.Trunc(projectKey(pt), 300), "on fresh objects, with every first AddType accepted, a second AddType under a taken name is accepted: "+mon.Trunc(w, 200), cs)
			return
		}
	}
	if !strings.Contains(wantOK, "Check: <nil>") {
		// a project that is refused even when complete: every root over the shared objects has to give that same
		// refusal (a refused allOf merge must not leave a shared type object extended half-way)
		r.Count("shared_types:complete_project_refused_(used_as_well)", 1)
	}
	if !strings.Contains(wantFail, "Check: error") {
		// withholding these types does not make the root fail: the shared objects would be compiled in place by it
		r.Count("shared_types:withheld_types_not_needed", 1)
		return
	}
	key := func(what string) string {
		return fmt.Sprintf("shared types: %s ; %s ; withheld %v x%d then complete x%d", what, mon.Trunc(projectKey(pt), 300), cs.Drop, cs.Fail, cs.OK)
	}
	types, rules := c10SharedObjs(pt)
	// the AST of every type object, taken before any root uses it, is a returned value: it must still read the
	// same at the end (the OpenAPI listing of a root walks these very types)
	type keptAST struct {
		name string
		ast  schema.ASTNode
		snap string
	}
	var kept []keptAST
	for i, t := range types {
		if tt, ok := t.(*jschema.JSchema); ok {
			mon.Guard(func() {
				if a, err := tt.GetAST(); err == nil {
					b, _ := stdjson.Marshal(a)
					kept = append(kept, keptAST{pt.Types[i].Name, a, string(b)})
				}
			})
		}
	}
	defer func() {
		for _, k := range kept {
			if b, _ := stdjson.Marshal(k.ast); string(b) != k.snap {
				r.Violate("mutated-after-return", key("AST of a type object"), fmt.Sprintf("the AST that GetAST() of the type %s returned before the roots were built reads differently afterwards: %s", k.name, c07FirstDiff(k.snap, string(b))), cs)
				return
			}
		}
	}()
	for _, i := range cs.Standalone {
		if tt, ok := types[i].(*jschema.JSchema); ok {
			mon.Guard(func() { _ = tt.Check() })
		}
	}
	step := 0
	for i := 0; i < cs.Fail; i++ {
		got, p := c10SharedRoot(pt, types, rules, drop, cs.Dup)
		step++
		if p != nil {
			r.Violate("panic", key("root "+fmt.Sprint(step)+" "+p.Site), "a root over shared type objects panicked: "+p.Value, cs)
			return
		}
		if got != wantFail {
			r.Violate("history-dependent", key("failing root"), fmt.Sprintf("root %d (types %v withheld) over type objects that earlier roots used answers differently from the same root over fresh objects: %s", step, cs.Drop, c07FirstDiff(wantFail, got)), cs)
			return
		}
		if cs.Between {
			c10SharedTouch(types)
		}
	}
	for i := 0; i < cs.OK; i++ {
		got, p := c10SharedRoot(pt, types, rules, none, cs.Dup)
		step++
		if p != nil {
			r.Violate("panic", key("root "+fmt.Sprint(step)+" "+p.Site), "a root over shared type objects panicked: "+p.Value, cs)
			return
		}
		if got != wantOK {
			r.Violate("history-dependent", key("complete root"), fmt.Sprintf("root %d (all types registered) over type objects that %d failing and %d complete roots used before answers differently from the same root over fresh objects: %s", step, cs.Fail, i, c07FirstDiff(wantOK, got)), cs)
			return
		}
		if cs.Between {
			c10SharedTouch(types)
		}
	}
	// the texts of the shared objects are still what they were: Len() of every type and rule object, asked now,
	// is what a fresh object over the same text answers
	freshT, freshR := c10SharedObjs(pt)
	lens := func(ts []schema.Schema, rs []*enum.Enum) string {
		var sb strings.Builder
		for i, t := range ts {
			t := t
			mon.Guard(func() {
				n, err := t.Len()
				fmt.Fprintf(&sb, "%s Len=%d %s; ", pt.Types[i].Name, n, c10ErrText(err))
			})
		}
		for i, t := range ts { // and the text itself, byte for byte
			switch tt := t.(type) {
			case *jschema.JSchema:
				if got := string(tt.File.Content().Data()); got != pt.Types[i].Text {
					fmt.Fprintf(&sb, "%s text is now %q; ", pt.Types[i].Name, got)
				}
			case *regex.RSchema:
				if got := string(tt.File.Content().Data()); got != pt.Types[i].Text {
					fmt.Fprintf(&sb, "%s text is now %q; ", pt.Types[i].Name, got)
				}
			}
		}
		for i, e := range rs {
			e := e
			mon.Guard(func() {
				n, err := e.Len()
				fmt.Fprintf(&sb, "%s Len=%d %s; ", pt.Rules[i].Name, n, c10ErrText(err))
			})
		}
		return sb.String()
	}
	if want, got := lens(freshT, freshR), lens(types, rules); want != got {
		r.Violate("mutated-after-return", key("text of a shared object"), fmt.Sprintf("after %d roots, Len() of the shared type / rule objects differs from fresh objects over the same texts: %s", step, c07FirstDiff(want, got)), cs)
		return
	}
	r.Count("shared_types:histories_consistent", 1)
	r.Count("shared_types:roots_compared_with_fresh_objects", int64(step))
	r.Nontrivial("shared", projectKey(pt), fmt.Sprint(cs.Drop, cs.Fail, cs.OK, cs.Standalone, cs.Between, cs.Dup, cs.Rebind))
}

// c10SharedRebind: one name bound to another schema. All roots share every type object but one: under that name
// every second root registers an object with another text. Each root must answer like fresh objects with its
// binding. (Only for projects without allOf: inheriting types are extended in place by design.)
func c10SharedRebind(r *mon.Run, pt project, idx int) {
	if idx < 0 || idx >= len(pt.Types) || pt.Types[idx].Regex || strings.Contains(projectKey(pt), "allOf") {
		return
	}
	alt := ""
	switch t := strings.TrimSpace(pt.Types[idx].Text); {
	case strings.HasPrefix(t, `"`):
		alt = `"B-2"`
	case strings.HasPrefix(t, "{"):
		alt = "{\n  \"zz\": 1\n}"
	case strings.HasPrefix(t, "["):
		alt = "[\n  true\n]"
	case t != "" && (t[0] == '-' || (t[0] >= '0' && t[0] <= '9')):
		alt = "111"
	}
	if alt == "" || alt == pt.Types[idx].Text {
		return
	}
	r.Eval(1)
	cs := c10SharedCase{Kind: "shared-types-rebind", Project: pt, Rebind: idx}
	none := map[int]bool{}
	ptB := project{Root: pt.Root, Rules: pt.Rules, Types: append([]typeDef(nil), pt.Types...)}
	ptB.Types[idx] = typeDef{Name: pt.Types[idx].Name, Text: alt}
	fa, fra := c10SharedObjs(pt)
	wantA, pa := c10SharedRoot(pt, fa, fra, none, false)
	fb, frb := c10SharedObjs(ptB)
	wantB, pb := c10SharedRoot(ptB, fb, frb, none, false)
	if pa != nil || pb != nil {
		return
	}
	types, rules := c10SharedObjs(pt)
	typesB := append([]schema.Schema(nil), types...)
	typesB[idx] = jschema.New(ptB.Types[idx].Name, alt)
	key := fmt.Sprintf("shared types: root with %s bound to another schema ; %s", pt.Types[idx].Name, mon.Trunc(projectKey(pt), 300))
	for i := 0; i < 4; i++ {
		var got, want string
		var p *mon.Panic
		if i%2 == 0 {
			got, p = c10SharedRoot(pt, types, rules, none, false)
			want = wantA
		} else {
			got, p = c10SharedRoot(ptB, typesB, rules, none, false)
			want = wantB
		}
		if p != nil {
			r.Violate("panic", key+" "+p.Site, "a root over shared type objects panicked: "+p.Value, cs)
			return
		}
		if got != want {
			r.Violate("history-dependent", key, fmt.Sprintf("root %d shares every type object with the earlier roots except %s, which every second root binds to %q; it answers differently from fresh objects with the same binding: %s", i+1, pt.Types[idx].Name, alt, c07FirstDiff(want, got)), cs)
			return
		}
	}
	r.Count("shared_types:histories_with_a_rebound_name", 1)
	r.Nontrivial("rebind", projectKey(pt), fmt.Sprint(idx))
}

// c10SharedTouch reads from the shared type objects between two roots.
func c10SharedTouch(types []schema.Schema) {
	for _, t := range types {
		mon.Guard(func() {
			_, _ = t.Example()
			_, _ = t.GetAST()
			_, _ = t.Len()
		})
	}
}

// c10SharedProjects: hand-written shapes plus allOf-rich and general generated projects.
func c10SharedFixed() []project {
	obj := func(allOf string, members string) string {
		if allOf == "" {
			return "{\n" + members + "\n}"
		}
		return "{ // {allOf: " + allOf + "}\n" + members + "\n}"
	}
	return []project{
		{Root: `{"item": @t}`, Types: []typeDef{{Name: "@t", Text: obj(`"@base"`, ` "own": 1`)}, {Name: "@base", Text: `{"id": 7}`}}},
		{Root: `{"item": @t}`, Types: []typeDef{{Name: "@t", Text: obj(`["@a", "@b"]`, ` "own": 1`)}, {Name: "@a", Text: `{"ida": 7}`}, {Name: "@b", Text: `{"idb": 8}`}}},
		{Root: `{"item": @t}`, Types: []typeDef{{Name: "@t", Text: obj(`["@a", "@b", "@c"]`, ` "own": 1`)}, {Name: "@a", Text: `{"ida": 7}`}, {Name: "@b", Text: `{"idb": 8}`}, {Name: "@c", Text: `{"idc": [1]}`}}},
		{Root: `{"item": @t}`, Types: []typeDef{{Name: "@t", Text: obj(`"@a"`, ` "own": 1`)}, {Name: "@a", Text: obj(`"@b"`, ` "ida": 7`)}, {Name: "@b", Text: `{"idb": 8}`}}},
		{Root: obj(`"@t"`, ` "mine": true`), Types: []typeDef{{Name: "@t", Text: obj(`["@a", "@b"]`, ` "own": 1`)}, {Name: "@a", Text: `{"ida": 7}`}, {Name: "@b", Text: `{"idb": "x" // {type: "@s"}` + "\n}"}, {Name: "@s", Text: `"x" // {minLength: 1}`}}},
		{Root: `[@t, @u]`, Types: []typeDef{{Name: "@t", Text: obj(`"@a"`, ` "own": 1`)}, {Name: "@u", Text: obj(`["@a", "@b"]`, ` "other": 2`)}, {Name: "@a", Text: `{"ida": 7}`}, {Name: "@b", Text: `{"idb": 8}`}}},
		{Root: `{"k": @t | @u}`, Types: []typeDef{{Name: "@t", Text: `{"x": @u // {optional: true}` + "\n}"}, {Name: "@u", Text: `"s" // {or: [{type: "@v", nullable: true}, "string"]}`}, {Name: "@v", Text: `"vv" // {minLength: 2}`}}},
		{Root: `{@k: 1}`, Types: []typeDef{{Name: "@k", Text: `"abc" // {type: "@s"}`}, {Name: "@s", Text: `"abc" // {minLength: 1}`}}},
		{Root: `{} // {additionalProperties: "@t"}`, Types: []typeDef{{Name: "@t", Text: obj(`"@a"`, ` "own": 1 // {enum: @e}`)}, {Name: "@a", Text: `{"ida": 7}`}}, Rules: []typeDef{{Name: "@e", Text: "[1, 2]"}}},
		{Root: `{"data": @w}`, Types: []typeDef{{Name: "@w", Text: `{"id": @id}`}, {Name: "@id", Text: `111`}}},
		{Root: `[@w, @id]`, Types: []typeDef{{Name: "@w", Text: `{"id": @id, "ids": [@id]}`}, {Name: "@id", Text: `"A-1" // {minLength: 1}`}}},
		{Root: `{"k": @c}`, Types: []typeDef{{Name: "@c", Text: `@x | @y`}, {Name: "@x", Text: `{"x": 1}`}, {Name: "@y", Text: `[1]`}}},
		{Root: `"a1" // {type: "@r"}`, Types: []typeDef{{Name: "@r", Text: `/[a-c][0-9]/`, Regex: true}, {Name: "@t", Text: obj(`"@a"`, ` "own": "b2" // {type: "@r"}`)}, {Name: "@a", Text: `{"ida": 7}`}}},
	}
}

func c10SharedRun(r *mon.Run) {
	rng := r.Rand("c10-shared")
	idx := 0
	one := func(pt project, rr *rand.Rand) {
		n := len(pt.Types)
		if n == 0 {
			return
		}
		// every single withheld type, plus random pairs
		var drops [][]int
		for i := 0; i < n; i++ {
			drops = append(drops, []int{i})
		}
		if n > 2 {
			a, b := rr.IntN(n), rr.IntN(n)
			if a != b {
				drops = append(drops, []int{a, b})
			}
		}
		for _, d := range drops {
			cs := c10SharedCase{Kind: "shared-types", Project: pt, Drop: d, Fail: 1 + rr.IntN(2), OK: 1 + rr.IntN(3), Between: rr.IntN(3) == 0, Dup: rr.IntN(3) == 0, Rebind: rr.IntN(2*n) - n}
			if rr.IntN(4) == 0 {
				cs.Standalone = []int{rr.IntN(n)}
			}
			c10SharedOne(r, cs)
		}
	}
	for _, pt := range c10SharedFixed() {
		if r.Mine(idx) {
			one(pt, rng)
			for k := range pt.Types {
				c10SharedRebind(r, pt, k)
			}
		}
		idx++
	}
	n := r.Share(r.Pick(3000, 60_000))
	for i := 0; i < n; i++ {
		var p *gen.Project
		if i%3 == 0 {
			p = gen.GenProject(rng, false, i%2 == 0)
		} else {
			p = c07Random(rng)
		}
		pt := toTexts(p, gen.DefaultLayout)
		one(pt, rng)
		if len(pt.Types) > 0 {
			c10SharedRebind(r, pt, rng.IntN(len(pt.Types)))
		}
	}
}
