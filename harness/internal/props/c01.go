package props

import (
	stdjson "encoding/json"
	"fmt"
	"math/big"
	"sort"
	"strconv"
	"strings"

	"verifharness/internal/gen"
	"verifharness/internal/mon"
	"verifharness/internal/ref"
)

// toTexts prints a model project into the texts given to the library.
func toTexts(p *gen.Project, l gen.Layout) project {
	out := project{Root: gen.Print(p.Root, l)}
	for _, t := range p.Types {
		out.Types = append(out.Types, typeDef{Name: t.Name, Text: gen.Print(t.Node, l)})
	}
	for _, r := range p.Regexes {
		out.Types = append(out.Types, typeDef{Name: r.Name, Text: r.Text, Regex: true})
	}
	for _, e := range p.Enums {
		out.Rules = append(out.Rules, typeDef{Name: e.Name, Text: e.Text})
	}
	return out
}

// value-reason codes: the example does not satisfy a rule
var valueCodes = map[int]bool{602: true, 603: true, 606: true, 607: true, 608: true, 609: true, 610: true, 611: true, 612: true,
	613: true, 614: true, 615: true, 616: true, 204: true, 210: true, 1115: true, 1301: true}

// checkProject runs Check() on freshly built objects.
func checkProject(pt project) (code int, msg string, p *mon.Panic) {
	var err error
	p = mon.Guard(func() {
		s, berr := pt.build()
		if berr != nil {
			err = berr
			return
		}
		err = s.Check()
	})
	if p != nil || err == nil {
		return 0, "", p
	}
	v, _ := viewError(err)
	if !v.HasCode {
		return -1, err.Error(), nil
	}
	return v.Code, v.Message, nil
}

func projectKey(pt project) string {
	var sb strings.Builder
	sb.WriteString(pt.Root)
	ts := append([]typeDef(nil), pt.Types...)
	sort.Slice(ts, func(i, j int) bool { return ts[i].Name < ts[j].Name })
	for _, t := range ts {
		sb.WriteString(" ; " + t.Name + " = " + t.Text)
	}
	for _, t := range pt.Rules {
		sb.WriteString(" ; " + t.Name + " = " + t.Text)
	}
	return sb.String()
}

// usedNames collects type and enum names mentioned below a node.
func usedNames(n *gen.Node, into map[string]bool) {
	var rv func(v gen.RV)
	rv = func(v gen.RV) {
		if v.Bare != "" {
			into[v.Bare] = true
		}
		if strings.HasPrefix(v.Lit, `"@`) {
			into[ref.Unq(v.Lit)] = true
		}
		for _, it := range v.List {
			rv(it)
		}
		for _, r := range v.Set {
			rv(r.Val)
		}
	}
	n.Walk(func(m *gen.Node) {
		for _, r := range m.Refs {
			into[r] = true
		}
		if m.KeyIsRef {
			into[m.Key] = true
		}
		for _, r := range m.Rules {
			rv(r.Val)
		}
	})
}

// reduceTo builds the smallest project around one node: the node as root plus
// the types / enums it (transitively) mentions.
func reduceTo(p *gen.Project, n *gen.Node) *gen.Project {
	c := *n
	c.Key, c.KeyLit, c.KeyIsRef = "", "", false
	var rules []gen.Rule
	for _, r := range c.Rules {
		if r.Name != "optional" {
			rules = append(rules, r)
		}
	}
	c.Rules = rules
	c.HasRules = len(rules) > 0
	names := map[string]bool{}
	usedNames(&c, names)
	for changed := true; changed; {
		changed = false
		for _, t := range p.Types {
			if names[t.Name] {
				before := len(names)
				usedNames(t.Node, names)
				if len(names) != before {
					changed = true
				}
			}
		}
	}
	q := &gen.Project{Root: &c}
	for _, t := range p.Types {
		if names[t.Name] {
			q.Types = append(q.Types, t)
		}
	}
	for _, t := range p.Regexes {
		if names[t.Name] {
			q.Regexes = append(q.Regexes, t)
		}
	}
	for _, t := range p.Enums {
		if names[t.Name] {
			q.Enums = append(q.Enums, t)
		}
	}
	return q
}

type c01Case struct {
	Project *gen.Project `json:"project"`
	Layout  gen.Layout   `json:"layout"`
}

// c01Judge compares Check() with the reference semantics; it returns the
// reference verdict and whether the case was conclusive.
// c01Acyclic is set while a family runs whose type graphs are acyclic by construction.
var c01Acyclic bool

func c01Judge(r *mon.Run, p *gen.Project, l gen.Layout, reduce bool) (ref.Verdict, bool) {
	r.Eval(1)
	want, findings := ref.EvalProject(p)
	pt := toTexts(p, l)
	code, msg, pn := checkProject(pt)
	cs := c01Case{p, l}
	if pn != nil {
		r.Violate("panic", "Check/"+pn.Site, fmt.Sprintf("Check() panicked (%s) on %s", pn.Value, mon.Trunc(projectKey(pt), 300)), cs)
		return want, false
	}
	if len(pt.Types) >= 2 {
		// what the files are called says nothing about the values: the same project with every text under one file
		// name is accepted or refused alike
		one := pt
		one.UseOneName, one.OneName = true, "types.jst"
		if code1, _, pn1 := checkProject(one); pn1 == nil && (code1 == 0) != (code == 0) {
			r.Violate("file-name-verdict", projectKey(pt), fmt.Sprintf("Check() answers code %d, and code %d when every text of the project is given the file name types.jst: %s", code, code1, mon.Trunc(projectKey(pt), 300)), cs)
			return want, false
		}
		r.Count("projects_also_checked_under_one_file_name", 1)
	}
	switch want {
	case ref.Viol:
		if code == 0 {
			// minimise: which violating element alone is still accepted?
			if reduce {
				for _, f := range findings {
					if f.Verdict != ref.Viol {
						continue
					}
					if q := c01ReduceAccepted(r, p, f); q != nil {
						qt := toTexts(q, gen.DefaultLayout)
						r.Violate("accepted-violating", projectKey(qt), fmt.Sprintf("Check() accepts although %s (%s)", f.Why, f.Where), c01Case{q, gen.DefaultLayout})
						return want, true
					}
				}
			}
			why := ""
			for _, f := range findings {
				if f.Verdict == ref.Viol {
					why = f.Where + ": " + f.Why
					break
				}
			}
			r.Violate("accepted-violating", projectKey(pt), "Check() accepts although "+why, cs)
		}
		return want, true
	case ref.Sat:
		if code == 0 {
			return want, true
		}
		if valueCodes[code] {
			key := projectKey(pt)
			if reduce {
				if q := c01ReduceRejected(r, p); q != nil {
					qt := toTexts(q, gen.DefaultLayout)
					key = projectKey(qt)
					cs = c01Case{q, gen.DefaultLayout}
				}
			}
			r.Violate("rejected-satisfying", key, fmt.Sprintf("Check() fails with value code %d (%s) although every example satisfies its rules", code, mon.Trunc(msg, 160)), cs)
			return want, true
		}
		if code == 1303 && c01Acyclic {
			// the grid and the shared-choice family build their types from earlier ones only and list no name twice:
			// "impossible to determine the type due to the recursion" is a false alarm there
			r.Violate("rejected-satisfying", projectKey(pt), fmt.Sprintf("Check() fails with code 1303 (%s) although no type refers back to itself and every example satisfies its rules", mon.Trunc(msg, 120)), cs)
			return want, true
		}
		r.Inconclusive(fmt.Sprintf("structural-code-%d", code))
		if r.Shard == 0 {
			r.Note(fmt.Sprintf("generated project rejected for a structural reason %d: %s :: %s", code, mon.Trunc(msg, 80), mon.Trunc(projectKey(pt), 200)))
		}
		return want, false
	}
	r.Count("reference_unspecified", 1)
	return want, false
}

func c01ReduceAccepted(r *mon.Run, p *gen.Project, f ref.Finding) *gen.Project {
	var found *gen.Project
	try := func(root *gen.Node) {
		root.Walk(func(n *gen.Node) {
			if found != nil || n.Kind == gen.KObject || n.Kind == gen.KRef {
				return
			}
			q := reduceTo(p, n)
			if n.Kind == gen.KArray {
				return
			}
			if w, _ := ref.EvalProject(q); w != ref.Viol {
				return
			}
			if code, _, pn := checkProject(toTexts(q, gen.DefaultLayout)); pn == nil && code == 0 {
				found = q
			}
		})
	}
	try(p.Root)
	for _, t := range p.Types {
		try(t.Node)
	}
	return found
}

func c01ReduceRejected(r *mon.Run, p *gen.Project) *gen.Project {
	var found *gen.Project
	try := func(root *gen.Node) {
		root.Walk(func(n *gen.Node) {
			if found != nil || n.Kind == gen.KObject || n.Kind == gen.KRef || n.Kind == gen.KArray {
				return
			}
			q := reduceTo(p, n)
			if w, _ := ref.EvalProject(q); w != ref.Sat {
				return
			}
			if code, _, pn := checkProject(toTexts(q, gen.DefaultLayout)); pn == nil && valueCodes[code] {
				found = q
			}
		})
	}
	try(p.Root)
	for _, t := range p.Types {
		try(t.Node)
	}
	return found
}

// ---- systematic grid ---------------------------------------------------------------

type leafSpec struct {
	name     string
	rules    []gen.Rule
	typeName string // builtin type the rule-set alternative needs ("integer", "float", "string")
	exemplar string // a literal satisfying the rules (used as the example of a user type carrying them)
	values   []string
}

func c01Specs() []leafSpec {
	var specs []leafSpec
	lit := func(s string) gen.RV { return gen.LitV(s) }
	bounds := []string{"0", "5", "-3", "1.5", "-0.25", "100", "0.10", "-0"}
	numVals := func(b string) (ints, floats []string) {
		d, _ := ref.ParseDec(b)
		_ = d
		f, _ := strconv.ParseFloat(b, 64)
		ip := int64(f)
		ints = []string{strconv.FormatInt(ip, 10), strconv.FormatInt(ip+1, 10), strconv.FormatInt(ip-1, 10), strconv.FormatInt(-ip, 10), "-0", "0", strconv.FormatInt(ip*1000+7, 10)}
		base := b
		if !strings.Contains(base, ".") {
			base += ".0"
		}
		floats = []string{base, base + "0", base + "00", base + "1", base + "01"}
		// one unit in the last place below
		if dd, ok := ref.ParseDec(base + "1"); ok {
			_ = dd
		}
		neg := strings.HasPrefix(base, "-")
		abs := strings.TrimPrefix(base, "-")
		if neg {
			floats = append(floats, abs, "-"+abs+"1")
		} else {
			floats = append(floats, "-"+abs, "-"+abs+"1")
		}
		floats = append(floats, "-0.0", "0.0", "0.001", "-0.001", "99999.5")
		return
	}
	for _, b := range bounds {
		ints, floats := numVals(b)
		for _, rn := range []string{"min", "max"} {
			for _, excl := range []string{"", "true", "false"} {
				rules := []gen.Rule{{Name: rn, Val: lit(b)}}
				if excl != "" {
					ex := "exclusiveMinimum"
					if rn == "max" {
						ex = "exclusiveMaximum"
					}
					rules = append(rules, gen.Rule{Name: ex, Val: lit(excl)})
				}
				exI, exF := "1000000", "1000000.5"
				if rn == "max" {
					exI, exF = "-1000000", "-1000000.5"
				}
				specs = append(specs, leafSpec{rn + " " + b + " excl=" + excl + " ints", rules, "integer", exI, ints})
				specs = append(specs, leafSpec{rn + " " + b + " excl=" + excl + " floats", rules, "float", exF, floats})
			}
		}
	}
	// bounds and values around the machine-word and float64-mantissa limits (19-21 digits and beyond)
	for _, b := range []string{"9007199254740993", "9223372036854775807", "9223372036854775808", "-9223372036854775808", "9999999999999999999", "10000000000000000000",
		"18446744073709551615", "18446744073709551616", "-18446744073709551616", "99999999999999999999", "100000000000000000000", "123456789012345678901234567890"} {
		n, _ := new(big.Int).SetString(b, 10)
		one := big.NewInt(1)
		ints := []string{b, new(big.Int).Add(n, one).String(), new(big.Int).Sub(n, one).String(), new(big.Int).Neg(n).String(), "0", "1",
			"10000000000000000000", "20000000000000000000", "18446744073709551615", "18446744073709551616", "36893488147419103232", "9223372036854775808", "99999999999999999999"}
		floats := []string{b + ".0", b + ".5", new(big.Int).Sub(n, one).String() + ".99", b + ".00", "0.5", "18446744073709551616.5"}
		for _, rn := range []string{"min", "max"} {
			for _, excl := range []string{"", "true"} {
				rules := []gen.Rule{{Name: rn, Val: lit(b)}}
				if excl != "" {
					rules = append(rules, gen.Rule{Name: map[string]string{"min": "exclusiveMinimum", "max": "exclusiveMaximum"}[rn], Val: lit(excl)})
				}
				exI, exF := "1"+strings.Repeat("0", 40), "1"+strings.Repeat("0", 40)+".5"
				if rn == "max" {
					exI, exF = "-"+exI, "-"+exF
				}
				specs = append(specs, leafSpec{rn + " " + b + " excl=" + excl + " big ints", rules, "integer", exI, ints})
				specs = append(specs, leafSpec{rn + " " + b + " excl=" + excl + " big floats", rules, "float", exF, floats})
			}
		}
	}
	// both bounds, both exclusivity flags, values on and next to both bounds
	for _, lo := range []string{"1", "-2.5"} {
		for _, hi := range []string{"5", "2.50"} {
			for _, el := range []string{"true", "false"} {
				for _, eh := range []string{"true", "false"} {
					rules := []gen.Rule{{Name: "min", Val: lit(lo)}, {Name: "exclusiveMinimum", Val: lit(el)}, {Name: "max", Val: lit(hi)}, {Name: "exclusiveMaximum", Val: lit(eh)}}
					specs = append(specs, leafSpec{"min " + lo + " excl=" + el + " max " + hi + " excl=" + eh + " ints", rules, "integer", "2", []string{"1", "5", "2", "0", "6", "-2", "-3"}})
					specs = append(specs, leafSpec{"min " + lo + " excl=" + el + " max " + hi + " excl=" + eh + " floats", rules, "float", "1.5", []string{"1.0", "5.0", "2.5", "2.50", "2.51", "-2.5", "-2.50", "-2.51", "1.5"}})
				}
			}
		}
	}
	for _, n := range []int{0, 1, 3} {
		var vals []string
		for _, l := range []int{n - 1, n, n + 1, n + 5} {
			if l >= 0 {
				vals = append(vals, gen.Q(strings.Repeat("x", l)))
			}
		}
		for _, unit := range []string{"é", "😀", "€"} {
			for _, l := range []int{n - 1, n, n + 1} {
				if l >= 0 {
					vals = append(vals, gen.Q(strings.Repeat(unit, l)))
				}
			}
		}
		vals = append(vals, gen.Q("ab€"), gen.Q("aé"))
		specs = append(specs, leafSpec{fmt.Sprintf("minLength %d", n), []gen.Rule{{Name: "minLength", Val: lit(strconv.Itoa(n))}}, "string", gen.Q(strings.Repeat("y", n+2)), vals})
		specs = append(specs, leafSpec{fmt.Sprintf("maxLength %d", n), []gen.Rule{{Name: "maxLength", Val: lit(strconv.Itoa(n))}}, "string", gen.Q(strings.Repeat("y", n)), vals})
	}
	for _, big := range []string{"18446744073709551615", "18446744073709551616", "18446744073709551617", "18446744073709551619", "9223372036854775808", "10000000000000000000", "36893488147419103232", "99999999999999999999999999"} {
		specs = append(specs, leafSpec{"minLength " + big, []gen.Rule{{Name: "minLength", Val: lit(big)}}, "string", gen.Q("yyy"), []string{gen.Q(""), gen.Q("abc"), gen.Q("a")}})
		specs = append(specs, leafSpec{"maxLength " + big, []gen.Rule{{Name: "maxLength", Val: lit(big)}}, "string", gen.Q("yyy"), []string{gen.Q(""), gen.Q("abc"), gen.Q("a"), gen.Q(strings.Repeat("é€", 40))}})
	}
	for _, ps := range gen.Patterns {
		var vals []string
		for _, s := range append(append([]string{}, ps.Match...), ps.Miss...) {
			vals = append(vals, gen.Q(s))
			if len(s) > 0 && s[0] < 0x80 { // the same string with its first character written as a \u escape
				vals = append(vals, fmt.Sprintf(`"\u%04x%s`, s[0], gen.Q(s[1:])[1:]))
			}
		}
		specs = append(specs, leafSpec{"regex " + ps.Pat, []gen.Rule{{Name: "regex", Val: lit(gen.Q(ps.Pat))}}, "string", gen.Q(ps.Match[0]), vals})
	}
	for _, p := range []int{1, 2, 3} {
		// incl. values of other JSON kinds: behind a type reference or inside an or rule-set nothing but the rule itself
		// stands between them and acceptance
		vals := []string{"1.5", "1.25", "1.125", "1.1255", "-0.5", "2.50", "2.500", "0.0", "3.10", "3.1000", `"abc"`, `"1.5"`, `"1.125"`, "true", "null", `""`}
		specs = append(specs, leafSpec{fmt.Sprintf("precision %d", p), []gen.Rule{{Name: "precision", Val: lit(strconv.Itoa(p))}}, "decimal", "7.5", vals})
	}
	fm := map[string][2][]string{"email": {gen.ValidEmails, gen.InvalidEmails}, "uri": {gen.ValidURIs, gen.InvalidURIs}, "uuid": {gen.ValidUUIDs, gen.InvalidUUIDs},
		"date": {gen.ValidDates, gen.InvalidDates}, "datetime": {gen.ValidDTs, gen.InvalidDTs}}
	for _, f := range []string{"email", "uri", "uuid", "date", "datetime"} {
		var vals []string
		for _, s := range append(append([]string{}, fm[f][0]...), fm[f][1]...) {
			vals = append(vals, gen.Q(s))
		}
		specs = append(specs, leafSpec{"format " + f, []gen.Rule{{Name: "type", Val: lit(gen.Q(f))}}, "", gen.Q(fm[f][0][0]), vals})
	}
	enumSets := [][]string{{"1", `"1"`, "true"}, {`"a"`, `"b"`}, {"null", "2.5", `"x"`}, {`"ab"`, "7"}}
	for _, es := range enumSets {
		var items []gen.RV
		for _, it := range es {
			items = append(items, lit(it))
		}
		vals := []string{"1", `"1"`, "true", "false", `"a"`, `"ab"`, "null", "2.5", "2.50", `"x"`, "7", "1.0", `"a"`, `"null"`}
		specs = append(specs, leafSpec{"enum [" + strings.Join(es, ",") + "]", []gen.Rule{{Name: "enum", Val: gen.ListOf(items...)}}, "enum", es[0], vals})
	}
	for _, ex := range []string{"5", `"abc"`, "true", "1.5", "null"} {
		vals := []string{"5", "6", `"abc"`, `"abd"`, "true", "false", "1.5", "1.50", "null", `"5"`}
		specs = append(specs, leafSpec{"const " + ex, []gen.Rule{{Name: "const", Val: lit("true")}}, "", ex, vals})
	}
	// const on a type that admits every JSON kind (an enum that lists the literal and the string spelling it, or
	// type "any"): the value must be the literal itself, not a string that spells it, and the other way round
	for _, pair := range [][2]string{{"5", `"5"`}, {"true", `"true"`}, {"null", `"null"`}, {"1.5", `"1.5"`}, {"false", `"false"`}, {"-0", `"-0"`}} {
		for _, ex := range []string{pair[0], pair[1]} {
			vals := []string{pair[0], pair[1], "6", `"abc"`, "true", "null", `""`}
			specs = append(specs, leafSpec{"const+enum " + ex, []gen.Rule{{Name: "enum", Val: gen.ListOf(lit(pair[0]), lit(pair[1]), lit("6"), lit(`"abc"`))}, {Name: "const", Val: lit("true")}}, "enum", ex, vals})
			specs = append(specs, leafSpec{"const+any " + ex, []gen.Rule{{Name: "type", Val: lit(`"any"`)}, {Name: "const", Val: lit("true")}}, "any", ex, vals})
		}
	}
	return specs
}

// placements wraps a (rules, value) pair into projects.
func c01Placements(s leafSpec, v string) []*gen.Project {
	leaf := func(rules []gen.Rule) *gen.Node {
		n := &gen.Node{Kind: gen.KindOfLiteral(v), Lit: v, Rules: rules, HasRules: len(rules) > 0}
		return n
	}
	exemplarNode := func() *gen.Node {
		return &gen.Node{Kind: gen.KindOfLiteral(s.exemplar), Lit: s.exemplar, Rules: s.rules, HasRules: true}
	}
	var out []*gen.Project
	isConst := strings.HasPrefix(s.name, "const")
	if !isConst {
		out = append(out, &gen.Project{Root: leaf(s.rules)})                                      // direct
		out = append(out, &gen.Project{Root: gen.Obj(leaf(s.rules).K("k"), gen.Int("1").K("z"))}) // as an object member
		out = append(out, &gen.Project{Root: gen.Arr(gen.Str("pad"), leaf(s.rules))})             // as an array item
		nl := append(append([]gen.Rule{}, s.rules...), gen.Rule{Name: "nullable", Val: gen.LitV("true")})
		out = append(out, &gen.Project{Root: leaf(nl)}) // nullable must not weaken the rules for non-null values
	}
	typeT := gen.NamedNode{Name: "@t", Node: exemplarNode()}
	strT := gen.NamedNode{Name: "@s", Node: gen.Obj(gen.Int("1").K("q"))}
	refRule := []gen.Rule{{Name: "type", Val: gen.LitV(`"@t"`)}}
	out = append(out, &gen.Project{Root: leaf(refRule), Types: []gen.NamedNode{typeT}}) // via type: "@t"
	out = append(out, &gen.Project{Root: leaf([]gen.Rule{{Name: "or", Val: gen.ListOf(gen.LitV(`"@t"`), gen.LitV(`"@s"`))}}), Types: []gen.NamedNode{typeT, strT}})
	out = append(out, &gen.Project{Root: leaf([]gen.Rule{{Name: "type", Val: gen.LitV(`"@u"`)}}),
		Types: []gen.NamedNode{typeT, {Name: "@u", Node: &gen.Node{Kind: gen.KindOfLiteral(s.exemplar), Lit: s.exemplar, Rules: refRule, HasRules: true}}}}) // type of type
	out = append(out, &gen.Project{Root: leaf([]gen.Rule{{Name: "type", Val: gen.LitV(`"@c"`)}}),
		Types: []gen.NamedNode{typeT, strT, {Name: "@c", Node: gen.Ref("@s", "@t")}}}) // via a choice type
	for _, rs := range [][]gen.Rule{{{Name: "type", Val: gen.LitV(`"@t"`)}}, {{Name: "type", Val: gen.LitV(`"@t"`)}, {Name: "nullable", Val: gen.LitV("true")}}, {{Name: "nullable", Val: gen.LitV("true")}, {Name: "type", Val: gen.LitV(`"@t"`)}}} {
		out = append(out, &gen.Project{Root: leaf([]gen.Rule{{Name: "or", Val: gen.ListOf(gen.SetOf(rs...), gen.SetOf(gen.Rule{Name: "type", Val: gen.LitV(`"object"`)}))}}), Types: []gen.NamedNode{typeT}}) // via an or rule-set naming the type
	}
	if s.typeName != "" && s.typeName != "enum" && !isConst {
		set := append([]gen.Rule{{Name: "type", Val: gen.LitV(gen.Q(s.typeName))}}, s.rules...)
		out = append(out, &gen.Project{Root: leaf([]gen.Rule{{Name: "or", Val: gen.ListOf(gen.SetOf(set...), gen.SetOf(gen.Rule{Name: "type", Val: gen.LitV(`"object"`)}))}})})
	}
	return out
}

// c01TwinTypes: two types whose texts have the same length and carry an or of rule-sets at the same place, with
// different bounds; the root holds one value of each (through c01Judge also with every text under one file name).
func c01TwinTypes(r *mon.Run) {
	orOf := func(rule, bound string) gen.RV {
		return gen.ListOf(gen.SetOf(gen.Rule{Name: "type", Val: gen.LitV(`"integer"`)}, gen.Rule{Name: rule, Val: gen.LitV(bound)}), gen.SetOf(gen.Rule{Name: "type", Val: gen.LitV(`"string"`)}))
	}
	for _, tw := range []struct{ exA, ruleA, boundA, exB, ruleB, boundB string }{
		{"12", "min", "1", "-5", "max", "0"}, {"-5", "max", "0", "12", "min", "1"}, {"5", "min", "1", "5", "min", "9"}, {"5", "min", "9", "5", "min", "1"},
		{"3", "max", "5", "7", "max", "5"}, {"7", "min", "5", "7", "max", "5"},
	} {
		a := (&gen.Node{Kind: gen.KInt, Lit: tw.exA}).RVal("or", orOf(tw.ruleA, tw.boundA))
		b := (&gen.Node{Kind: gen.KInt, Lit: tw.exB}).RVal("or", orOf(tw.ruleB, tw.boundB))
		for _, root := range []*gen.Node{
			gen.Obj(gen.Ref("@a").K("a"), gen.Ref("@b").K("b")),
			gen.Obj((&gen.Node{Kind: gen.KInt, Lit: tw.exA}).R("type", `"@a"`).K("a"), (&gen.Node{Kind: gen.KInt, Lit: tw.exB}).R("type", `"@b"`).K("b")),
			gen.Obj((&gen.Node{Kind: gen.KInt, Lit: tw.exB}).R("type", `"@a"`).K("a"), (&gen.Node{Kind: gen.KInt, Lit: tw.exA}).R("type", `"@b"`).K("b")),
		} {
			p := &gen.Project{Root: root, Types: []gen.NamedNode{{Name: "@a", Node: a}, {Name: "@b", Node: b}}}
			if _, ok := c01Judge(r, p, gen.DefaultLayout, false); ok {
				r.Nontrivial("twins", projectKey(toTexts(p, gen.DefaultLayout)))
			}
			r.Count("twin_type_projects", 1)
		}
	}
}

// c01ContainerUnderOr holds the pinned witnesses of a recorded finding: the rules of an `or` alternative are not applied
// to an example that is a container (the kinds are compared, minItems / maxItems are not). Scalars under the same
// rule are judged by the grid.
func c01ContainerUnderOr(r *mon.Run) {
	for _, w := range []struct{ text, why string }{
		{`[] // {or: [{type: "array", minItems: 1}, "string"]}`, "the empty array has fewer than 1 item and is no string"},
	} {
		r.Eval(1)
		var err error
		if p := mon.Guard(func() {
			sch, berr := (project{Root: w.text}).build()
			if err = berr; err == nil {
				err = sch.Check()
			}
		}); p != nil {
			r.Violate("panic", "container under or/"+p.Site, "panic: "+p.Value, map[string]any{"text": w.text})
			continue
		}
		if err == nil {
			r.Violate("accepted-violating", "an array example under an or alternative with minItems", fmt.Sprintf("Check() accepts %s although %s", w.text, w.why), map[string]any{"text": w.text})
		}
	}
}

func c01Run(r *mon.Run) {
	if r.Shard == 0 {
		c01ContainerUnderOr(r)
		c01TwinTypes(r)
	}
	// (1) the grid, enumerated completely
	c01Acyclic = true
	idx := 0
	gridCases := 0
	for _, s := range c01Specs() {
		for _, v := range s.values {
			for _, p := range c01Placements(s, v) {
				if r.Mine(idx) {
					w, ok := c01Judge(r, p, gen.DefaultLayout, true)
					if ok {
						r.Nontrivial("grid", projectKey(toTexts(p, gen.DefaultLayout)))
						r.Count("grid_reference_"+w.String(), 1)
					}
					gridCases++
					if gridCases%400 == 1 {
						r.Sample(map[string]any{"kind": "grid", "spec": s.name, "project": projectKey(toTexts(p, gen.DefaultLayout)), "reference": w.String()})
					}
				}
				idx++
			}
		}
	}
	r.Count("grid_cases_this_shard", int64(gridCases))
	c01Acyclic = false
	// (2) random projects
	rng := r.Rand("c01")
	n := r.Share(r.Pick(150_000, 4_000_000))
	for i := 0; i < n; i++ {
		p := gen.GenProject(rng, true, false)
		l := gen.DefaultLayout
		if rng.IntN(4) == 0 {
			l = gen.RandLayout(rng)
		}
		w, ok := c01Judge(r, p, l, true)
		if ok {
			r.Nontrivial("rnd", projectKey(toTexts(p, gen.DefaultLayout)))
			r.Count("random_reference_"+w.String(), 1)
		}
		if i < 2 {
			r.Sample(map[string]any{"kind": "random", "project": projectKey(toTexts(p, l)), "reference": w.String()})
		}
	}
	// (3) several values in one schema judged against choice types that share alternatives (@a = @c | @i,
	// @b = @c | @t, @d = @a | @t ...): the verdict of one value must not depend on which values were judged before it
	c01Acyclic = true
	leaves := []gen.NamedNode{
		{Name: "@c", Node: gen.Str("abc").R("minLength", "2")},
		{Name: "@i", Node: gen.Int("5").R("min", "0")},
		{Name: "@t", Node: &gen.Node{Kind: gen.KBool, Lit: "true"}},
		{Name: "@f", Node: &gen.Node{Kind: gen.KFloat, Lit: "1.5"}},
		{Name: "@n", Node: gen.Int("-5").R("max", "-1")},
	}
	examples := []string{`"xyz"`, `"x"`, "7", "-7", "true", "2.25", "0", `"ab"`, "null", "false"}
	nm := r.Share(r.Pick(12_000, 300_000))
	for i := 0; i < nm; i++ {
		p := &gen.Project{Types: append([]gen.NamedNode(nil), leaves...)}
		var names []string
		reach := map[string][]string{} // leaves behind a name
		for _, l := range leaves {
			names = append(names, l.Name)
			reach[l.Name] = []string{l.Name}
		}
		// alias types: a scalar of the leaf's kind whose rule is type: "@leaf" (two aliases of one leaf make a diamond)
		aliasEx := map[string]string{"@c": `"xyz"`, "@i": "7", "@t": "false", "@f": "2.25", "@n": "-7"}
		for k, na := 0, rng.IntN(3); k < na; k++ {
			l := leaves[rng.IntN(len(leaves))].Name
			name := fmt.Sprintf("@y%d", k)
			ex := aliasEx[l]
			p.Types = append(p.Types, gen.NamedNode{Name: name, Node: (&gen.Node{Kind: gen.KindOfLiteral(ex), Lit: ex}).R("type", gen.Q(l))})
			names = append(names, name)
			reach[name] = []string{l}
		}
		for k, nc := 0, 2+rng.IntN(4); k < nc; k++ { // choice types over what exists so far (earlier choices included)
			a, b := names[rng.IntN(len(names))], names[rng.IntN(len(names))]
			if a == b {
				continue
			}
			name := fmt.Sprintf("@x%d", k)
			alts := []string{a, b}
			if rng.IntN(4) == 0 {
				if c := names[rng.IntN(len(names))]; c != a && c != b {
					alts = append(alts, c)
				}
			}
			p.Types = append(p.Types, gen.NamedNode{Name: name, Node: gen.Ref(alts...)})
			names = append(names, name)
			for _, a := range alts {
				reach[name] = append(reach[name], reach[a]...)
			}
		}
		var members []*gen.Node
		for k, nv := 0, 2+rng.IntN(4); k < nv; k++ {
			ex := examples[rng.IntN(len(examples))]
			t1, t2 := names[rng.IntN(len(names))], names[rng.IntN(len(names))]
			for t2 == t1 { // a name listed twice is refused as a recursion (1303) whatever the example is
				t2 = names[rng.IntN(len(names))]
			}
			if rng.IntN(5) != 0 { // mostly a value that fits one of the leaves behind the first name
				fits := map[string][]string{"@c": {`"xyz"`, `"ab"`}, "@i": {"7", "0"}, "@t": {"true", "false"}, "@f": {"2.25"}, "@n": {"-7"}}
				l := reach[t1][rng.IntN(len(reach[t1]))]
				ex = fits[l][rng.IntN(len(fits[l]))]
			}
			n := &gen.Node{Kind: gen.KindOfLiteral(ex), Lit: ex}
			switch rng.IntN(4) {
			case 0:
				n.R("type", gen.Q(t1))
			case 1:
				n.RVal("or", gen.ListOf(gen.LitV(gen.Q(t1)), gen.LitV(gen.Q(t2))))
			case 2:
				n.RVal("or", gen.ListOf(gen.SetOf(gen.Rule{Name: "type", Val: gen.LitV(gen.Q(t1))}), gen.LitV(gen.Q(t2))))
			default:
				n.RVal("or", gen.ListOf(gen.LitV(gen.Q(t1)), gen.LitV(`"object"`)))
			}
			members = append(members, n.K(fmt.Sprintf("m%d", k)))
		}
		p.Root = gen.Obj(members...)
		w, ok := c01Judge(r, p, gen.DefaultLayout, true)
		if ok {
			r.Nontrivial("multi", projectKey(toTexts(p, gen.DefaultLayout)))
			r.Count("multi_value_reference_"+w.String(), 1)
		}
		if i == 0 {
			r.Sample(map[string]any{"kind": "several values over shared choice types", "project": projectKey(toTexts(p, gen.DefaultLayout)), "reference": w.String()})
		}
	}
}

func init() {
	register(&mon.CheckDef{
		ID:  "C01",
		Run: c01Run,
		Replay: func(r *mon.Run, raw stdjson.RawMessage) {
			var c c01Case
			if stdjson.Unmarshal(raw, &c) == nil && c.Project != nil {
				c01Judge(r, c.Project, c.Layout, false)
			}
		},
		Rule:               "projects (root + user types + regex types + enum rules) are built from a rule/type compatibility table so that they are structurally valid, printed to text and given to Check(); an independent evaluator (exact decimals, Go regexp, calendar checks, labelled email/uri pools) computes for every example value whether it satisfies the rules written next to it, directly or through type references / or alternatives / choice types / named enums. Grid (complete): every rule kind (min/max x exclusivity x 8 bounds, plus 12 bounds of 16-30 digits around 2^53, 2^63, 2^64, 10^19, 10^20 with values on, next to and far from them, minLength/maxLength, regex, precision, 5 formats, enum sets, const) x every boundary value class x 12 placements (direct, object member, array item, with nullable, via type:\"@t\", via or of user types, via type of type, via a choice type, via or rule-sets {type:\"@t\"} / {type:\"@t\", nullable:true} in both orders, via an or rule-set with the rules inline). Random: generated projects with values drawn next to their bounds; objects of 2-5 values referring (type / or / or rule-set) to choice types that share alternatives. A case is non-trivial when the reference verdict is satisfies or violates (not unspecified) and the library's answer was judged; distinct by printed text (hashed).",
		MinNontrivialQuick: 20000, MinNontrivialThorough: 300000,
		MaxInconclusiveFrac: 0.10,
		Assumptions: []string{"reference evaluator harness/internal/ref/eval.go written from the property statement and README wording; corners the documentation leaves open are 'unspecified' and never produce a violation (byte vs rune length, numbers equal in value but not in text, integer literal under type float, null example under an explicit non-null type with nullable, trailing zeros deciding precision, email/uri outside labelled pools)",
			"a generated project rejected with a non-value code is inconclusive (generator/table mismatch), counted, and the run is declared broken above 10 %"},
		Exhaustive: "the rule-kind x boundary-class x placement grid",
	})
}
