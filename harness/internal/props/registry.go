// Package props wires workloads and oracles per property.
package props

import (
	"fmt"
	"os"

	"verifharness/internal/mon"
)

var registry = map[string]*mon.CheckDef{}

func register(d *mon.CheckDef) { registry[d.ID] = d }

// Get returns the check for a property id.
func Get(id string) *mon.CheckDef { return registry[id] }

var children = map[string]func(args []string) int{}

// Child dispatches helper-process modes.
func Child(args []string) int {
	if len(args) == 0 {
		return 2
	}
	f := children[args[0]]
	if f == nil {
		fmt.Fprintln(os.Stderr, "unknown child mode", args[0])
		return 2
	}
	return f(args[1:])
}
