package props

import (
	stdjson "encoding/json"
	"errors"
	"fmt"
	"hash/fnv"
	"math/rand/v2"
	"regexp"
	"regexp/syntax"
	"strings"

	"github.com/jsightapi/jsight-schema-core/fs"
	"github.com/jsightapi/jsight-schema-core/kit"
	"github.com/jsightapi/jsight-schema-core/notations/jschema"
	"github.com/jsightapi/jsight-schema-core/notations/regex"
	"github.com/jsightapi/jsight-schema-core/openapi"

	"verifharness/internal/gen"
	"verifharness/internal/mon"
)

// ---- oracle: delimiter scan ---------------------------------------------------

// c18Closers returns the index of every '/' behind the opening one that is
// preceded by an even number of backslashes.
func c18Closers(t string) []int {
	var out []int
	for i := 1; i < len(t); i++ {
		if t[i] != '/' {
			continue
		}
		n := 0
		for j := i - 1; j >= 1 && t[j] == '\\'; j-- {
			n++
		}
		if n%2 == 0 {
			out = append(out, i)
		}
	}
	return out
}

var c18Addr = regexp.MustCompile(`0x[0-9a-f]{6,}`)
var c18Digits = regexp.MustCompile(`[0-9]+`)

// c18Err renders an error without heap addresses.
func c18Err(err error) string {
	if err == nil {
		return "<nil>"
	}
	msg := ""
	if p := mon.Guard(func() { msg = err.Error() }); p != nil {
		return "<Error() panicked: " + p.Value + ">"
	}
	msg = strings.Join(strings.Fields(c18Addr.ReplaceAllString(msg, "0xADDR")), " ")
	return mon.Trunc(msg, 240)
}

// c18Reports bounds what this worker hands to the monitor: each (clause, key)
// once, and at most 64 keys per clause (the monitor keeps six witnesses per
// clause and shard, and counts repeats of one key against those six); the rest
// is counted. Without it a family such as "every text starting with //" would
// make the monitor's duplicate table grow with the enumeration, and a frequent
// panic site would use up the witnesses of the rarer ones.
var c18Reports = map[string]int{}
var c18Reported = map[string]bool{}

const c18MaxReports = 64

// c18Full tells whether further reports under this clause are only counted.
func c18Full(r *mon.Run, clause string) bool {
	if c18Reports[clause] >= c18MaxReports {
		r.Count("violations_beyond_the_first_64_keys_of_this_worker:"+clause, 1)
		return true
	}
	return false
}

func c18Violate(r *mon.Run, clause, key string, cs c18Case, format string, args ...any) {
	id := clause + "\x00" + key
	if c18Reported[id] {
		r.Count("repeated_reports:"+clause, 1)
		return
	}
	if c18Full(r, clause) {
		return
	}
	c18Reports[clause]++
	c18Reported[id] = true
	r.Violate(clause, key, fmt.Sprintf(format, args...), cs)
}

// c18HasAssertion tells whether the pattern contains an empty-width assertion (^ $ \A \z \b \B).
func c18HasAssertion(pattern string) bool {
	re, err := syntax.Parse(pattern, syntax.Perl)
	if err != nil {
		return false
	}
	var walk func(x *syntax.Regexp) bool
	walk = func(x *syntax.Regexp) bool {
		switch x.Op {
		case syntax.OpBeginLine, syntax.OpEndLine, syntax.OpBeginText, syntax.OpEndText, syntax.OpWordBoundary, syntax.OpNoWordBoundary:
			return true
		}
		for _, sub := range x.Sub {
			if walk(sub) {
				return true
			}
		}
		return false
	}
	return walk(re)
}

var c18Categories = map[string]bool{}

// c18Category is the error message without position, source line and numbers
// (at most 12 different ones per worker, then "other").
func c18Category(err error) string {
	m := c18Err(err)
	if i := strings.Index(m, " in line "); i > 0 {
		m = m[:i]
	}
	if i := strings.Index(m, "={"); i > 0 { // struct dump of a wrapped error
		m = m[:i]
	}
	m = mon.Trunc(c18Digits.ReplaceAllString(m, "N"), 100)
	if !c18Categories[m] {
		if len(c18Categories) >= 12 {
			return "other"
		}
		c18Categories[m] = true
	}
	return m
}

// c18Plain tells whether v can be written between double quotes as it is.
func c18Plain(v string) bool {
	for i := 0; i < len(v); i++ {
		if v[i] < 0x20 || v[i] > 0x7e || v[i] == '"' || v[i] == '\\' {
			return false
		}
	}
	return true
}

type c18Case struct {
	Text    []byte   `json:"text"`
	Probes  []string `json:"probes,omitempty"`
	Witness []string `json:"witness,omitempty"`
}

// c18Pool holds the probe strings for enumerated texts.
var c18Pool = []string{"", "a", "1", ",", "-", "aa", "a1", "1a", "11", "a-1", "1,1", "aaa", "a1a", "x", "(a)", "[a]", "{1}", "a|1", "^a$", ".", "*", "+", "?", "a,", "1}", "--", "{a,1}", "xax", "$", "a.1"}

// c18PoolProbes picks up to each matching and each non-matching pool strings
// (start position rotated by the text) and the given extra string.
func c18PoolProbes(re *regexp.Regexp, text string, extra string, each int) []string {
	h := fnv.New32a()
	h.Write([]byte(text))
	off := int(h.Sum32() % uint32(len(c18Pool)))
	var out []string
	if extra != "" && c18Plain(extra) && len(extra) <= 64 {
		out = append(out, extra)
	}
	yes, no := 0, 0
	for i := range c18Pool {
		v := c18Pool[(off+i)%len(c18Pool)]
		if v == extra {
			continue
		}
		if re.MatchString(v) {
			if yes < each {
				yes++
				out = append(out, v)
			}
		} else if no < each {
			no++
			out = append(out, v)
		}
		if yes == each && no == each {
			break
		}
	}
	return out
}

// c18Witness looks for some string the pattern matches: the given candidates,
// then every string of up to three symbols over the pattern's own runes plus a, 1.
func c18Witness(re *regexp.Regexp, pattern string, cands []string) (string, bool) {
	for _, c := range cands {
		if re.MatchString(c) {
			return c, true
		}
	}
	var syms []string
	seen := map[rune]bool{}
	for _, ru := range pattern + "a1" {
		if !seen[ru] && len(syms) < 10 {
			seen[ru] = true
			syms = append(syms, string(ru))
		}
	}
	if re.MatchString("") {
		return "", true
	}
	found, w := false, ""
	gen.Tokens(syms, 3, func(s []byte, n int) bool {
		if found {
			return false
		}
		if re.Match(s) {
			found, w = true, string(s)
			return false
		}
		return true
	})
	return w, found
}

// ---- the monitor ---------------------------------------------------------------

// c18Text judges one schema text. probes == nil: derive probe strings from the
// pool. witness: strings believed to match (generated by construction).
// c18Pinned is set while the pinned witnesses of recorded findings are judged (no carve-outs).
var c18Pinned bool

func c18Text(r *mon.Run, text string, probes []string, witness []string) (accepted bool) {
	r.Eval(1)
	cs := c18Case{Text: []byte(text), Probes: probes, Witness: witness}
	q := fmt.Sprintf("%q", mon.Trunc(text, 100))

	// reference verdict
	var closers []int
	if len(text) > 0 && text[0] == '/' {
		closers = c18Closers(text)
	}
	want := false
	pattern := ""
	var re *regexp.Regexp
	if len(closers) > 0 {
		pattern = text[1:closers[0]]
		var cerr error
		re, cerr = regexp.Compile(pattern)
		want = cerr == nil
		r.Nontrivial("t", text)
	}

	// library verdict
	rs := regex.New("r", text)
	var err error
	if p := mon.Guard(func() { err = rs.Check() }); p != nil {
		c18Violate(r, "panic", "RSchema.Check/"+p.Site, cs, "regex.New(%s).Check() panicked: %s", q, p.Value)
		return false
	}
	accepted = err == nil
	if accepted != want {
		if accepted && len(closers) > 1 {
			// open corner: with several unescaped slashes the text does not say which one closes
			for _, c := range closers[1:] {
				if _, e := regexp.Compile(text[1:c]); e == nil {
					r.Count("not_judged:accepted_under_a_later_closing_slash", 1)
					return accepted
				}
			}
		}
		clause := "accept"
		if len(closers) > 0 && want && pattern == "" {
			clause = "accept-empty-pattern"
		}
		if c18Full(r, clause) {
			return accepted
		}
		why := "no '/' at the start"
		switch {
		case len(text) > 0 && text[0] == '/' && len(closers) == 0:
			why = "no later unescaped '/'"
		case len(closers) > 0 && want && pattern == "":
			why = "the text between the delimiters is the empty regular expression, which compiles"
		case len(closers) > 0 && want:
			why = fmt.Sprintf("the text between the delimiters, %q, compiles", mon.Trunc(pattern, 80))
		case len(closers) > 0:
			why = fmt.Sprintf("the text between the delimiters, %q, does not compile", mon.Trunc(pattern, 80))
		}
		c18Violate(r, clause, text, cs, "Check() on %s: accepted=%v (%s); delimiter scan + regexp say %v: %s", q, accepted, c18Err(err), want, why)
		return accepted
	}
	if !accepted {
		r.Count("rejected", 1)
		c18Rejection(r, text, q, err, cs)
		// a rejected schema is rejected by every entry point, on the object that was checked and on fresh ones,
		// in either order of calls
		var accepting []string
		if p := mon.Guard(func() {
			fresh := regex.FromFile(fs.NewFile("r", []byte(text))) // the other public constructor
			if n, e := fresh.Len(); e == nil {
				accepting = append(accepting, fmt.Sprintf("Len() on a fresh object = %d", n))
			}
			if e := fresh.Check(); e == nil {
				accepting = append(accepting, "Check() after Len() on that object")
			}
			if n, e := rs.Len(); e == nil {
				accepting = append(accepting, fmt.Sprintf("Len() after the failed Check() = %d", n))
			}
			if _, e := rs.Pattern(); e == nil {
				accepting = append(accepting, "Pattern() after the failed Check()")
			}
			if _, e := rs.GetAST(); e == nil {
				accepting = append(accepting, "GetAST() after the failed Check()")
			}
			if _, e := rs.Example(); e == nil {
				accepting = append(accepting, "Example() after the failed Check()")
			}
			if e := rs.Check(); e == nil {
				accepting = append(accepting, "a second Check()")
			}
			if _, e := regex.New("r", text).GetAST(); e == nil {
				accepting = append(accepting, "GetAST() on a fresh object")
			}
			if _, e := regex.New("r", text).Example(); e == nil {
				accepting = append(accepting, "Example() on a fresh object")
			}
		}); p != nil {
			c18Violate(r, "panic", "RSchema(rejected)/"+p.Site, cs, "an entry point panicked on the rejected text %s: %s", q, p.Value)
		} else if len(accepting) > 0 {
			c18Violate(r, "reject-agree", text, cs, "Check() rejects %s (%s), yet these calls report no error: %s", q, c18Err(err), strings.Join(accepting, "; "))
		}
		return false
	}
	r.Count("accepted", 1)

	// Len
	var ln uint
	var lerr error
	if p := mon.Guard(func() { ln, lerr = rs.Len() }); p != nil {
		c18Violate(r, "panic", "RSchema.Len/"+p.Site, cs, "Len() of %s panicked: %s", q, p.Value)
	} else if lerr != nil || int(ln) != closers[0]+1 {
		c18Violate(r, "len", text, cs, "Len() of %s = %d (%s); the closing '/' is at index %d, so the delimited length is %d", q, ln, c18Err(lerr), closers[0], closers[0]+1)
	}

	// AST
	var astVal string
	var aerr error
	if p := mon.Guard(func() {
		an, e := rs.GetAST()
		astVal, aerr = an.Value, e
	}); p != nil {
		c18Violate(r, "panic", "RSchema.GetAST/"+p.Site, cs, "GetAST() of %s panicked: %s", q, p.Value)
	} else if aerr != nil || astVal != "/"+pattern+"/" {
		c18Violate(r, "ast-pattern", text, cs, "GetAST().Value of %s = %q (%s), expected %q", q, mon.Trunc(astVal, 100), c18Err(aerr), mon.Trunc("/"+pattern+"/", 100))
	}

	// Enumerated texts with more than one symbol behind the closing delimiter:
	// the same pattern is enumerated with shorter tails, so the two expensive
	// clauses (example, user type) are judged on every eighth of them only.
	light := false
	tail := text[closers[0]+1:]
	longTail := len(tail) > 1 && tail != "\xc3\xa9"
	if probes == nil && longTail {
		h := fnv.New32a()
		h.Write([]byte(text))
		light = h.Sum32()%8 != 0
	}

	// Example (fresh object: the generator is stateful)
	var ex []byte
	var eerr error
	example := ""
	badExample := false
	noExample := false
	if light {
		r.Count("enumerated_long_tail_texts_judged_without_example_and_user_type", 1)
	} else if p := mon.Guard(func() { ex, eerr = regex.New("r", text).Example() }); p != nil {
		c18Violate(r, "panic", "RSchema.Example/"+p.Site, cs, "Example() of %s panicked: %s", q, p.Value)
	} else if eerr != nil {
		if w, ok := c18Witness(re, pattern, witness); ok {
			switch {
			case !c18Pinned && c18HasAssertion(pattern) && strings.Contains(eerr.Error(), "no matching example found"):
				// recorded finding family: the example generator (third-party reggen) ignores ^ $ \b \B, so for
				// patterns whose match hinges on such an assertion no example is found; pinned witness: /\b/
				r.Count("carved_out_assertion_pattern_without_example", 1)
				noExample = true
			case !c18Pinned && strings.Contains(eerr.Error(), "invalid argument to Intn"):
				// recorded finding family: the generator fails on an empty character class; pinned witness: /a[^\W\w]|b/
				r.Count("carved_out_empty_class_pattern_without_example", 1)
				noExample = true
			default:
				c18Violate(r, "example-match", text, cs, "Example() of the accepted schema %s failed (%s) although the pattern matches e.g. %q", q, c18Err(eerr), mon.Trunc(w, 80))
				noExample = true
			}
		} else {
			// no matching string known: possibly nothing matches at all, then there is no example to give
			r.Count("not_judged:example_error_and_no_matching_string_found", 1)
			noExample = true
		}
	} else if example = string(ex); !re.Match(ex) {
		badExample = true
		if w, ok := c18Witness(re, pattern, witness); ok {
			clause := "example-match"
			if c18HasAssertion(pattern) {
				// the example generator is known to skip ^ $ \b: kept apart so that other causes stay visible
				clause = "example-match-anchor"
			}
			c18Violate(r, clause, text, cs, "Example() of %s = %q, which the pattern does not match (it does match e.g. %q)", q, mon.Trunc(example, 80), mon.Trunc(w, 80))
		} else {
			// no matching string known: possibly nothing matches at all, then no example can
			r.Count("not_judged:example_mismatch_but_no_matching_string_found", 1)
		}
		example = ""
	}

	// the example belongs to the caller: overwriting it must not change what the object answers next
	if !light && eerr == nil {
		var s1, s2 string
		var e2err error
		if p := mon.Guard(func() {
			one := regex.New("r", text)
			e1, _ := one.Example()
			s1 = string(e1)
			for i := range e1 {
				e1[i] = '*'
			}
			e2, err := one.Example()
			s2, e2err = string(e2), err
		}); p != nil {
			c18Violate(r, "panic", "RSchema.Example(second)/"+p.Site, cs, "the second Example() of %s panicked: %s", q, p.Value)
		} else if e2err != nil || s1 != s2 {
			c18Violate(r, "example-stable", text, cs, "Example() of %s returned %q; after the caller overwrote those bytes the same object returns %q (%s)", q, mon.Trunc(s1, 80), mon.Trunc(s2, 80), c18Err(e2err))
		}
	}

	// OpenAPI
	var oa []byte
	var oerr error
	if p := mon.Guard(func() { oa, oerr = openapi.NewSchemaObject(regex.New("r", text)).MarshalJSON() }); p != nil {
		c18Violate(r, "panic", "openapi.NewSchemaObject/"+p.Site, cs, "OpenAPI conversion of %s panicked: %s", q, p.Value)
	} else {
		var obj map[string]any
		uerr := stdjson.Unmarshal(oa, &obj)
		got, isStr := obj["pattern"].(string)
		if oerr != nil || uerr != nil || !isStr || got != pattern {
			c18Violate(r, "openapi-pattern", text, cs, "OpenAPI schema object of %s is %s (%s); its pattern should be %q", q, mon.Trunc(string(oa), 160), c18Err(oerr), mon.Trunc(pattern, 100))
		}
	}

	// registered as a user type
	if light {
		return true
	}
	if probes == nil {
		each := 2
		if len(text) > 6 {
			each = 1 // the bulk of the enumeration: the example, one match, one non-match
		}
		probes = c18PoolProbes(re, text, example, each)
		if longTail && len(probes) > 1 {
			probes = probes[:1]
		}
	}
	if noExample {
		// without an example the schema cannot be turned into a user type; nothing to compare
		r.Count("not_judged:type_reference_of_a_pattern_without_example", 1)
		return true
	}
	c18TypeRef(r, text, q, re, probes, badExample, cs)
	return true
}

// c18Rejection judges the error of a rightly rejected text.
func c18Rejection(r *mon.Run, text, q string, err error, cs c18Case) {
	var je kit.JSchemaError
	var pje *kit.JSchemaError
	switch {
	case errors.As(err, &je):
	case errors.As(err, &pje) && pje != nil:
		je = *pje
	default:
		c18Violate(r, "error-type", text, cs, "Check() on %s rejects with a %T (%s), not a kit.JSchemaError", q, err, c18Err(err))
		return
	}
	var idx, line uint
	var msg string
	if p := mon.Guard(func() { idx, line, msg = je.Index(), je.Line(), je.Error() }); p != nil {
		c18Violate(r, "panic", "JSchemaError/"+p.Site, cs, "reading the error of %s panicked: %s", q, p.Value)
		return
	}
	if int(idx) > len(text) || (len(text) > 0 && line == 0) || msg == "" {
		c18Violate(r, "error-type", text, cs, "Check() on %s rejects with index %d, line %d (text length %d): not a position in the text", q, idx, line, len(text))
	}
}

// c18TypeRef registers the schema as @r and compares what `"v" // {type:"@r"}` accepts.
func c18TypeRef(r *mon.Run, text, q string, re *regexp.Regexp, probes []string, badExample bool, cs c18Case) {
	note := ""
	if badExample {
		note = " (the schema's own Example() is not matched by the pattern either)"
	}
	for _, v := range probes {
		if !c18Plain(v) {
			r.Count("probes_skipped_not_plain", 1)
			continue
		}
		src := `"` + v + `" // {type:"@r"}`
		var aerr, cerr error
		if p := mon.Guard(func() {
			js := jschema.New("root", src)
			aerr = js.AddType("@r", regex.New("r", text))
			if aerr == nil {
				cerr = js.Check()
			}
		}); p != nil {
			c18Violate(r, "panic", "JSchema.AddType+Check/"+p.Site, cs, "registering %s as @r and checking %s panicked: %s", q, src, p.Value)
			return
		}
		if aerr != nil {
			r.Count("type_register_failure:"+c18Category(aerr), 1)
			c18Violate(r, "type-register", text, cs, "AddType(\"@r\", %s) fails although the regex schema is accepted: %s", q, c18Err(aerr))
			return
		}
		want := re.MatchString(v)
		if want {
			r.Count("probes_matching", 1)
		} else {
			r.Count("probes_not_matching", 1)
		}
		if (cerr == nil) == want {
			continue
		}
		if want {
			// control: the probe must be fine as a plain string schema
			var ctl error
			if p := mon.Guard(func() { ctl = jschema.New("root", `"`+v+`" // {type:"string"}`).Check() }); p != nil || ctl != nil {
				r.Inconclusive("probe-not-usable-as-string-literal")
				continue
			}
		}
		r.Count(fmt.Sprintf("type_ref_disagreement:pattern_matches=%v,own_example_bad=%v", want, badExample), 1)
		c18Violate(r, "type-ref", text, cs, "with %s registered as @r, %s is accepted=%v (%s); the pattern matches %q = %v%s", q, src, cerr == nil, c18Err(cerr), v, want, note)
		return
	}
}

// ---- generator of well-formed patterns -----------------------------------------

// c18Node is a piece of pattern text with a sampler of strings it matches.
type c18Node struct {
	src    string
	sample func(rng *rand.Rand, sb *strings.Builder)
}

const c18Chars = "abcxyz019 _-,:@#=ABZ./*+?()[]{}|^$~!%&;<>"

type c18Gen struct {
	rng        *rand.Rand
	names      int
	assertions bool // one generated pattern in five may carry \b / \B between pieces
}

func c18Lit(src string, ch byte) c18Node {
	return c18Node{src: src, sample: func(_ *rand.Rand, sb *strings.Builder) { sb.WriteByte(ch) }}
}

func c18Set(src string, member func(c byte) bool) c18Node {
	var cands []byte
	for i := 0; i < len(c18Chars); i++ {
		if member(c18Chars[i]) {
			cands = append(cands, c18Chars[i])
		}
	}
	if len(cands) == 0 {
		for _, c := range []byte{'\\', '"', '\t'} { // probes with these are not usable, the witness is
			if member(c) {
				cands = append(cands, c)
			}
		}
	}
	return c18Node{src: src, sample: func(rng *rand.Rand, sb *strings.Builder) {
		if len(cands) > 0 {
			sb.WriteByte(cands[rng.IntN(len(cands))])
		}
	}}
}

func isDigit(c byte) bool { return c >= '0' && c <= '9' }
func isWord(c byte) bool {
	return isDigit(c) || c == '_' || (c >= 'a' && c <= 'z') || (c >= 'A' && c <= 'Z')
}
func isSpace(c byte) bool { return c == ' ' || c == '\t' || c == '\n' || c == '\f' || c == '\r' }

func (g *c18Gen) class() c18Node {
	rng := g.rng
	var tbl [128]bool
	var sb strings.Builder
	neg := rng.IntN(4) == 0
	sb.WriteByte('[')
	if neg {
		sb.WriteByte('^')
	}
	for n := 1 + rng.IntN(3); n > 0; n-- {
		switch rng.IntN(9) {
		case 0, 1:
			rg := [][2]byte{{'a', 'f'}, {'0', '9'}, {'x', 'z'}, {'A', 'Z'}, {'0', '1'}, {'b', 'y'}}[rng.IntN(6)]
			sb.WriteByte(rg[0])
			sb.WriteByte('-')
			sb.WriteByte(rg[1])
			for c := rg[0]; c <= rg[1]; c++ {
				tbl[c] = true
			}
		case 2:
			k := rng.IntN(3)
			sb.WriteString([]string{`\d`, `\w`, `\s`}[k])
			f := []func(byte) bool{isDigit, isWord, isSpace}[k]
			for c := 0; c < 128; c++ {
				if f(byte(c)) {
					tbl[c] = true
				}
			}
		case 3:
			e := `]\^-/.`[rng.IntN(6)]
			sb.WriteByte('\\')
			sb.WriteByte(e)
			tbl[e] = true
		default:
			const lits = "abcxyz019_,:@#= .%&;"
			c := lits[rng.IntN(len(lits))]
			sb.WriteByte(c)
			tbl[c] = true
		}
	}
	sb.WriteByte(']')
	return c18Set(sb.String(), func(c byte) bool { return tbl[c] != neg })
}

func (g *c18Gen) atom(depth int) c18Node {
	rng := g.rng
	if depth > 0 && rng.IntN(4) == 0 {
		inner := g.alt(depth-1, true)
		open := "("
		switch rng.IntN(6) {
		case 0, 1:
			open = "(?:"
		case 2:
			g.names++
			open = fmt.Sprintf("(?P<g%d>", g.names)
		}
		return c18Node{src: open + inner.src + ")", sample: inner.sample}
	}
	switch k := rng.IntN(20); {
	case k < 9:
		const lits = "abcxyz019 _-,:@#=%!&;<>~'`"
		c := lits[rng.IntN(len(lits))]
		return c18Lit(string(c), c)
	case k < 12:
		c := `.*+?()[]{}|^$/\-`[rng.IntN(16)]
		return c18Lit(`\`+string(c), c)
	case k < 14:
		return c18Set(".", func(byte) bool { return true })
	case k < 17:
		return g.class()
	default:
		i := rng.IntN(6)
		f := []func(byte) bool{isDigit, isWord, isSpace}[i%3]
		if i < 3 {
			return c18Set([]string{`\d`, `\w`, `\s`}[i], f)
		}
		return c18Set([]string{`\D`, `\W`, `\S`}[i-3], func(c byte) bool { return !f(c) })
	}
}

func (g *c18Gen) quant(a c18Node) c18Node {
	rng := g.rng
	lo, hi := 1, 1
	q := ""
	switch rng.IntN(14) {
	case 0:
		q, lo, hi = "*", 0, 2
	case 1:
		q, lo, hi = "+", 1, 3
	case 2:
		q, lo, hi = "?", 0, 1
	case 3:
		lo = rng.IntN(4)
		hi = lo
		q = fmt.Sprintf("{%d}", lo)
	case 4:
		lo = rng.IntN(4)
		hi = lo + 2
		q = fmt.Sprintf("{%d,}", lo)
	case 5:
		lo = rng.IntN(4)
		hi = lo + rng.IntN(6-lo)
		q = fmt.Sprintf("{%d,%d}", lo, hi)
	default:
		return a
	}
	if rng.IntN(5) == 0 {
		q += "?"
	}
	return c18Node{src: a.src + q, sample: func(rng *rand.Rand, sb *strings.Builder) {
		for n := lo + rng.IntN(hi-lo+1); n > 0; n-- {
			a.sample(rng, sb)
		}
	}}
}

func (g *c18Gen) concat(depth int) c18Node {
	n := 1 + g.rng.IntN(3)
	parts := make([]c18Node, n)
	var sb strings.Builder
	for i := range parts {
		parts[i] = g.quant(g.atom(depth))
		if g.assertions && i > 0 && g.rng.IntN(6) == 0 {
			// a word-boundary assertion between two pieces: empty-width, the samples decide whether it holds
			sb.WriteString([]string{`\b`, `\B`}[g.rng.IntN(2)])
		}
		sb.WriteString(parts[i].src)
	}
	return c18Node{src: sb.String(), sample: func(rng *rand.Rand, sb *strings.Builder) {
		for _, p := range parts {
			p.sample(rng, sb)
		}
	}}
}

func (g *c18Gen) alt(depth int, inGroup bool) c18Node {
	n := 1
	if g.rng.IntN(3) == 0 {
		n = 2 + g.rng.IntN(2)
	}
	parts := make([]c18Node, n)
	srcs := make([]string, n)
	for i := range parts {
		if inGroup && n > 1 && g.rng.IntN(10) == 0 {
			parts[i] = c18Node{sample: func(*rand.Rand, *strings.Builder) {}}
		} else {
			parts[i] = g.concat(depth)
		}
		srcs[i] = parts[i].src
	}
	return c18Node{src: strings.Join(srcs, "|"), sample: func(rng *rand.Rand, sb *strings.Builder) {
		parts[rng.IntN(len(parts))].sample(rng, sb)
	}}
}

func (g *c18Gen) top() c18Node {
	n := g.alt(3, false)
	if g.rng.IntN(3) == 0 {
		n.src = "^" + n.src
	}
	if g.rng.IntN(3) == 0 {
		n.src += "$"
	}
	return n
}

func c18Mutate(rng *rand.Rand, s string) string {
	c := string(c18Chars[rng.IntN(len(c18Chars))])
	if s == "" {
		return c
	}
	i := rng.IntN(len(s))
	switch rng.IntN(4) {
	case 0:
		return s[:i] + s[i+1:]
	case 1:
		return s[:i] + c + s[i+1:]
	case 2:
		return s[:i] + c + s[i:]
	default:
		return s[:i]
	}
}

var c18Trailers = []string{" ", "\n", "g", " // note", "\t# c", "i\n"}

func c18Generated(r *mon.Run, rng *rand.Rand, i int) {
	g := &c18Gen{rng: rng, assertions: rng.IntN(5) == 0}
	n := g.top()
	text := "/" + n.src + "/"
	if rng.IntN(4) == 0 {
		text += c18Trailers[rng.IntN(len(c18Trailers))]
	}
	var s [2]string
	for k := range s {
		var sb strings.Builder
		n.sample(rng, &sb)
		s[k] = sb.String()
	}
	rnd := ""
	for k := rng.IntN(4); k > 0; k-- {
		rnd += string(c18Chars[rng.IntN(len(c18Chars))])
	}
	cand := []string{s[0], s[1], c18Mutate(rng, s[0]), c18Mutate(rng, s[1]), rnd}
	var probes []string
	seen := map[string]bool{}
	for _, v := range cand {
		if !seen[v] && len(v) <= 200 {
			seen[v] = true
			probes = append(probes, v)
		}
	}
	if rng.IntN(10) == 0 {
		// a damaged text: the same clauses apply, whatever the verdict
		text = string(mutateBytes(rng, []byte(text), []byte(`/\a.*+?()[]^$|{}1,-"`)))
		r.Count("generated_then_damaged", 1)
	}
	if re, err := regexp.Compile(n.src); err == nil {
		for _, v := range s {
			if !re.MatchString(v) {
				r.Count("generator_sample_not_matching_its_pattern", 1)
			}
		}
	} else {
		r.Count("generator_pattern_not_compiling", 1)
	}
	witness := s[:]
	if strings.Contains(n.src, `\b`) || strings.Contains(n.src, `\B`) {
		// the samples ignore the assertion: draw more of them so that one that the pattern really matches is known
		r.Count("generated_with_word_boundary_assertion", 1)
		for k := 0; k < 12; k++ {
			var sb strings.Builder
			n.sample(rng, &sb)
			witness = append(witness, sb.String())
		}
	}
	if c18Text(r, text, probes, witness) {
		r.Count("generated_accepted", 1)
	}
	if i < 2 {
		r.Sample(map[string]any{"kind": "generated pattern", "text": text, "probes": probes})
	}
}

// ---- workload ------------------------------------------------------------------

var c18Alpha = []string{"/", `\`, "a", ".", "*", "+", "?", "(", ")", "[", "]", "^", "$", "|", "{", "}", "1", ",", "-", `"`, "\xc3\xa9", "\x7f", "\t"}

func c18Run(r *mon.Run) {
	if r.Shard == 0 {
		c18Pinned = true
		c18Text(r, `/\b/`, nil, []string{"b"})
		c18Text(r, `/a[^\W\w]|b/`, nil, []string{"b"})
		c18Pinned = false
	}
	// (1) every text over the alphabet; texts that do not start with '/' are
	// rejected on their first byte and are enumerated up to three symbols only
	L := r.Pick(5, 7)
	k := 0
	if r.Shard == 0 { // edge texts first
		for _, t := range []string{"", "/", "//", "/a/", "/\x7f/", "/\xff/", "/a\xff/", "\xff", "/\\", "/\\/", "/\\\\/", "/\\\\\\/", "/\\\\\\//", "/a{1000}/", "/a{1001}/", "/a/b/", "/[/]/", "/%/", "/%s/", "/%d%%/", "/^[0-9]+%$/", "/a%!b/", "/%v|%q/ ", "/[%]+x/", "/%[1]s/"} {
			c18Text(r, t, nil, nil)
		}
	}
	// Sharding: texts of up to three symbols round-robin; from four symbols on
	// whole subtrees round-robin (finer and better balanced than the two-symbol
	// split of gen.TokensSharded: only the 23 prefixes "/x" have deep subtrees).
	short, sub := 0, 0
	gen.Tokens(c18Alpha, L, func(s []byte, n int) bool {
		extend := s[0] == '/' || n < 3
		switch {
		case n <= 3:
			short++
			if !r.Mine(short) {
				return extend
			}
		case n == 4:
			sub++
			if !r.Mine(sub) {
				return false
			}
		}
		text := string(s)
		if c18Text(r, text, nil, nil) {
			k++
			if k%20011 == 1 {
				r.Sample(map[string]any{"kind": "enumerated text (accepted)", "text": text})
			}
		}
		return extend
	})
	r.CountMax("max:enumerated_symbols", int64(L))
	// (2) generated well-formed patterns with matches and near-misses
	rng := r.Rand("c18")
	n := r.Share(r.Pick(30_000, 1_000_000))
	for i := 0; i < n; i++ {
		c18Generated(r, rng, i)
	}
}

func init() {
	register(&mon.CheckDef{
		ID:  "C18",
		Run: c18Run,
		Replay: func(r *mon.Run, raw stdjson.RawMessage) {
			var c c18Case
			stdjson.Unmarshal(raw, &c)
			c18Pinned = true // a replay judges the recorded case without carve-outs
			c18Text(r, string(c.Text), c.Probes, c.Witness)
		},
		Rule:               "every text over the 23-symbol alphabet {/ \\ a . * + ? ( ) [ ] ^ $ | { } 1 , - quote é 0x7f TAB} starting with '/' up to 5 (quick) / 7 (thorough) symbols (texts with another first byte: up to 3 symbols), a fixed list of edge texts (empty, one byte, non-UTF-8, backslash parities, counted-repetition limit), and 30k / 1M generated well-formed patterns (literals, escapes incl. \\/ and \\\\, dot, positive/negated classes with ranges and \\d\\w\\s, Perl classes, plain/non-capturing/named groups to depth 3, alternation, * + ? {n} {n,} {n,m} with n,m <= 5 and lazy forms, ^ at the start, $ at the end, optional trailing text; one in ten damaged by a byte mutation). Per text: regex.New(text).Check() vs (starts with '/', first later '/' behind an even number of backslashes, text between compiles with Go regexp); a rejected text must be rejected by Len, Pattern, GetAST, Example and a second Check too (same object after the failed Check, and fresh objects with Len first); rejections must be a kit.JSchemaError whose index lies in the text, with a line number and a message that can be printed; for accepted texts Len() = closing index + 1, GetAST().Value = /pattern/, OpenAPI pattern = pattern, Example() (fresh object) matched by the pattern and unchanged when asked again after the caller overwrote the returned bytes, and with the schema registered as @r the schema \"v\" // {type:\"@r\"} is accepted iff regexp matches v, for up to 5 probe strings (generated patterns: two matches by construction, two near-misses, one random string; enumerated texts: the library's own example plus matching and non-matching strings from a 30-string pool, 5 probes up to 6 bytes of text, 3 beyond). Enumerated texts with more than one symbol behind the closing delimiter get the example and user-type clauses on every eighth text (hash of the text) with one probe. distinct_nontrivial = distinct texts with an opening and a closing delimiter (hashed, capped at 500k per shard).",
		MinNontrivialQuick: 50000, MinNontrivialThorough: 2000000,
		Assumptions: []string{"Go regexp (Compile, MatchString) is the reference for pattern validity and matching; the library uses the same engine, the independent part is the delimiter scan and the cross-API comparison",
			"the closing delimiter is the first unescaped '/' behind the opening one; a text accepted only under a later unescaped '/' would be counted as not judged (never observed)",
			"an Example() that does not match is reported only if the harness knows a string the pattern does match (generated by construction or found among all strings of <= 3 symbols over the pattern's runes); otherwise the pattern may be unsatisfiable and the case is counted as not judged",
			"a non-matching example of a pattern that contains an empty-width assertion (^ $ \\b ...) is reported under example-match-anchor, any other under example-match",
			"probe strings are printable ASCII without quote and backslash so that they can be written as JSON string literals verbatim; a probe rejected as a plain string schema is inconclusive",
			"generated patterns stay inside the common subset of Go regexp and the example generator: no mid-pattern ^ $, no flags, no Unicode classes, counted repetitions <= 5, nesting <= 3 (the one-in-ten damaged texts may leave it)",
			"for the empty text any kit.JSchemaError counts as positioned (there is no byte to point at)",
			"what follows the closing delimiter is not judged beyond the stated clauses",
			"at most 64 distinct keys per clause and worker are handed to the monitor, the rest is counted"},
		Exhaustive: "all texts up to the stated number of symbols over the 23-symbol alphabet that start with '/'; all texts of up to 3 symbols with another first symbol",
	})
}
