package props

import (
	stdjson "encoding/json"
	"fmt"
	"strings"
	"sync"

	schema "github.com/jsightapi/jsight-schema-core"
	cbytes "github.com/jsightapi/jsight-schema-core/bytes"
	ljson "github.com/jsightapi/jsight-schema-core/json"

	"verifharness/internal/gen"
	"verifharness/internal/mon"
	"verifharness/internal/ref"
)

// Documented vocabulary (README "types" list and the doc comment of IsEqualSoft).
var c20Documented = []string{"string", "integer", "float", "decimal", "boolean", "object", "array", "null",
	"email", "uri", "uuid", "date", "datetime", "enum", "mixed", "any"}

var c20All = append(append([]string{""}, c20Documented...), "comment")

func c20Family(t string) string {
	switch t {
	case "string", "email", "uri", "uuid", "date", "datetime":
		return "string"
	case "float", "decimal":
		return "float"
	}
	return t
}

func c20Wild(t string) bool { return t == "enum" || t == "mixed" || t == "any" }

func c20SoftRef(a, b string) bool { return c20Wild(a) || c20Wild(b) || c20Family(a) == c20Family(b) }

func c20Tables(r *mon.Run) {
	if r.Shard != 0 {
		return
	}
	doc := map[string]bool{}
	for _, t := range c20Documented {
		doc[t] = true
	}
	// (a) IsValidType
	var probes []string
	for _, t := range c20Documented {
		probes = append(probes, t, strings.ToUpper(t), strings.Title(t), " "+t, t+" ", t+"s", t[:len(t)-1], "@"+t, `"`+t+`"`)
	}
	probes = append(probes, "", " ", "number", "int", "bool", "str", "double", "reference", "annotation", "undefined", "text", "time", "url", "guid", "nil", "none", "or", "const")
	for _, p := range probes {
		r.Eval(1)
		got := schema.IsValidType(p)
		if got != doc[p] {
			r.Violate("isvalidtype", fmt.Sprintf("IsValidType(%q)", p), fmt.Sprintf("IsValidType(%q)=%v, documented vocabulary says %v", p, got, doc[p]), map[string]any{"kind": "isvalid", "s": p})
		}
		r.Nontrivial("valid", p)
	}
	// (b) IsEqualSoft on all 18x18 pairs
	for _, a := range c20All {
		for _, b := range c20All {
			r.Eval(1)
			r.Nontrivial("soft", a, b)
			ab := schema.SchemaType(a).IsEqualSoft(schema.SchemaType(b))
			ba := schema.SchemaType(b).IsEqualSoft(schema.SchemaType(a))
			cs := map[string]any{"kind": "soft", "a": a, "b": b}
			if ab != ba {
				if a > b {
					continue // reported once, under the ordered spelling
				}
				r.Violate("soft-symmetric", a+"~"+b, fmt.Sprintf("IsEqualSoft(%q,%q)=%v but IsEqualSoft(%q,%q)=%v", a, b, ab, b, a, ba), cs)
				continue
			}
			if a == "" || b == "" {
				if ab {
					r.Violate("soft-undefined", a+"~"+b, "the undefined type is soft-equal to something", cs)
				}
				continue
			}
			if a == b && !ab {
				// reflexive on every defined type, "comment" included
				r.Violate("soft-reflexive", a, fmt.Sprintf("IsEqualSoft(%q,%q)=false", a, a), cs)
			}
			if !doc[a] || !doc[b] {
				continue // "comment": documentation silent about its families
			}
			if want := c20SoftRef(a, b); ab != want {
				r.Violate("soft-families", a+"~"+b, fmt.Sprintf("IsEqualSoft(%q,%q)=%v, documented families say %v", a, b, ab, want), cs)
			}
		}
	}
	// (c) token-type mappings
	wantTok := map[string]string{"object": schema.TokenTypeObject, "array": schema.TokenTypeArray, "string": schema.TokenTypeString,
		"integer": schema.TokenTypeNumber, "float": schema.TokenTypeNumber, "boolean": schema.TokenTypeBoolean, "null": schema.TokenTypeNull,
		"mixed": schema.TokenTypeShortcut}
	for _, jt := range ljson.AllTypes {
		name := jt.String()
		r.Eval(1)
		r.Nontrivial("tok", name)
		st := schema.SchemaType(name).ToTokenType()
		jtt := jt.ToTokenType()
		cs := map[string]any{"kind": "token", "type": name}
		if st != jtt || st != wantTok[name] {
			r.Violate("token-types", name, fmt.Sprintf("SchemaType(%q).ToTokenType()=%q, json.Type.ToTokenType()=%q, TokenType constant=%q", name, st, jtt, wantTok[name]), cs)
		}
		if !schema.IsValidType(name) {
			r.Violate("token-types", name+" valid", "json type name is not a valid schema type", cs)
		}
		if p := mon.Guard(func() {
			if back := ljson.NewJsonType(cbytes.NewBytes(name)); back != jt && name != "mixed" {
				r.Violate("token-types", name+" roundtrip", fmt.Sprintf("NewJsonType(%q)=%v", name, back), cs)
			}
		}); p != nil && name != "mixed" {
			r.Violate("token-types", name+" roundtrip", "NewJsonType panicked: "+p.Value, cs)
		}
	}
	for _, t := range []string{"decimal"} {
		if schema.SchemaType(t).ToTokenType() != schema.TokenTypeNumber {
			r.Violate("token-types", t, "decimal is not a number token", nil)
		}
	}
	for _, t := range []string{"email", "uri", "uuid", "date", "datetime", "string", "integer", "float", "decimal", "boolean", "null", "enum"} {
		if !schema.SchemaType(t).IsScalar() {
			r.Violate("isscalar", t, "IsScalar false for a scalar type", nil)
		}
	}
	for _, t := range []string{"object", "array", "mixed", "any", ""} {
		if schema.SchemaType(t).IsScalar() {
			r.Violate("isscalar", t, "IsScalar true for a non-scalar type", nil)
		}
	}
}

const c20Reps = 24

var c20Bufs sync.Map // (shard, length) -> []byte

// c20Buffer returns the shard's buffer for literals of n bytes (exact capacity).
func c20Buffer(shard, n int) []byte {
	k := [2]int{shard, n}
	if b, ok := c20Bufs.Load(k); ok {
		return b.([]byte)
	}
	b := make([]byte, n, n)
	c20Bufs.Store(k, b)
	return b
}

// c20Literal judges one literal text.
func c20Literal(r *mon.Run, lit string) {
	r.Eval(1)
	var first schema.SchemaType
	var firstErr string
	for i := 0; i < c20Reps; i++ {
		var t schema.SchemaType
		var err error
		in := []byte(lit)
		if i%2 == 0 {
			// every other call (the first one included) hands the literal over in a caller's buffer that held the previous literal of this
			// length (same address, same length, other bytes): the answer belongs to the bytes, not to the buffer
			in = c20Buffer(r.Shard, len(lit))
			copy(in, lit)
		}
		if p := mon.Guard(func() { t, err = schema.GuessSchemaType(in) }); p != nil {
			r.Violate("guess-panic", p.Site, fmt.Sprintf("GuessSchemaType(%q) panicked: %s", lit, p.Value), map[string]any{"kind": "literal", "lit": lit})
			return
		}
		if string(in) != lit {
			r.Violate("guess-deterministic", "caller buffer changed", fmt.Sprintf("GuessSchemaType(%q) changed the caller's bytes to %q", lit, in), map[string]any{"kind": "literal", "lit": lit})
			return
		}
		es := ""
		if err != nil {
			es = err.Error()
		}
		if i == 0 {
			first, firstErr = t, es
		} else if t != first || es != firstErr {
			r.Violate("guess-deterministic", lit, fmt.Sprintf("GuessSchemaType(%q) answered %q/%q and then %q/%q", lit, first, firstErr, t, es), map[string]any{"kind": "literal", "lit": lit})
			return
		}
	}
	var jt ljson.Type
	if p := mon.Guard(func() { jt = ljson.Guess(cbytes.NewBytes(lit)).JsonType() }); p != nil {
		r.Violate("guess-agree", lit, fmt.Sprintf("json.Guess(%q).JsonType() panicked: %s", lit, p.Value), map[string]any{"kind": "literal", "lit": lit})
		return
	}
	if firstErr != "" || string(first) != jt.String() {
		r.Violate("guess-agree", lit, fmt.Sprintf("GuessSchemaType(%q)=%q (err %q) but the scanner-side classifier says %q", lit, first, firstErr, jt.String()), map[string]any{"kind": "literal", "lit": lit})
	}
	// independent expectation for the kind (string / boolean / null / number)
	want := ""
	switch {
	case lit == "{":
		want = "object"
	case lit == "[":
		want = "array"
	case lit[0] == '"':
		want = "string"
	case lit == "true" || lit == "false":
		want = "boolean"
	case lit == "null":
		want = "null"
	}
	if want != "" && string(first) != want {
		r.Violate("guess-kind", lit, fmt.Sprintf("GuessSchemaType(%q)=%q, a JSON %s", lit, first, want), map[string]any{"kind": "literal", "lit": lit})
	}
	if want == "" && first != schema.SchemaTypeInteger && first != schema.SchemaTypeFloat {
		r.Violate("guess-kind", lit, fmt.Sprintf("GuessSchemaType(%q)=%q for a JSON number", lit, first), map[string]any{"kind": "literal", "lit": lit})
	}
}

var (
	c20Hostile  = []string{"1e1000001", "1E-1000001", "-2.5e+1000001", "1e99999999999999999999", "1e-99999999999999999999", "1e1000000", "-", "1.", "1e", "1e+", "+1", "01", "-01.5", ".5", "1..2", "1e5e5", "1e5.5", "tru", "nul", "falsey", `"abc`, `abc"`, "", " ", "{}", "[]", "}", "1 ", " 1", "0x10", "NaN", "Infinity", "1_000", "\xff", "12345678901234567890123456789012345678901234567890e-12345"}
	c20Ordinary = []string{"42", "0", "-1", "-1.5", "0.5", "1e2", "1.5e1", "12.50", "2.50E2", "1e-2", "-0.0", "123456789012345678901234567890", `"a.b"`, `"1e5"`, `"42"`, `""`, "true", "false", "null", "{", "["}
)

func c20Run(r *mon.Run) {
	c20Tables(r)
	// exhaustive literals: numbers
	numAlpha := []string{"0", "1", "5", "-", "+", ".", "e", "E"}
	nlen := r.Pick(6, 8)
	cnt := 0
	gen.TokensSharded(numAlpha, nlen, r.Shard, mon.LogicalShards, func(s []byte, n int) bool {
		if n == 1 && r.Shard != 0 {
			return true
		}
		if stdjson.Valid(s) && !ref.ZeroExp(string(s)) {
			c20Literal(r, string(s))
			r.Nontrivial("lit", string(s))
			cnt++
			if cnt%5000 == 1 {
				r.Sample(map[string]any{"kind": "literal", "text": string(s)})
			}
		}
		return true
	})
	// exhaustive literals: strings with content of <= L atoms
	// incl. bytes that are not UTF-8 (the scanners accept any byte >= 0x20 inside a string), an astral character and DEL
	strAlpha := []string{"a", ".", "e", "E", "1", "-", "t", "n", " ", `\"`, `\\`, "é", "{", "[", "\xff", "\xe9", "\xed\xa0\x80", "\xf0\x9f\x98", "😀", "\x7f"}
	slen := r.Pick(4, 5)
	gen.TokensSharded(strAlpha, slen, r.Shard, mon.LogicalShards, func(s []byte, n int) bool {
		if n == 1 && r.Shard != 0 {
			return true
		}
		lit := `"` + string(s) + `"`
		c20Literal(r, lit)
		r.Nontrivial("lit", lit)
		return true
	})
	if r.Shard == 0 {
		for _, lit := range []string{"true", "false", "null", "{", "[", `""`} {
			c20Literal(r, lit)
			r.Nontrivial("lit", lit)
		}
	}
	// the same bytes get the same answer whatever was asked before: ordinary
	// literals right after texts that are refused at various depths (not judged
	// themselves: most of them are no literals)
	for hi, h := range c20Hostile {
		if !r.Mine(hi) {
			continue
		}
		for _, lit := range c20Ordinary {
			mon.Guard(func() { _, _ = schema.GuessSchemaType([]byte(h)) })
			c20Literal(r, lit)
			r.Nontrivial("after", h+" then "+lit)
		}
	}
	// random literals
	rng := r.Rand("c20")
	n := r.Share(r.Pick(100_000, 2_000_000))
	for i := 0; i < n; i++ {
		var sb strings.Builder
		if rng.IntN(2) == 0 {
			// number
			if rng.IntN(3) == 0 {
				sb.WriteByte('-')
			}
			if rng.IntN(4) == 0 {
				sb.WriteByte('0')
			} else {
				sb.WriteByte(byte('1' + rng.IntN(9)))
				for k := rng.IntN(20); k > 0; k-- {
					sb.WriteByte(byte('0' + rng.IntN(10)))
				}
			}
			if rng.IntN(2) == 0 {
				sb.WriteByte('.')
				for k := 1 + rng.IntN(12); k > 0; k-- {
					sb.WriteByte(byte('0' + rng.IntN(10)))
				}
			}
			if rng.IntN(3) == 0 {
				sb.WriteByte("eE"[rng.IntN(2)])
				if rng.IntN(2) == 0 {
					sb.WriteByte("+-"[rng.IntN(2)])
				}
				sb.WriteString(fmt.Sprint(rng.IntN(40)))
			}
		} else {
			sb.WriteByte('"')
			for k := rng.IntN(16); k > 0; k-- {
				sb.WriteString(strAlpha[rng.IntN(len(strAlpha))])
			}
			if rng.IntN(2) == 0 {
				sb.WriteString(fmt.Sprintf("%d.%d", rng.IntN(100), rng.IntN(100)))
			}
			sb.WriteByte('"')
		}
		lit := sb.String()
		if ref.ZeroExp(lit) {
			continue
		}
		if rng.IntN(8) == 0 {
			h := c20Hostile[rng.IntN(len(c20Hostile))]
			mon.Guard(func() { _, _ = schema.GuessSchemaType([]byte(h)) })
		}
		c20Literal(r, lit)
		r.Nontrivial("lit", lit)
	}
}

func init() {
	register(&mon.CheckDef{
		ID:  "C20",
		Run: c20Run,
		Replay: func(r *mon.Run, raw stdjson.RawMessage) {
			var c struct{ Kind, Lit string }
			stdjson.Unmarshal(raw, &c)
			if c.Kind == "literal" {
				c20Literal(r, c.Lit)
			} else {
				c20Tables(r)
			}
		},
		Rule:               "tables: IsValidType on the 16 documented names and 9 near-miss spellings of each; IsEqualSoft on all 18x18 ordered pairs (documented families, symmetry, reflexivity, undefined); token-type agreement for every json.Type. literals: every RFC 8259 number over {0 1 5 - + . e E} up to length 6 (quick) / 8 (thorough), every string literal whose content is <= 4 / 5 atoms from 20 (letters, dot, e, digits, escapes, brackets, non-UTF-8 bytes, an astral character, DEL), true/false/null/{/[, plus random numbers and strings; each literal is guessed 24 times (map-order sampling; every other time in a caller's buffer that held the previous literal of the same length) and compared with json.Guess(..).JsonType(). distinct_nontrivial = distinct literals, pairs and probes (hashed).",
		MinNontrivialQuick: 20000, MinNontrivialThorough: 200000,
		Assumptions: []string{"documented vocabulary and families typed in from the IsEqualSoft doc comment and the README type list", "IsValidType(\"comment\") not judged (internal type name)",
			"encoding/json.Valid decides which enumerated number strings are literals", "a two-way map-order dependence escapes 24 repetitions with probability 2^-23 per literal"},
		Exhaustive: "all 18x18 type pairs; all number literals up to the stated length over an 8-byte alphabet; all string literals up to the stated number of atoms",
	})
}
