package props

import (
	"bufio"
	"context"
	"crypto/sha256"
	"encoding/hex"
	stdjson "encoding/json"
	"errors"
	"fmt"
	"io"
	"math/rand/v2"
	"os"
	"os/exec"
	"path/filepath"
	"regexp"
	"runtime"
	"sort"
	"strconv"
	"strings"
	"time"

	schema "github.com/jsightapi/jsight-schema-core"
	jdoc "github.com/jsightapi/jsight-schema-core/formats/json"
	"github.com/jsightapi/jsight-schema-core/notations/jschema"
	"github.com/jsightapi/jsight-schema-core/notations/regex"
	"github.com/jsightapi/jsight-schema-core/openapi"
	"github.com/jsightapi/jsight-schema-core/rules/enum"

	"verifharness/internal/gen"
	"verifharness/internal/mon"
)

// C09 - same input, same answer.
//
// A case is a project (root text + named types + named enum rules) or a text
// given to the enum-rule / regex-schema / JSON-document / type-guessing entry
// points. One EXECUTION of a case builds everything from fresh objects and
// renders every observable result into a DIGEST (an ordered list of named
// fields). The oracle is byte equality of digests between executions:
//   repetition          R executions in this process
//   registration-order  executions with permuted AddType / AddRule calls
//   process             executions in P fresh processes (GOGC, GOMAXPROCS, garbage)
//   address-in-output   a heap address shows in a digest field (and not in the input)
// The digest holds nothing but what the library returned: no time, PID, stack
// trace or harness address.

type c09Case struct {
	Kind    string   `json:"kind"` // project | text
	Project *project `json:"project,omitempty"`
	Text    string   `json:"text,omitempty"`
	Which   entrySet `json:"which,omitempty"`
	Source  string   `json:"source"`
}

// The JSON form of a case (journal, replay files, child process input) must
// give back the same bytes: encoding/json would replace invalid UTF-8 by
// U+FFFD, so every text travels as base64 next to a readable rendering.
type c09WireDef struct {
	Name  string `json:"name"`
	Text  string `json:"text"`
	B64   []byte `json:"text_b64"`
	Regex bool   `json:"regex,omitempty"`
}

type c09Wire struct {
	Kind    string       `json:"kind"`
	Which   entrySet     `json:"which,omitempty"`
	Source  string       `json:"source"`
	Text    string       `json:"text,omitempty"`
	TextB64 []byte       `json:"text_b64,omitempty"`
	Root    string       `json:"root,omitempty"`
	RootB64 []byte       `json:"root_b64,omitempty"`
	Types   []c09WireDef `json:"types,omitempty"`
	Rules   []c09WireDef `json:"rules,omitempty"`
}

func (c c09Case) MarshalJSON() ([]byte, error) {
	w := c09Wire{Kind: c.Kind, Which: c.Which, Source: c.Source}
	if c.Kind == "project" && c.Project != nil {
		w.Root, w.RootB64 = c.Project.Root, []byte(c.Project.Root)
		for _, t := range c.Project.Types {
			w.Types = append(w.Types, c09WireDef{Name: t.Name, Text: t.Text, B64: []byte(t.Text), Regex: t.Regex})
		}
		for _, t := range c.Project.Rules {
			w.Rules = append(w.Rules, c09WireDef{Name: t.Name, Text: t.Text, B64: []byte(t.Text)})
		}
	} else {
		w.Text, w.TextB64 = c.Text, []byte(c.Text)
	}
	return stdjson.Marshal(w)
}

func (c *c09Case) UnmarshalJSON(b []byte) error {
	var w c09Wire
	if err := stdjson.Unmarshal(b, &w); err != nil {
		return err
	}
	*c = c09Case{Kind: w.Kind, Which: w.Which, Source: w.Source}
	if w.Kind == "project" {
		p := &project{Root: string(w.RootB64)}
		for _, t := range w.Types {
			p.Types = append(p.Types, typeDef{Name: t.Name, Text: string(t.B64), Regex: t.Regex})
		}
		for _, t := range w.Rules {
			p.Rules = append(p.Rules, typeDef{Name: t.Name, Text: string(t.B64)})
		}
		c.Project = p
	} else {
		c.Text = string(w.TextB64)
	}
	return nil
}

type c09Field struct{ Name, Val string }

type c09Digest []c09Field

func (d *c09Digest) add(name, val string) { *d = append(*d, c09Field{name, val}) }

// addErr renders everything observable of a returned error.
func (d *c09Digest) addErr(prefix string, err error) {
	if err == nil {
		d.add(prefix+".error", "nil")
		return
	}
	v, rp := viewError(err)
	code := "none"
	if v.HasCode {
		code = strconv.Itoa(v.Code)
	}
	d.add(prefix+".error", v.Type+" code="+code)
	d.add(prefix+".message", v.Message)
	d.add(prefix+".position", fmt.Sprintf("index=%d line=%d column=%d file=%q", v.Index, v.Line, v.Col, v.Filename))
	d.add(prefix+".usertype", v.UserType)
	if rp != nil {
		d.add(prefix+".rendered", "PANIC in Error(): "+rp.Value+" @"+rp.Site)
	} else {
		d.add(prefix+".rendered", v.Rendered)
	}
}

// call runs f under a recover; a panic becomes part of the digest (value and
// repository call site only: the stack would carry addresses of the harness).
func (d *c09Digest) call(prefix string, f func() (string, error)) (ok bool) {
	var out string
	var err error
	if p := mon.Guard(func() { out, err = f() }); p != nil {
		d.add(prefix+".error", "PANIC")
		d.add(prefix+".message", p.Value+" @"+p.Site)
		return false
	}
	d.addErr(prefix, err)
	if err == nil {
		d.add(prefix, out)
	}
	return err == nil
}

// ---- one execution -------------------------------------------------------------

// c09Exec executes a case once on fresh objects. typeOrder / ruleOrder give the
// order of the AddType / AddRule calls (nil: as written).
func c09Exec(c *c09Case, typeOrder, ruleOrder []int) c09Digest {
	d := make(c09Digest, 0, 48)
	if c.Kind == "project" {
		c09ExecProject(&d, *c.Project, typeOrder, ruleOrder)
		return d
	}
	if c.Which&epSchema != 0 {
		c09ExecProject(&d, project{Root: c.Text}, nil, nil)
	}
	if c.Which&epEnum != 0 {
		c09ExecEnum(&d, c.Text)
	}
	if c.Which&epRegex != 0 {
		c09ExecRegex(&d, c.Text)
	}
	if c.Which&epDoc != 0 {
		c09ExecDoc(&d, c.Text)
	}
	if c.Which&epGuess != 0 {
		d.call("GuessSchemaType", func() (string, error) {
			t, err := schema.GuessSchemaType([]byte(c.Text))
			return string(t), err
		})
	}
	return d
}

func identity(n int) []int {
	o := make([]int, n)
	for i := range o {
		o[i] = i
	}
	return o
}

func c09ExecProject(d *c09Digest, p project, typeOrder, ruleOrder []int) {
	if typeOrder == nil {
		typeOrder = identity(len(p.Types))
	}
	if ruleOrder == nil {
		ruleOrder = identity(len(p.Rules))
	}
	s := jschema.New("root", p.Root)
	// Registration. Unlike project.build() this does not stop at the first
	// failing call (which call comes first is the caller's choice, not the
	// library's): every call is made, every outcome is kept under its name.
	var reg c09Digest
	for _, i := range ruleOrder {
		ru := p.Rules[i]
		reg.call("AddRule("+ru.Name+")", func() (string, error) { return "", s.AddRule(ru.Name, enum.New(ru.Name, ru.Text)) })
	}
	for _, i := range typeOrder {
		t := p.Types[i]
		var ts schema.Schema
		if t.Regex {
			ts = regex.New(t.Name, t.Text)
		} else {
			tt := jschema.New(t.Name, t.Text)
			for _, j := range ruleOrder {
				ru := p.Rules[j]
				mon.Guard(func() { _ = tt.AddRule(ru.Name, enum.New(ru.Name, ru.Text)) }) // same outcome as on the root, recorded there
			}
			ts = tt
		}
		reg.call("AddType("+t.Name+")", func() (string, error) { return "", s.AddType(t.Name, ts) })
	}
	for _, i := range typeOrder {
		t := p.Types[i]
		tt, _ := s.UserTypeCollection[t.Name].(*jschema.JSchema)
		if t.Regex || tt == nil {
			continue
		}
		for _, j := range typeOrder {
			u := p.Types[j]
			us, ok := s.UserTypeCollection[u.Name]
			if !ok {
				continue
			}
			if u.Regex {
				// Every AddType of a regex type consumes one Example() of the RSchema
				// object; a shared object would make the example a type sees depend
				// on how many calls came before (statefulness of one object: C10).
				us = regex.New(u.Name, u.Text)
			}
			var err error
			pn := mon.Guard(func() { err = tt.AddType(u.Name, us) })
			if pn != nil || err != nil { // not expected; kept if it happens
				reg.call("type "+t.Name+".AddType("+u.Name+")", func() (string, error) {
					if pn != nil {
						panic(pn.Value)
					}
					return "", err
				})
			}
		}
	}
	sort.SliceStable(reg, func(i, j int) bool { return c09Base(reg[i].Name) < c09Base(reg[j].Name) })
	*d = append(*d, reg...)

	// The observable results, one object, fixed sequence of calls.
	accepted := d.call("Check", func() (string, error) { return "", s.Check() })
	d.call("Len", func() (string, error) { n, err := s.Len(); return strconv.Itoa(int(n)), err })
	d.call("GetAST", func() (string, error) { return astString(s.GetAST()) })
	d.call("Example", func() (string, error) { b, err := s.Example(); return string(b), err })
	d.call("UsedUserTypes", func() (string, error) {
		l, err := s.UsedUserTypes()
		return strings.Join(l, ","), err
	})
	if accepted {
		d.call("OpenAPI", func() (string, error) {
			b, err := openapi.NewSchemaObject(s).MarshalJSON()
			return string(b), err
		})
	}
	// every registered JSchema type is a schema with the same types itself
	names := make([]string, 0, len(p.Types))
	for _, t := range p.Types {
		if !t.Regex {
			names = append(names, t.Name)
		}
	}
	sort.Strings(names)
	for _, n := range names {
		tt, _ := s.UserTypeCollection[n].(*jschema.JSchema)
		if tt == nil {
			continue
		}
		ok := d.call("type "+n+".Check", func() (string, error) { return "", tt.Check() })
		d.call("type "+n+".Example", func() (string, error) { b, err := tt.Example(); return string(b), err })
		if ok {
			d.call("type "+n+".OpenAPI", func() (string, error) {
				b, err := openapi.NewSchemaObject(tt).MarshalJSON()
				return string(b), err
			})
		}
	}
}

// c09Base strips the field suffix so that the fields of one call stay together
// when the registration outcomes are sorted by call name.
func c09Base(name string) string {
	if i := strings.LastIndex(name, ")"); i >= 0 {
		return name[:i+1]
	}
	return name
}

func c09ExecEnum(d *c09Digest, text string) {
	e := enum.New("@e", text)
	d.call("Enum.Check", func() (string, error) { return "", e.Check() })
	d.call("Enum.Len", func() (string, error) { n, err := e.Len(); return strconv.Itoa(int(n)), err })
	d.call("Enum.Values", func() (string, error) {
		vv, err := e.Values()
		if err != nil {
			return "", err
		}
		var sb strings.Builder
		for _, v := range vv {
			fmt.Fprintf(&sb, "%s %q #%q; ", string(v.Type), v.Value.String(), v.Comment)
		}
		return sb.String(), nil
	})
	d.call("Enum.GetAST", func() (string, error) { return astString(e.GetAST()) })
}

func c09ExecRegex(d *c09Digest, text string) {
	rs := regex.New("r", text)
	ok := d.call("RSchema.Check", func() (string, error) { return "", rs.Check() })
	d.call("RSchema.Len", func() (string, error) { n, err := rs.Len(); return strconv.Itoa(int(n)), err })
	d.call("RSchema.Pattern", func() (string, error) { return rs.Pattern() })
	d.call("RSchema.GetAST", func() (string, error) { return astString(rs.GetAST()) })
	d.call("RSchema.Example(first)", func() (string, error) { b, err := rs.Example(); return string(b), err })
	if ok {
		d.call("RSchema.OpenAPI", func() (string, error) {
			b, err := openapi.NewSchemaObject(rs).MarshalJSON()
			return string(b), err
		})
	}
}

func c09ExecDoc(d *c09Digest, text string) {
	for _, trailing := range []bool{false, true} {
		var opts []jdoc.Option
		name := "Document"
		if trailing {
			opts = append(opts, jdoc.AllowTrailingNonSpaceCharacters())
			name = "Document(trailing)"
		}
		doc := jdoc.New("doc", text, opts...)
		d.call(name+".Check", func() (string, error) { return "", doc.Check() })
		d.call(name+".Len", func() (string, error) { n, err := doc.Len(); return strconv.Itoa(int(n)), err })
		var sb strings.Builder
		ok := d.call(name+".NextLexeme", func() (string, error) {
			fresh := jdoc.New("doc", text, opts...)
			for n := 0; ; n++ {
				lex, err := fresh.NextLexeme()
				if errors.Is(err, io.EOF) {
					return "", nil
				}
				if err != nil {
					return "", err
				}
				fmt.Fprintf(&sb, "%s:%d-%d ", lex.Type().String(), lex.Begin(), lex.End())
				if n > 4*len(text)+16 {
					return "", errors.New("harness: NextLexeme does not terminate")
				}
			}
		})
		if ok {
			d.add(name+".lexemes", sb.String())
		} else {
			d.add(name+".lexemes before the error", sb.String())
		}
	}
}

// ---- comparing -----------------------------------------------------------------

// c09Diff returns the first field in which two digests differ. A difference
// that survives masking heap addresses is preferred over one that does not
// (addrOnly), so that an address in a message cannot hide another defect.
func c09Diff(a, b c09Digest) (field, va, vb string, addrOnly, differ bool) {
	at := func(mask bool) (string, string, string, bool) {
		n := len(a)
		if len(b) < n {
			n = len(b)
		}
		for i := 0; i < n; i++ {
			if a[i].Name != b[i].Name {
				return a[i].Name + " (another field in its place)", a[i].Name + "=" + a[i].Val, b[i].Name + "=" + b[i].Val, true
			}
			if a[i].Val != b[i].Val && (!mask || c09MaskAddr(a[i].Val) != c09MaskAddr(b[i].Val)) {
				return a[i].Name, a[i].Val, b[i].Val, true
			}
		}
		if len(a) != len(b) {
			return "(number of fields)", strconv.Itoa(len(a)), strconv.Itoa(len(b)), true
		}
		return "", "", "", false
	}
	f, x, y, d := at(false)
	if !d {
		return "", "", "", false, false
	}
	if f2, x2, y2, d2 := at(true); d2 {
		return f2, x2, y2, false, true
	}
	return f, x, y, true, true
}

func c09AddrNote(addrOnly bool) string {
	if addrOnly {
		return " (the values differ in nothing but a heap address)"
	}
	return ""
}

func c09FieldHash(f c09Field) string {
	h := sha256.Sum256([]byte(f.Name + "\x00" + f.Val))
	return hex.EncodeToString(h[:6])
}

func c09MaskedHash(f c09Field) string {
	if strings.Contains(f.Val, "0x") {
		f.Val = c09MaskAddr(f.Val)
	}
	return c09FieldHash(f)
}

var c09AddrRE = regexp.MustCompile(`0x[0-9a-fA-F]{5,16}`)

func c09MaskAddr(s string) string { return c09AddrRE.ReplaceAllString(s, "0xADDR") }

func (c *c09Case) texts() []string {
	if c.Kind != "project" {
		return []string{c.Text}
	}
	out := []string{c.Project.Root}
	for _, t := range c.Project.Types {
		out = append(out, t.Name, t.Text)
	}
	for _, t := range c.Project.Rules {
		out = append(out, t.Name, t.Text)
	}
	return out
}

// input is the stable rendering of a case for keys: registration order does
// not show (types and rules sorted by name).
func (c *c09Case) input() string {
	if c.Kind != "project" {
		return c.Text
	}
	var sb strings.Builder
	sb.WriteString(c.Project.Root)
	part := func(tag string, l []typeDef) {
		l = append([]typeDef(nil), l...)
		sort.Slice(l, func(i, j int) bool { return l[i].Name < l[j].Name })
		for _, t := range l {
			sb.WriteString(" ; " + tag + t.Name + "=" + t.Text)
		}
	}
	part("", c.Project.Types)
	part("rule ", c.Project.Rules)
	return sb.String()
}

func (c *c09Case) entry() string {
	if c.Kind == "project" {
		return "project"
	}
	var ss []string
	for _, e := range []struct {
		b entrySet
		n string
	}{{epSchema, "schema"}, {epEnum, "enum"}, {epRegex, "regex"}, {epDoc, "document"}, {epGuess, "guess"}} {
		if c.Which&e.b != 0 {
			ss = append(ss, e.n)
		}
	}
	return strings.Join(ss, "+")
}

func c09Trunc100(s string) string {
	if len(s) > 100 {
		return s[:100]
	}
	return s
}

func (c *c09Case) key(field string) string {
	return c09MaskAddr(c.entry() + " " + field + " " + c09Trunc100(c.input()))
}

// addresses reports heap addresses in a digest that the input did not contain.
func (st *c09State) addresses(c *c09Case, d c09Digest) {
	for _, f := range d {
		if !strings.Contains(f.Val, "0x") {
			continue
		}
		for _, m := range c09AddrRE.FindAllString(f.Val, 4) {
			inInput := false
			for _, t := range c.texts() {
				if strings.Contains(t, m) {
					inInput = true
				}
			}
			if inInput {
				continue
			}
			st.violate("address-in-output", c.key(f.Name),
				fmt.Sprintf("%s: field %s carries the heap address %s (not part of the input): %s; input %s", c.entry(), f.Name, m, c09Around(f.Val, m), mon.Trunc(c.input(), 200)), c)
			return
		}
	}
}

func c09Around(val, m string) string {
	i := strings.Index(val, m)
	lo, hi := i-80, i+len(m)+60
	if lo < 0 {
		lo = 0
	}
	if hi > len(val) {
		hi = len(val)
	}
	return strconv.Quote(val[lo:hi])
}

func c09Show(s string) string { return strconv.Quote(mon.Trunc(s, 180)) }

// ---- heap perturbation ------------------------------------------------------------

type c09Blob32 struct {
	p    *int
	a, b uintptr
	q    *int
}

type c09Blob64 struct {
	p [4]*int
	a [4]uintptr
}

var (
	c09Keep32 []*c09Blob32
	c09Keep64 []*c09Blob64
	c09KeepB  [][]byte
)

// c09Perturb punches holes into the spans of the small size classes so that
// objects allocated next do not come in ascending address order.
func c09Perturb(rng *rand.Rand, scale int) {
	if len(c09Keep32) == 0 {
		c09Keep32 = make([]*c09Blob32, 4096*scale)
		c09Keep64 = make([]*c09Blob64, 2048*scale)
		c09KeepB = make([][]byte, 512*scale)
	}
	for i := range c09Keep32 {
		if c09Keep32[i] == nil || rng.IntN(6) == 0 {
			c09Keep32[i] = &c09Blob32{}
		}
	}
	for i := range c09Keep64 {
		if c09Keep64[i] == nil || rng.IntN(6) == 0 {
			c09Keep64[i] = &c09Blob64{}
		}
	}
	for i := range c09KeepB {
		if rng.IntN(3) == 0 {
			c09KeepB[i] = make([]byte, 16<<rng.IntN(8))
		}
	}
	// drop a scattered few
	for k := 0; k < len(c09Keep32)/16; k++ {
		c09Keep32[rng.IntN(len(c09Keep32))] = nil
	}
	for k := 0; k < len(c09Keep64)/16; k++ {
		c09Keep64[rng.IntN(len(c09Keep64))] = nil
	}
	runtime.GC()
}

// ---- judging one case -----------------------------------------------------------------

type c09State struct {
	r       *mon.Run
	t0      time.Time
	nCases  int
	fired   bool
	R, P    int
	rng     *rand.Rand
	batch   []c09Pending
	batchNo int
	bySrc   map[string]int
}

type c09Pending struct {
	Case   *c09Case `json:"c"`
	Hashes []string `json:"h"`
	Masked []string `json:"m"` // hashes of the fields with heap addresses masked
	// AddrSeen: this case already showed an address that changes per execution.
	AddrSeen bool `json:"a,omitempty"`
}

// violate records a violation and notes how soon the first one of this shard came.
func (st *c09State) violate(clause, key, what string, c *c09Case) {
	if !st.fired {
		st.fired = true
		st.r.Note(fmt.Sprintf("shard %2d: first violation (%s) on case %d of the shard, %.2f s after the worker started", st.r.Shard, clause, st.nCases, time.Since(st.t0).Seconds()))
	}
	st.r.Violate(clause, key, what, c)
}

func factorial(n int) int {
	f := 1
	for i := 2; i <= n; i++ {
		f *= i
	}
	return f
}

// permutations returns all permutations of 0..k-1 for k <= 4 (identity first)
// and the identity plus 24 seeded samples beyond.
func c09Perms(k int, rng *rand.Rand) [][]int {
	if k <= 4 {
		var out [][]int
		var rec func(cur []int, used int)
		rec = func(cur []int, used int) {
			if len(cur) == k {
				out = append(out, append([]int(nil), cur...))
				return
			}
			for i := 0; i < k; i++ {
				if used&(1<<i) == 0 {
					rec(append(cur, i), used|1<<i)
				}
			}
		}
		rec(nil, 0)
		return out
	}
	out := [][]int{identity(k)}
	rev := identity(k)
	for i, j := 0, k-1; i < j; i, j = i+1, j-1 {
		rev[i], rev[j] = rev[j], rev[i]
	}
	out = append(out, rev)
	for len(out) < 25 {
		p := identity(k)
		rng.Shuffle(k, func(i, j int) { p[i], p[j] = p[j], p[i] })
		out = append(out, p)
	}
	return out
}

func (st *c09State) judge(c *c09Case) {
	r := st.r
	if !r.Begin(func() []byte { b, _ := stdjson.Marshal(c); return b }) {
		return
	}
	r.Eval(1)
	tCase := time.Now()
	defer func() { r.Count("wall_ms:"+c.Source, time.Since(tCase).Milliseconds()) }()
	st.nCases++
	st.bySrc[c.Source]++
	if st.bySrc[c.Source] == 2 && len(c.input()) < 400 {
		r.Sample(c)
	}
	r.Nontrivial(c.Kind, fmt.Sprint(c.Which), c.input())

	base := c09Exec(c, nil, nil)
	st.addresses(c, base)
	for _, f := range base {
		if strings.HasSuffix(f.Name, ".error") && f.Val != "nil" {
			r.Count("cases_with_an_error_or_panic_in_the_result", 1)
			break
		}
	}
	if c.Kind == "project" {
		for _, f := range base {
			if f.Name == "Check.error" {
				if f.Val == "nil" {
					r.Count("projects_accepted_by_Check", 1)
				} else {
					r.Count("projects_rejected_by_Check", 1)
				}
			}
			if strings.HasPrefix(f.Name, "AddType(") && strings.HasSuffix(f.Name, ".error") && f.Val != "nil" {
				r.Count("AddType_calls_failing_in_the_first_execution", 1)
			}
		}
	}
	// an identifier of the case for seeded choices that must not depend on the shard walk
	caseRng := rand.New(rand.NewPCG(r.Seed, hash64(c.input())))

	// (i) repetitions
	unnamed := false
	for _, t := range c.texts() {
		if strings.Contains(t, "or:") || strings.Contains(t, "or\":") || strings.Contains(t, "or :") || strings.Contains(t, "allOf") {
			unnamed = true
		}
	}
	addrSeen := false
	reps, every := st.R, st.R/2
	if r.Thor {
		every = st.R / 4
	}
	if c.Source == "pinned" { // the witnesses of repaired or reported defects get more executions
		reps, every = st.R*16, 4
	}
	for i := 1; i < reps; i++ {
		if unnamed && st.R >= 8 && i%every == 0 {
			c09Perturb(st.rng, 1)
			r.Count("heap_perturbations", 1)
		}
		d := c09Exec(c, nil, nil)
		r.Count("executions_in_process", 1)
		if f, a, b, ao, differ := c09Diff(base, d); differ && !(ao && addrSeen) {
			st.violate("repetition", c.key(f),
				fmt.Sprintf("%s: execution %d of %d in one process differs from the first in %s: %s vs %s%s; input %s", c.entry(), i+1, reps, f, c09Show(a), c09Show(b), c09AddrNote(ao), mon.Trunc(c.input(), 300)), c)
			st.addresses(c, d)
			if !ao {
				return // the other clauses would be confounded
			}
			// An address that changes with every execution is reported once; the
			// comparison goes on with addresses masked, so that it cannot hide a
			// result that depends on something else.
			addrSeen = true
		}
		if i == reps/2 {
			st.addresses(c, d)
		}
	}
	// (iii) registration orders
	if c.Kind == "project" && (len(c.Project.Types) > 1 || len(c.Project.Rules) > 1) {
		kt, kr := len(c.Project.Types), len(c.Project.Rules)
		r.CountMax("max:types_in_a_project", int64(kt))
		var tperms, rperms [][]int
		if kt > 1 {
			tperms = c09Perms(kt, caseRng)
		} else {
			tperms = [][]int{identity(kt)}
		}
		if kr > 1 {
			rperms = c09Perms(kr, caseRng)
		} else {
			rperms = [][]int{identity(kr)}
		}
		n := len(tperms)
		if kt <= 1 {
			n = len(rperms)
		}
		if n > 25 {
			n = 25
		}
		if kt <= 4 && kt > 1 {
			r.Count("projects_with_all_type_permutations", 1)
		}
		for i := 1; i < n; i++ {
			to := tperms[i%len(tperms)]
			ro := rperms[(i*7+caseRng.IntN(len(rperms)))%len(rperms)]
			if kt <= 1 {
				ro = rperms[i]
			}
			d := c09Exec(c, to, ro)
			r.Count("executions_with_permuted_registration", 1)
			if f, a, b, ao, differ := c09Diff(base, d); differ && !(ao && addrSeen) {
				st.violate("registration-order", c.key(f),
					fmt.Sprintf("registering the types in order %v and the rules in order %v (indices into the case) changes %s: %s vs %s%s; input %s", to, ro, f, c09Show(a), c09Show(b), c09AddrNote(ao), mon.Trunc(c.input(), 300)), c)
				return
			}
		}
	}
	// (ii) fresh processes: batched
	if st.P > 0 {
		hs := make([]string, len(base))
		ms := make([]string, len(base))
		for i, f := range base {
			hs[i] = c09FieldHash(f)
			ms[i] = c09MaskedHash(f)
		}
		st.batch = append(st.batch, c09Pending{Case: c, Hashes: hs, Masked: ms, AddrSeen: addrSeen})
		if len(st.batch) >= 1500 {
			st.flush()
		}
	}
}

func hash64(s string) uint64 {
	h := sha256.Sum256([]byte(s))
	var v uint64
	for i := 0; i < 8; i++ {
		v = v<<8 | uint64(h[i])
	}
	return v
}

var (
	c09GOGC  = []string{"off", "1", "10", "100", "25", "400", "5", "50"}
	c09Procs = []string{"1", "8", "2", "16", "3", "4"}
)

type c09ChildOut struct {
	I        int    `json:"i"`
	Field    string `json:"field,omitempty"`
	Got      string `json:"got,omitempty"`
	AddrOnly bool   `json:"addr_only,omitempty"`
	Done     int    `json:"done,omitempty"`
}

// flush runs the pending cases in P fresh processes and compares field hashes.
func (st *c09State) flush() {
	r := st.r
	if len(st.batch) == 0 {
		return
	}
	batch := st.batch
	st.batch = nil
	st.batchNo++
	os.MkdirAll(r.OutDir, 0o755)
	in := filepath.Join(r.OutDir, fmt.Sprintf("c09-batch.%d.%d.in", r.Shard, st.batchNo))
	f, err := os.Create(in)
	if err != nil {
		r.Inconclusive("child-input")
		return
	}
	w := bufio.NewWriter(f)
	enc := stdjson.NewEncoder(w)
	for _, p := range batch {
		enc.Encode(p)
	}
	w.Flush()
	f.Close()
	defer os.Remove(in)
	reported := map[int]bool{}
	for j := 0; j < st.P; j++ {
		gogc := c09GOGC[(j+r.Shard+st.batchNo)%len(c09GOGC)]
		procs := c09Procs[j%len(c09Procs)] // the first child always runs on one P
		garbage := strconv.Itoa(int(r.Seed%1000)*131 + r.Shard*17 + j*7919 + st.batchNo)
		out := filepath.Join(r.OutDir, fmt.Sprintf("c09-batch.%d.%d.out%d", r.Shard, st.batchNo, j))
		ctx, cancel := context.WithTimeout(context.Background(), 20*time.Minute)
		cmd := exec.CommandContext(ctx, r.Exe, "child", "c09-digest", in, out, garbage)
		cmd.Env = append(os.Environ(), "GOGC="+gogc, "GOMAXPROCS="+procs)
		cmd.Stderr = os.Stderr
		runErr := cmd.Run()
		cancel()
		b, _ := os.ReadFile(out)
		os.Remove(out)
		done := false
		for _, ln := range strings.Split(string(b), "\n") {
			if ln == "" {
				continue
			}
			var o c09ChildOut
			if stdjson.Unmarshal([]byte(ln), &o) != nil {
				continue
			}
			if o.Done > 0 {
				done = o.Done == len(batch)
				continue
			}
			if o.I < 0 || o.I >= len(batch) || reported[o.I] || (o.AddrOnly && batch[o.I].AddrSeen) {
				continue
			}
			reported[o.I] = true
			c := batch[o.I].Case
			// the value this process saw (recomputed; it was stable over R executions)
			mine := "?"
			for _, fl := range c09Exec(c, nil, nil) {
				if fl.Name == o.Field {
					mine = fl.Val
				}
			}
			st.violate("process", c.key(o.Field),
				fmt.Sprintf("%s: a fresh process (GOGC=%s GOMAXPROCS=%s garbage seed %s) differs from this process in %s: %s vs %s%s; input %s", c.entry(), gogc, procs, garbage, o.Field, c09Show(mine), c09Show(o.Got), c09AddrNote(o.AddrOnly), mon.Trunc(c.input(), 300)), c)
		}
		if !done {
			r.Inconclusive("child-process-did-not-finish")
			r.Note(fmt.Sprintf("c09 child (GOGC=%s GOMAXPROCS=%s) did not finish a batch of %d cases: %v", gogc, procs, len(batch), runErr))
			continue
		}
		r.Count("executions_in_fresh_processes", int64(len(batch)))
		r.Count("fresh_processes_started", 1)
	}
	r.Count("cases_compared_across_processes", int64(len(batch)))
}

// c09Child: vcheck child c09-digest <in> <out> <garbage seed>
func c09Child(args []string) int {
	if len(args) < 3 {
		return 2
	}
	seed, _ := strconv.ParseUint(args[2], 10, 64)
	rng := rand.New(rand.NewPCG(seed, 0xC09))
	// a seeded amount of garbage moves every later heap address
	for n := rng.IntN(4); n >= 0; n-- {
		c09Perturb(rng, 1+rng.IntN(8))
	}
	pad := make([][]byte, rng.IntN(3000))
	for i := range pad {
		pad[i] = make([]byte, 8<<rng.IntN(12))
	}
	b, err := os.ReadFile(args[0])
	if err != nil {
		fmt.Fprintln(os.Stderr, err)
		return 2
	}
	var cases []c09Pending
	for _, ln := range strings.Split(string(b), "\n") {
		if ln == "" {
			continue
		}
		var p c09Pending
		if err := stdjson.Unmarshal([]byte(ln), &p); err != nil {
			fmt.Fprintln(os.Stderr, err)
			return 2
		}
		cases = append(cases, p)
	}
	of, err := os.Create(args[1])
	if err != nil {
		fmt.Fprintln(os.Stderr, err)
		return 2
	}
	defer of.Close()
	w := bufio.NewWriter(of)
	enc := stdjson.NewEncoder(w)
	order := identity(len(cases))
	rng.Shuffle(len(order), func(i, j int) { order[i], order[j] = order[j], order[i] })
	for _, i := range order {
		p := cases[i]
		d := c09Exec(p.Case, nil, nil)
		n := len(d)
		if len(p.Hashes) < n {
			n = len(p.Hashes)
		}
		raw, masked := -1, -1
		for k := 0; k < n; k++ {
			if raw < 0 && c09FieldHash(d[k]) != p.Hashes[k] {
				raw = k
			}
			if masked < 0 && k < len(p.Masked) && c09MaskedHash(d[k]) != p.Masked[k] {
				masked = k
				break
			}
		}
		switch {
		case masked >= 0:
			enc.Encode(c09ChildOut{I: i, Field: d[masked].Name, Got: mon.Trunc(d[masked].Val, 4000)})
		case raw >= 0:
			enc.Encode(c09ChildOut{I: i, Field: d[raw].Name, Got: mon.Trunc(d[raw].Val, 4000), AddrOnly: true})
		case len(d) != len(p.Hashes):
			enc.Encode(c09ChildOut{I: i, Field: "(number of fields)", Got: strconv.Itoa(len(d))})
		}
	}
	runtime.KeepAlive(pad)
	enc.Encode(c09ChildOut{Done: len(cases)})
	w.Flush()
	return 0
}

// ---- workload -----------------------------------------------------------------------

var c09Names = []string{"@a", "@b", "@c", "@d", "@e", "@f", "@Z", "@a1", "@_g"}

var c09Keys = []string{"k", "id", "name", "x", "a.b", "k2", "z"}

// placeholders: $A $B other types of the project, $M a type nobody registers,
// $E an enum rule of the project, $K $L keys
var c09Valid = []string{
	`{"$K": 1, "$L": "s"}`, `{"$K": $A}`, "{\n  \"$K\": $A,\n  \"$L\": $B // {optional: true}\n}", `[$A]`, `[$A, $B]`, `$A | $B`, `$A`,
	`"str"`, `"abc" // {regex: "[a-c]+"}`, `42 // {min: 1, max: 100}`, `1.5 // {precision: 2}`, `true`, `null`, `[]`, `{}`,
	`{} // {allOf: "$A"}`, `{} // {allOf: ["$A", "$B"]}`, "{ // {allOf: [\"$A\", \"$B\"]}\n  \"own\": 1\n}", "{ // {allOf: [\"$B\", \"$A\"]}\n  \"$K\": 2\n}",
	`{} // {additionalProperties: "$A"}`, "{ // {additionalProperties: \"string\"}\n  \"$K\": 1\n}", `{} // {additionalProperties: true}`, `{} // {additionalProperties: "any"}`,
	`{$A: 1}`, `{$A: $B}`, "{\n  $A: 1,\n  \"$K\": $B\n}", "{\n  \"$K\": 1 // {type: \"$A\"}\n}", `1 // {type: "$A"}`, `"s" // {type: "$A"}`,
	`1 // {or: ["$A", "$B"]}`, `"x" // {or: [{type: "string"}, {type: "integer"}]}`, `5 // {or: [{type: "integer", min: 1}, {type: "string", minLength: 2}, "$A"]}`,
	`"a" // {enum: ["a", "b"]}`, `"a" // {enum: $E}`, `1 // {enum: $E}`, `"a.b" // {enum: $E}`, `"2021-01-01" // {type: "date"}`, `"a@b.cc" // {type: "email"}`,
	"{\n  \"$K\": $A // {nullable: true}\n}", "{\n  \"$K\": [ // {minItems: 1}\n    $A\n  ]\n}", "[\n  $A, // {optional: true}\n  $B\n]",
	`"x" // {const: true}`, `{"$K": {"$L": $A}}`, `[[$A]]`, `{"$K": $A | $B}`, `"1.5"`, `"a.b"`, `"1e3"`, `1e3`, `1.50`,
	"{ // {additionalProperties: \"$B\"}\n  \"$K\": $A\n}", `"k" // {type: "any"}`, `1 // {type: "mixed", or: ["$A", "$B"]}`,
}

var c09CheckBroken = []string{
	`1 // {min: 5}`, `"abc" // {maxLength: 2}`, `"x" // {type: "integer"}`, `$M`, `{"$K": $M}`, `[$M]`, `$A | $M`, `[] // {minItems: 1}`,
	`12 // {type: "email"}`, `{} // {allOf: "$M"}`, "{ // {allOf: \"$A\"}\n  \"$K\": 1\n}", `1 // {enum: [2, 3]}`, `"a" // {or: [{type: "integer"}, {type: "boolean"}]}`,
	`1 // {type: "$A"}`, `{$A: 1}`, `1.234 // {precision: 2}`, `{} // {additionalProperties: "$M"}`, `1 // {or: ["$M", "$A"]}`, `true // {type: "string"}`,
	`"2021-13-01" // {type: "date"}`, `"x" // {regex: "^y$"}`, `{} // {allOf: ["$A", "$M"]}`, `{} // {allOf: ["$A", "$A"]}`, "[ // {maxItems: 0}\n  1\n]",
	`"zz" // {enum: $E}`, `{$M: 1}`, `{"$K": 1 // {type: "$M"}` + "\n}", `"x" // {type: "uuid"}`, `-1 // {min: 0, exclusiveMinimum: true}`,
	"{\n  \"$K\": 1, // {min: 2}\n  \"$L\": \"s\" // {maxLength: 0}\n}", `{"$K": $A, "$L": $M}`, `1 // {or: [{type: "$M"}, {type: "string"}]}`,
	`{} // {allOf: "$A", additionalProperties: "$M"}`, `[$A, $M]`, `2 // {const: true, min: 3}`,
	"{\n  \"p\": $A | $M,\n  \"q\": $B | $M\n}", "[\n  $A | $M,\n  $M | $B\n]",
}

var c09LoadBroken = []string{
	`{`, `{"a": }`, `1 // {unknown: 1}`, `1 // {min: "x"}`, `"x" // {regex: "("}`, `[1,`, `1 // {enum: @nosuchrule}`, ``, `// only a comment`, `{"a":1,"a":2}`,
	`1 // {min: 2, min: 3}`, `1 // {min: 5, max: 1}`, `"x" // {or: [{type: "integer", min: 5, max: 1}, {type: "string"}]}`, `1 // {type: "wrong"}`, `@`, `$A |`,
	`1 2`, `{"a": 1 // {optional: maybe}` + "\n}", `"x" // {minLength: 3, maxLength: 1}`, `1 // {or: ["$A"]}`, `1 // {or: []}`, `tru`, `"unterminated`, `{} // {allOf: []}`,
	`1 // {precision: 0}`, `1 /* {min: 1} `, `{"a": 1} }`,
}

var c09RegexTypes = []string{`/[a-z]{3}/`, `/\d+/`, `/[\x00-\x08]/`, `/\x7f/`, `/(/`, `/a`, `abc`, "/é+/", `/./`, `/[a-c]|x{2}/`, `/"/`, `/\\/`, ``, `/\x{10FFFF}/`, `/[^\x00-\x{FFFF}]/`}

var c09OrOptions = []string{
	`{type: "integer"}`, `{type: "string"}`, `{type: "integer", min: 1}`, `{type: "string", minLength: 2}`, `{type: "float", precision: 1}`, `{type: "boolean"}`, `{type: "null"}`,
	`"$A"`, `"$B"`, `{type: "$A"}`, `{type: "$M"}`, `"$M"`, `{type: "string", regex: "^a"}`, `{enum: [1, "a"]}`, `{type: "enum", enum: [1, 2]}`, `{enum: $E}`, `{type: "array"}`, `{type: "object"}`,
	`{type: "integer", precision: 2}`, `{type: "string", min: 1}`, `{type: "email"}`, `{type: "date"}`, `{type: "any"}`, `{type: "string", minLength: 5, maxLength: 1}`,
	`{min: 1}`, `{}`, `{type: "integer", const: true}`, `{type: "array", minItems: 1}`, `{type: "object", additionalProperties: "$A"}`, `{type: "object", additionalProperties: "$M"}`,
	`{type: "string", maxLength: 1}`, `{type: "integer", max: 0}`, `{type: "float", min: 9.5}`, `{type: "uuid"}`, `{type: "string", const: true}`, `{type: "decimal", precision: 1}`,
	`{type: "object", allOf: "$A"}`, `{type: "mixed"}`, `{or: [{type: "string"}, {type: "null"}]}`, `{type: "string", nullable: true}`, `{type: "integer", optional: true}`,
}

var c09OrValues = []string{`1`, `"a"`, `"abc"`, `2.5`, `true`, `null`, `[]`, `{}`, `"a@b.cc"`, `-3`, `"1.5"`, `[1]`, `{"k": 1}`, `$A`}

var c09RuleTexts = []string{
	`["a", "b"]`, `[1, 2.0, "1.5", "a.b", "1e3", true, null]`, `[`, `[1, 1]`, ``, `["a.b"]`, `[1.5, "1.5"]`, "[\n  \"a\", // first\n  \"b\"  // second\n]", `[1 2]`, `["zz", "a"]`, `[1e3, 1000]`, `[null]`, `"a"`, `[@a]`,
}

type c09Ctx struct {
	names []string
	rules []string
	rng   *rand.Rand
}

func (x *c09Ctx) inst(t string) string {
	pick := func(l []string, dflt string) string {
		if len(l) == 0 {
			return dflt
		}
		return l[x.rng.IntN(len(l))]
	}
	var sb strings.Builder
	for i := 0; i < len(t); i++ {
		if t[i] != '$' || i+1 >= len(t) {
			sb.WriteByte(t[i])
			continue
		}
		i++
		switch t[i] {
		case 'A', 'B':
			sb.WriteString(pick(x.names, "@nobody"))
		case 'M':
			sb.WriteString("@missing" + strconv.Itoa(x.rng.IntN(3)))
		case 'E':
			sb.WriteString(pick(x.rules, "@norule"))
		case 'K', 'L':
			sb.WriteString(c09Keys[x.rng.IntN(len(c09Keys))])
		default:
			sb.WriteByte('$')
			sb.WriteByte(t[i])
		}
	}
	return sb.String()
}

func (x *c09Ctx) orText() string {
	n := 2 + x.rng.IntN(3)
	opts := make([]string, n)
	for i := range opts {
		opts[i] = c09OrOptions[x.rng.IntN(len(c09OrOptions))]
	}
	v := c09OrValues[x.rng.IntN(len(c09OrValues))]
	s := v + ` // {or: [` + strings.Join(opts, ", ") + `]}`
	switch x.rng.IntN(6) {
	case 0:
		s = "{\n  \"" + c09Keys[x.rng.IntN(len(c09Keys))] + "\": " + s + "\n}"
	case 1:
		s = "[\n  " + s + "\n]"
	case 2: // two rule-sets in one text
		v2 := c09OrValues[x.rng.IntN(len(c09OrValues))]
		s = "{\n  \"p\": " + s + ",\n  \"q\": " + v2 + ` // {or: [` + c09OrOptions[x.rng.IntN(len(c09OrOptions))] + ", " + c09OrOptions[x.rng.IntN(len(c09OrOptions))] + "]}\n}"
	}
	return x.inst(s)
}

// text draws one type/root text. broken: 0 valid-ish, 1 fails in Check, 2 fails to load.
func (x *c09Ctx) text(broken int) string {
	switch broken {
	case 1:
		if x.rng.IntN(5) == 0 {
			return x.orText()
		}
		return x.inst(c09CheckBroken[x.rng.IntN(len(c09CheckBroken))])
	case 2:
		return x.inst(c09LoadBroken[x.rng.IntN(len(c09LoadBroken))])
	}
	if x.rng.IntN(4) == 0 {
		return x.orText()
	}
	return x.inst(c09Valid[x.rng.IntN(len(c09Valid))])
}

// c09GenProject draws a project biased to what the map-ranging code handles:
// several broken types at once, allOf parents, or rule-sets, load errors.
func c09GenProject(rng *rand.Rand) *project {
	k := 1 + rng.IntN(6)
	if rng.IntN(12) == 0 {
		k = 7 + rng.IntN(3)
	}
	names := append([]string(nil), c09Names...)
	rng.Shuffle(len(names), func(i, j int) { names[i], names[j] = names[j], names[i] })
	names = names[:k]
	x := &c09Ctx{names: names, rng: rng}
	p := &project{}
	for nr := rng.IntN(4); nr > 0; nr-- {
		name := "@e" + strconv.Itoa(len(p.Rules)+1)
		var text string
		if rng.IntN(2) == 0 {
			text = c09RuleTexts[rng.IntN(len(c09RuleTexts))]
		} else {
			text = c17Layout(rng, c17GenItems(rng, rng.IntN(6) == 0), false)
		}
		p.Rules = append(p.Rules, typeDef{Name: name, Text: text})
		x.rules = append(x.rules, name)
	}
	// how many types are broken: none / one / several
	mode := rng.IntN(10)
	for i, n := range names {
		broken := 0
		switch {
		case mode < 2:
		case mode < 4:
			if i == 0 {
				broken = 1 + rng.IntN(2)
			}
		default:
			if rng.IntN(2) == 0 {
				broken = 1
				if rng.IntN(4) == 0 {
					broken = 2
				}
			}
		}
		if rng.IntN(10) == 0 {
			p.Types = append(p.Types, typeDef{Name: n, Text: c09RegexTypes[rng.IntN(len(c09RegexTypes))], Regex: true})
			continue
		}
		p.Types = append(p.Types, typeDef{Name: n, Text: x.text(broken)})
	}
	switch rng.IntN(5) {
	case 0: // a root that reaches every type
		var sb strings.Builder
		sb.WriteString("{\n")
		for i, n := range names {
			fmt.Fprintf(&sb, "  \"r%d\": %s", i, n)
			if i < len(names)-1 {
				sb.WriteString(",")
			}
			sb.WriteString("\n")
		}
		sb.WriteString("}")
		p.Root = sb.String()
	case 1:
		p.Root = `{} // {allOf: ["` + strings.Join(names, `", "`) + `"]}`
	case 2:
		p.Root = x.text(1)
	default:
		p.Root = x.text(0)
	}
	return p
}

// c09GenTypedProject draws a project that is accepted by construction (types
// have kinds, references go to later types only, keys are unique per type so
// that allOf parents do not clash) and then breaks nBroken of its types, each
// with another template: whatever is reported depends on which broken type
// the library looks at first.
func c09GenTypedProject(rng *rand.Rand) *project {
	k := 2 + rng.IntN(5)
	names := append([]string(nil), c09Names...)
	rng.Shuffle(len(names), func(i, j int) { names[i], names[j] = names[j], names[i] })
	names = names[:k]
	kinds := make([]byte, k) // o object, s string, n number, a array, m mixed
	for i := range kinds {
		kinds[i] = "oooossnam"[rng.IntN(9)]
	}
	kinds[k-1] = "osn"[rng.IntN(3)]
	later := func(i int, kind string) (string, bool) {
		var c []string
		for j := i + 1; j < k; j++ {
			if kind == "" || strings.IndexByte(kind, kinds[j]) >= 0 {
				c = append(c, names[j])
			}
		}
		if len(c) == 0 {
			return "", false
		}
		return c[rng.IntN(len(c))], true
	}
	p := &project{}
	if rng.IntN(3) == 0 {
		p.Rules = append(p.Rules, typeDef{Name: "@e1", Text: `["a", "b", 1, 2.5, "a.b"]`})
	}
	for i, n := range names {
		key := func(j int) string { return fmt.Sprintf("k%d_%d", i, j) }
		anyT, okAny := later(i, "")
		objT, okObj := later(i, "o")
		strT, okStr := later(i, "s")
		var text string
		regexType := false
		switch kinds[i] {
		case 'o':
			switch c := rng.IntN(9); {
			case c == 0 && okObj:
				text = `{} // {allOf: "` + objT + `"}`
			case c == 1 && okObj:
				o2, _ := later(i, "o")
				if o2 == objT {
					text = "{ // {allOf: \"" + objT + "\"}\n  \"" + key(0) + "\": 2\n}"
				} else {
					text = "{ // {allOf: [\"" + objT + "\", \"" + o2 + "\"]}\n  \"" + key(0) + "\": 1\n}"
				}
			case c == 2 && okAny:
				text = "{ // {additionalProperties: \"" + anyT + "\"}\n  \"" + key(0) + "\": 1\n}"
			case c == 3 && okStr:
				text = "{\n  " + strT + ": 1,\n  \"" + key(0) + "\": true\n}"
			case c == 4 && okAny:
				a2, _ := later(i, "")
				text = "{\n  \"" + key(0) + "\": " + anyT + ",\n  \"" + key(1) + "\": " + a2 + " // {optional: true}\n}"
			case c == 5 && okAny:
				a2, _ := later(i, "")
				text = `{"` + key(0) + `": ` + anyT + ` | ` + a2 + `}`
			case c == 6 && okAny:
				text = "{\n  \"" + key(0) + "\": 1 // {or: [\"" + anyT + "\", {type: \"integer\", min: 0}]}\n}"
			case c == 7:
				text = "{ // {additionalProperties: \"string\"}\n  \"" + key(0) + "\": 1\n}"
			default:
				text = `{"` + key(0) + `": 1, "` + key(1) + `": "s"}`
			}
		case 's':
			ss := []string{`"abc"`, `"abc" // {regex: "[a-c]+"}`, `"a" // {enum: ["a", "b"]}`, `"x" // {or: [{type: "string"}, {type: "integer"}]}`, `"2021-01-01" // {type: "date"}`, `"a.b"`, `"1.5"`, `"a@b.cc" // {type: "email"}`, `"ab" // {minLength: 1, maxLength: 3}`}
			if len(p.Rules) > 0 {
				ss = append(ss, `"a.b" // {enum: @e1}`)
			}
			text = ss[rng.IntN(len(ss))]
			if rng.IntN(8) == 0 {
				text, regexType = []string{`/[a-z]{3}/`, `/\d+/`, `/[a-c]|x{2}/`}[rng.IntN(3)], true
			}
		case 'n':
			text = []string{`42 // {min: 1, max: 100}`, `5 // {or: [{type: "integer", min: 1}, {type: "string", minLength: 2}]}`, `1.5 // {precision: 2}`, `7`, `1e3`, `2 // {enum: [1, 2, 3]}`}[rng.IntN(6)]
		case 'a':
			switch c := rng.IntN(4); {
			case c == 0 && okAny:
				text = `[` + anyT + `]`
			case c == 1 && okAny:
				a2, _ := later(i, "")
				text = "[\n  " + anyT + ", // {optional: true}\n  " + a2 + "\n]"
			case c == 2 && okAny:
				text = "[ // {minItems: 1}\n  " + anyT + "\n]"
			default:
				text = `[1, "s"]`
			}
		default:
			if okAny {
				a2, _ := later(i, "")
				text = anyT + ` | ` + a2
				if rng.IntN(3) == 0 {
					text = anyT
				}
			} else {
				text = `null`
			}
		}
		p.Types = append(p.Types, typeDef{Name: n, Text: text, Regex: regexType})
	}
	// root
	var objs []string
	for i, n := range names {
		if kinds[i] == 'o' {
			objs = append(objs, n)
		}
	}
	switch c := rng.IntN(4); {
	case c == 0 && len(objs) > 0:
		if len(objs) > 2 {
			objs = objs[:2]
		}
		p.Root = "{ // {allOf: [\"" + strings.Join(objs, "\", \"") + "\"]}\n  \"root_own\": 1\n}"
	case c == 1:
		p.Root = names[rng.IntN(k)] + ` | ` + names[rng.IntN(k)]
	default:
		var sb strings.Builder
		sb.WriteString("{\n")
		for i, n := range names {
			fmt.Fprintf(&sb, "  \"r%d\": %s", i, n)
			if i < len(names)-1 {
				sb.WriteString(",")
			}
			if rng.IntN(4) == 0 {
				sb.WriteString(" // {optional: true}")
			}
			sb.WriteString("\n")
		}
		sb.WriteString("}")
		p.Root = sb.String()
	}
	// break some types
	nBroken := []int{0, 0, 0, 1, 2, 2, 2, 3, 3, 4}[rng.IntN(10)]
	if nBroken > k {
		nBroken = k
	}
	x := &c09Ctx{names: names, rng: rng}
	for _, t := range p.Rules {
		x.rules = append(x.rules, t.Name)
	}
	used := map[string]bool{}
	for _, i := range rng.Perm(k)[:nBroken] {
		for try := 0; try < 10; try++ {
			var tpl string
			if rng.IntN(6) == 0 {
				tpl = c09LoadBroken[rng.IntN(len(c09LoadBroken))]
			} else {
				tpl = c09CheckBroken[rng.IntN(len(c09CheckBroken))]
			}
			if used[tpl] {
				continue
			}
			used[tpl] = true
			p.Types[i].Text, p.Types[i].Regex = x.inst(tpl), false
			break
		}
	}
	rng.Shuffle(len(p.Types), func(i, j int) { p.Types[i], p.Types[j] = p.Types[j], p.Types[i] })
	return p
}

var c09TypeNameRE = regexp.MustCompile(`@[A-Za-z0-9_]+`)

// c09CorpusProject makes a project from a corpus schema: every type name it
// mentions is registered with a drawn text.
func c09CorpusProject(lit string, rng *rand.Rand) *project {
	seen := map[string]bool{}
	var names []string
	for _, n := range c09TypeNameRE.FindAllString(lit, -1) {
		if !seen[n] && len(names) < 8 {
			seen[n] = true
			names = append(names, n)
		}
	}
	if len(names) == 0 {
		return nil
	}
	extra := c09Names[rng.IntN(len(c09Names))]
	if !seen[extra] {
		names = append(names, extra)
	}
	x := &c09Ctx{names: names, rng: rng}
	p := &project{Root: lit}
	for _, n := range names {
		b := 0
		if rng.IntN(3) == 0 {
			b = 1 + rng.IntN(2)
		}
		p.Types = append(p.Types, typeDef{Name: n, Text: x.text(b)})
	}
	rng.Shuffle(len(p.Types), func(i, j int) { p.Types[i], p.Types[j] = p.Types[j], p.Types[i] })
	return p
}

// literals on which the type guesser's predicates overlap, and neighbours
var c09GuessAlpha = []string{`"`, "1", ".", "e", "-", "a", "{", "}", "[", "]", "true", "null", " ", "5"}

var c09GuessFixed = []string{
	`"1.5"`, `"a.b"`, `"1e3"`, `1.5`, `1e3`, `"true"`, `true`, `null`, `"null"`, `1`, `-0`, `"@a"`, `{}`, `[]`, `"{"`, `{`, `[1]`, `"[`, `1.0`, `1.`, `.5`, `tru`, ``, `"`, `""`,
	`1e`, `-`, `1E+2`, `0x1`, `"a"b"`, ` 1`, `nul`, `{"a.b":1}`, `"1.0e-2"`, `"."`, `"e"`, `1e-3`, `1.5e3`, `"-1.5"`, `"{}"`, `"[]"`, `[".5"]`, `{"k":"1.5"}`, `"0.0"`, `0.0`, `"1E3"`, `12345678901234567890`, `"12345678901234567890.5"`,
}

func c09Run(r *mon.Run) {
	// one worker per core is running: the collector of this (single-threaded)
	// workload does not need 16 Ps. The child processes vary GOMAXPROCS.
	runtime.GOMAXPROCS(2)
	st := &c09State{r: r, t0: time.Now(), R: r.Pick(16, 64), P: r.Pick(4, 16), rng: r.Rand("c09-perturb"), bySrc: map[string]int{}}
	defer func() {
		st.flush()
		for s, n := range st.bySrc {
			r.Count("source:"+s, int64(n))
		}
		r.CountMax("max:repetitions_per_case", int64(st.R))
		r.CountMax("max:fresh_processes_per_case", int64(st.P))
	}()
	text := func(which entrySet, s, src string) {
		st.judge(&c09Case{Kind: "text", Which: which, Text: s, Source: src})
	}
	proj := func(p *project, src string) {
		if p != nil {
			st.judge(&c09Case{Kind: "project", Project: p, Source: src})
		}
	}
	// (a) pinned witnesses of the repaired defects, in every shard's first process batch of shard 0
	if r.Shard == 0 {
		text(epEnum, `["a.b"]`, "pinned")
		text(epEnum|epGuess, `"a.b"`, "pinned")
		proj(&project{Root: `{"x": @a, "y": @b}`, Types: []typeDef{{Name: "@a", Text: `1 // {min: 5}`}, {Name: "@b", Text: `"abc" // {maxLength: 2}`}}}, "pinned")
		proj(&project{Root: `"x" // {type: "@r"}`, Types: []typeDef{{Name: "@r", Text: `/[\x00-\x08]/`, Regex: true}}}, "pinned")
		proj(&project{Root: `{"x": @a}`, Types: []typeDef{{Name: "@a", Text: `{"a": }`}, {Name: "@b", Text: `[1,`}}}, "pinned")
		proj(&project{Root: `{} // {allOf: ["@a", "@b"]}`, Types: []typeDef{{Name: "@a", Text: `{"k": 1}`}, {Name: "@b", Text: `{"k": 2}`}, {Name: "@c", Text: `{} // {allOf: ["@b", "@a"]}`}}}, "pinned")
		proj(&project{Root: `{"x": @m}`, Types: []typeDef{{Name: "@m", Text: "{\n  \"p\": @m | @zz,\n  \"q\": @m | @yy\n}"}}}, "pinned")
		proj(&project{Root: `1 // {or: [{type: "integer", min: 1}, {type: "string", minLength: 2}, "@a"]}`, Types: []typeDef{{Name: "@a", Text: `"a" // {or: [{type: "string"}, {type: "null"}]}`}}}, "pinned")
	}
	// (a2) places where several candidates exist and one is named or listed: the choice must not follow a map
	if r.Shard == 1%mon.LogicalShards {
		// a key shortcut whose type is a choice over several kinds that are not strings: which kind the refusal names
		for _, alts := range [][]string{{"12", "true", "[1]"}, {"true", "12"}, {"[1]", "{}", "1.5", "null"}, {`"s"`, "12", "false"}} {
			var types []typeDef
			var names []string
			for i, a := range alts {
				n := fmt.Sprintf("@k%d", i)
				types = append(types, typeDef{Name: n, Text: a})
				names = append(names, n)
			}
			types = append(types, typeDef{Name: "@k", Text: strings.Join(names, " | ")})
			proj(&project{Root: "{ @k: 1 }", Types: types}, "key shortcut typed by a choice over several kinds")
			proj(&project{Root: "{\n  \"a\": { @k: 1 },\n  @k: 2\n}", Types: types}, "key shortcut typed by a choice over several kinds")
		}
		// several or rule-sets that name types mentioned nowhere else: the order of UsedUserTypes()
		ut := []typeDef{{Name: "@t1", Text: "1"}, {Name: "@t2", Text: `"s"`}, {Name: "@t3", Text: "true"}, {Name: "@t4", Text: "[1]"}, {Name: "@t5", Text: "{}"}}
		proj(&project{Root: `1 // {or: [{type: "@t1", nullable: true}, {type: "@t2", nullable: true}, {type: "@t3", nullable: true}, {type: "@t4", nullable: true}, {type: "@t5", nullable: true}]}`, Types: ut}, "or rule-sets naming types mentioned nowhere else")
		proj(&project{Root: "{\n  \"a\": 1, // {or: [{type: \"@t5\", nullable: true}, {type: \"@t1\", nullable: true}]}\n  \"b\": \"s\", // {or: [{type: \"@t4\", nullable: true}, {type: \"@t2\", nullable: true}]}\n  \"c\": true // {or: [{type: \"@t3\", nullable: true}, {type: \"string\"}]}\n}", Types: ut}, "or rule-sets naming types mentioned nowhere else")
		proj(&project{Root: `{} // {or: [{type: "object", additionalProperties: "@t3"}, {type: "@t2", nullable: true}, {type: "@t1", nullable: true}]}`, Types: ut}, "or rule-sets naming types mentioned nowhere else")
		// several key shortcuts, some with the same value schema: the order of the alternatives in the OpenAPI text
		kt := []typeDef{{Name: "@k1", Text: `"a1"`}, {Name: "@k2", Text: `"b2"`}, {Name: "@k3", Text: `"c3"`}, {Name: "@k4", Text: `"d4"`}, {Name: "@k5", Text: `"e5"`}}
		proj(&project{Root: "{\n  @k1: 10,\n  @k2: \"x\",\n  @k3: true,\n  @k4: 10,\n  @k5: [1]\n}", Types: kt}, "several key shortcuts, two with the same value schema")
		proj(&project{Root: "{\n  @k1: 10, // {min: 1}\n  @k2: 10, // {min: 1}\n  @k3: 2.5,\n  @k4: \"s\",\n  @k5: 10 // {min: 1}\n}", Types: kt}, "several key shortcuts, two with the same value schema")
	}
	// (b) the corpus: every literal through every entry-point family
	corpus := gen.Corpus(r.Repo)
	r.CountMax("max:corpus_literals", int64(len(corpus)))
	crng := r.Rand("c09-corpus")
	for i, lit := range corpus {
		if !r.Mine(i) {
			continue
		}
		if i%(7*mon.LogicalShards) == r.Shard {
			// a refusal for the resource bound (only the type guesser takes exponent numbers) right before the next
			// case: what it leaves behind must not reach that case's first execution
			text(epGuess, fmt.Sprintf("%d.5e%d", i%9+1, 1000001+i), "number refused for its exponent, ahead of the next case")
		}
		text(epSchema|epEnum|epRegex|epDoc|epGuess, lit, "corpus literal, all entry points")
		for n := r.Pick(1, 2); n > 0; n-- {
			proj(c09CorpusProject(lit, crng), "corpus schema with drawn types for the names it mentions")
		}
	}
	// (g0) two independent faults in one place: which of them is reported must not vary. Two inverted bound pairs on
	// one value (every pair of the three kinds, on every example kind); two required members that each lead into
	// their own infinite recursion, next to an optional one; two unknown rules; two duplicate keys
	{
		gi := 0
		emit0 := func(p *project, why string) {
			if r.Mine(gi) {
				proj(p, why)
			}
			gi++
		}
		pairs := [][2]string{{"min: 9", "max: 1"}, {"minLength: 9", "maxLength: 1"}, {"minItems: 9", "maxItems: 1"}}
		for i := range pairs {
			for j := range pairs {
				if i == j {
					continue
				}
				for _, ex := range []string{`"abc"`, `5`, `1.5`, `[]`, `true`, `null`} {
					rules := strings.Join([]string{pairs[i][0], pairs[i][1], pairs[j][0], pairs[j][1]}, ", ")
					emit0(&project{Root: ex + " // {" + rules + "}"}, "two inverted bound pairs on one value")
					emit0(&project{Root: "{\n  \"k\": " + ex + " // {" + pairs[j][1] + ", " + pairs[i][0] + ", " + pairs[j][0] + ", " + pairs[i][1] + "}\n}"}, "two inverted bound pairs on one value")
				}
			}
		}
		loops := []typeDef{{Name: "@left", Text: `{"x": @left}`}, {Name: "@right", Text: `{"y": @right}`}, {Name: "@third", Text: `{"z": @third}`}}
		for _, root := range []string{
			"{\n  \"o\": 1, // {optional: true}\n  \"l\": @left,\n  \"r\": @right\n}",
			"{\n  \"l\": @left,\n  \"o\": 1, // {optional: true}\n  \"r\": @right,\n  \"t\": @third\n}",
			"{\n  \"r\": @right,\n  \"l\": @left,\n  \"o\": @third // {optional: true}\n}",
			"{\n  \"a\": 1, // {optional: true}\n  \"b\": 2, // {optional: true}\n  \"c\": @third,\n  \"d\": @left,\n  \"e\": @right\n}",
		} {
			emit0(&project{Root: root, Types: loops}, "two required members leading into their own recursion")
		}
		emit0(&project{Root: `1 // {foo: 1, bar: 2}`}, "two unknown rules")
		emit0(&project{Root: `{"a": 1, "b": 2, "a": 3, "b": 4}`}, "two duplicated keys")
		emit0(&project{Root: `{"x": 1 // {min: 5}` + "\n, \"y\": \"s\" // {maxLength: 0}\n}"}, "two violated rules")
	}
	// (g) rule combinations, most of them structurally invalid: every pair and triple of 22 rule snippets on
	// every example kind, as root and as an object member. Which of several applicable complaints is
	// raised (and which rule it names) must not vary between runs.
	{
		rules := []string{`minLength: 1`, `maxLength: 5`, `regex: "a"`, `min: 1`, `max: 5`, `exclusiveMinimum: true`, `exclusiveMaximum: true`, `precision: 2`,
			`type: "email"`, `type: "uuid"`, `type: "date"`, `type: "string"`, `type: "integer"`, `type: "any"`, `type: "@t"`, `enum: [1, "a"]`, `const: true`,
			`nullable: true`, `optional: true`, `minItems: 1`, `additionalProperties: true`, `or: ["string", "integer"]`}
		examples := []string{`"a@b.cc"`, `3`, `1.5`, `true`, `null`, `{}`, `[]`, `@t`}
		types := []typeDef{{Name: "@t", Text: `"abc"`}}
		ci := 0
		emit := func(rs []string) {
			for _, ex := range examples {
				if r.Mine(ci) {
					ann := " // {" + strings.Join(rs, ", ") + "}"
					proj(&project{Root: ex + ann, Types: types}, "rule combinations (mostly invalid) on a root value")
					proj(&project{Root: "{\n  \"k\": " + ex + ann + "\n}", Types: types}, "rule combinations (mostly invalid) on an object member")
					if ci%3 == 0 {
						proj(&project{Root: "{ // {allOf: \"@base\"}\n  \"own\": 1\n}", Types: append(append([]typeDef(nil), types...), typeDef{Name: "@base", Text: "{\n  \"k\": " + ex + ann + "\n}"})},
							"rule combinations (mostly invalid) on a member inherited through allOf")
					}
				}
				ci++
			}
		}
		for i := range rules {
			for j := i + 1; j < len(rules); j++ {
				emit([]string{rules[i], rules[j]})
				if r.Thor {
					emit([]string{rules[j], rules[i]})
				}
				for k := j + 1; k < len(rules); k++ {
					if r.Thor || (i+j+k)%3 == 0 {
						emit([]string{rules[i], rules[j], rules[k]})
					}
				}
			}
		}
	}
	// (c) generated projects
	prng := r.Rand("c09-projects")
	for n := r.Share(r.Pick(1500, 6_000)); n > 0; n-- {
		proj(c09GenProject(prng), "generated project, free references")
	}
	for n := r.Share(r.Pick(3000, 20_000)); n > 0; n-- {
		proj(c09GenTypedProject(prng), "generated project, accepted by construction, then 0-4 types broken")
	}
	// (d) reference templates shared with C02 (self / mutual references), 2 and 3 types
	trng := r.Rand("c09-templates")
	for n := r.Share(r.Pick(600, 3_000)); n > 0; n-- {
		k := 2 + trng.IntN(2)
		names := []string{"@a", "@b", "@c"}[:k]
		p := &project{Root: instTemplate(randOf(trng, refTemplates), names[trng.IntN(k)], names[trng.IntN(k)])}
		for _, nm := range names {
			p.Types = append(p.Types, typeDef{Name: nm, Text: instTemplate(randOf(trng, refTemplates), names[trng.IntN(k)], names[trng.IntN(k)])})
		}
		proj(p, "reference templates over 2-3 types")
	}
	// (e) type guessing and one-item enum rules: every token string up to a bound
	idx := 0
	gen.Tokens(c09GuessAlpha, r.Pick(3, 4), func(s []byte, n int) bool {
		if r.Mine(idx) {
			t := string(s)
			text(epGuess, t, "guess: exhaustive token strings")
			text(epEnum, "["+t+"]", "enum: one item from the exhaustive token strings")
		}
		idx++
		return true
	})
	for i, s := range c09GuessFixed {
		if r.Mine(i) {
			text(epGuess|epDoc, s, "guess: overlap literals")
			text(epEnum, "["+s+"]", "enum: overlap literals")
			text(epSchema, s+` // {enum: [`+s+`]}`, "schema: inline enum of an overlap literal")
		}
	}
	erng := r.Rand("c09-enum")
	for n := r.Share(r.Pick(600, 10_000)); n > 0; n-- {
		items := c17GenItems(erng, erng.IntN(5) == 0)
		if erng.IntN(3) == 0 {
			items = append(items, c09GuessFixed[erng.IntN(len(c09GuessFixed))])
		}
		text(epEnum, c17Layout(erng, items, erng.IntN(4) == 0), "enum: generated rule texts")
	}
	// (f) JSON documents and regex schemas
	drng := r.Rand("c09-doc")
	for n := r.Share(r.Pick(400, 6000)); n > 0; n-- {
		var sb strings.Builder
		wsf := randWS(drng, drng.IntN(3))
		genJSONValue(drng, 1+drng.IntN(5), &sb, func() { wsf(&sb) })
		doc := []byte(sb.String())
		if drng.IntN(3) == 0 {
			doc = mutateBytes(drng, doc, []byte("{}[]:,\"\\/u019-+.eEtrfalsn \n"))
		}
		text(epDoc|epGuess, string(doc), "document: generated and mutated")
	}
	for n := r.Share(r.Pick(300, 4000)); n > 0; n-- {
		var sb strings.Builder
		sb.WriteByte('/')
		for k := 1 + drng.IntN(8); k > 0; k-- {
			sb.WriteString(regexAlpha[drng.IntN(len(regexAlpha))])
		}
		if drng.IntN(8) != 0 {
			sb.WriteByte('/')
		}
		text(epRegex, sb.String(), "regex: generated patterns")
	}
	for i, t := range c09RegexTypes {
		if r.Mine(i) {
			text(epRegex, t, "regex: fixed patterns")
		}
	}
	// patterns for which the example generator needs many attempts (word-boundary assertions between pieces
	// that may or may not form a boundary): the retry path must be as repeatable as the first attempt
	hi := 0
	for _, unit := range []string{`(a|-)`, `[a ]`, `[a-c ,]`, `(?:x|\.)`, `[a-z0-9 ]+`, `\W?\w?`} {
		for _, as := range []string{`\b`, `\B`} {
			for k := 2; k <= 8; k++ {
				if r.Mine(hi) {
					text(epRegex, "/"+strings.Repeat(unit+as, k-1)+unit+"/", "regex: patterns needing many generation attempts")
				}
				hi++
			}
		}
	}
	for n := r.Share(r.Pick(300, 4000)); n > 0; n-- {
		g := &c18Gen{rng: drng, assertions: true}
		text(epRegex, "/"+g.top().src+"/", "regex: generated well-formed patterns with assertions")
	}
}

func c09Replay(r *mon.Run, raw stdjson.RawMessage) {
	var c c09Case
	if err := stdjson.Unmarshal(raw, &c); err != nil || c.Kind == "" {
		var d struct {
			Desc []byte `json:"journal_desc_b64"`
		}
		stdjson.Unmarshal(raw, &d)
		if stdjson.Unmarshal(d.Desc, &c) != nil || c.Kind == "" {
			fmt.Println("cannot decode the recorded case")
			return
		}
	}
	st := &c09State{r: r, t0: time.Now(), R: 256, P: 8, rng: r.Rand("c09-perturb"), bySrc: map[string]int{}}
	st.judge(&c)
	st.flush()
}

func init() {
	children["c09-digest"] = c09Child
	register(&mon.CheckDef{
		ID:                 "C09",
		Run:                c09Run,
		Replay:             c09Replay,
		Rule:               "one execution of a case builds fresh objects and renders every observable result into a digest of named fields: for a project (root text, named types incl. regex types, named enum rules) the outcome of every AddRule/AddType call, then Check, Len, GetAST (JSON), Example, UsedUserTypes, OpenAPI text (accepted schemas; panics are digest content) of the root and Check/Example/OpenAPI of every registered JSchema type; for texts Enum Check/Len/Values(type,value,comment)/GetAST, RSchema Check/Len/Pattern/GetAST/first Example/OpenAPI, Document Check/Len/lexeme stream in both modes, GuessSchemaType. Errors enter with dynamic type, code, message, index/line/column/file, IncorrectUserType and rendered text. Digests must be byte-equal (i) over R=16 (quick) / 64 (thorough) executions in one process, with heap perturbation (scattered frees + GC) between them for texts that create unnamed types, (ii) in P=4 / 16 fresh processes per case started with different GOGC, GOMAXPROCS and a seeded amount of garbage (batches of <=1500 cases per child, per-field hashes compared in the child), (iii) over all k! orders of the AddType calls for k<=4 types (24 sampled orders beyond) combined with permuted AddRule calls; (iv) no field may contain a 0x... heap address that the input did not contain. Workload: every corpus literal through all entry-point families, corpus schemas with drawn types for the names they mention, generated projects of 1-9 types biased to several simultaneously broken types (check-time and load-time, each template another error), allOf parents, or rule-sets (unnamed types), key shortcuts, additionalProperties with type names, enum rules, regex types with non-JSON example bytes; every token string over a 14-token guess alphabet up to length 3 / 4 as GuessSchemaType input and as one-item enum rule; generated enum rules, JSON documents, regex patterns (random symbol strings, well-formed generated patterns with \\b / \\B between pieces, and 84 patterns for which the example generator needs many attempts). distinct_nontrivial = distinct cases (hashed), each executed at least R+P times.",
		MinNontrivialQuick: 8000, MinNontrivialThorough: 80000,
		MaxInconclusiveFrac: 0.01,
		Assumptions: []string{
			"a two-way dependence on map iteration order escapes R repetitions with probability 2^(1-R); dependences that need a rare heap layout may escape altogether",
			"the regex example generator is seeded by the library (seed 0); only the first Example() of a fresh object is compared (later calls are C10's subject)",
			"registration outcomes are compared per call name: which failing AddType call comes first is the caller's choice",
			"a 0x... token with at least five hex digits in a result that does not occur in any input text is taken to be a heap address",
		},
		Exhaustive: "all orders of AddType calls for projects of up to 4 types; all token strings over the guess alphabet up to the stated length",
	})
}
