package props

import (
	stdjson "encoding/json"
	"fmt"
	"io"
	"math/rand/v2"
	"sort"
	"strings"

	"github.com/jsightapi/jsight-schema-core/notations/jschema"
	"github.com/jsightapi/jsight-schema-core/notations/jschema/ischema"
	"github.com/jsightapi/jsight-schema-core/notations/jschema/ischema/constraint"
	"github.com/jsightapi/jsight-schema-core/openapi"

	"verifharness/internal/gen"
	"verifharness/internal/mon"
)

// C07 — allOf inheritance yields exactly own + inherited properties, or a clear refusal.
//
// Reference model (refInherit): every object (the root, the value of a registered
// type, an object nested in either) is flattened depth-first: its own members in
// written order, then, for every name of its allOf list in written order, the
// flattened member list of that type. While flattening, the refusal reasons the
// property names are collected: missing parent (1302), non-object parent (704),
// cyclic chain (703), duplicated property name (402), conflicting
// additionalProperties (705).

const (
	c07CodeDup       = 402
	c07CodeCycle     = 703
	c07CodeNonObject = 704
	c07CodeAPClash   = 705
	c07CodeMissing   = 1302
)

type c07Case struct {
	Project *gen.Project `json:"project"`
	Layout  gen.Layout   `json:"layout"`
}

// ---- reference model ---------------------------------------------------------------

type c07Prop struct {
	Key    string
	Opt    bool
	Direct string // the type named in the allOf list this property arrived through ("" = own)
	Origin string // the type in which the property is written ("" = own)
	Obj    *c07Flat
}

type c07Flat struct {
	Props    []c07Prop
	HasAllOf bool   // the object itself carries an allOf rule
	AnyAllOf bool   // ... or some object below it does
	AP       string // effective additionalProperties literal ("" = absent)
}

type c07Reasons map[int]string

func (w c07Reasons) add(code int, s string) {
	if _, ok := w[code]; !ok {
		w[code] = s
	}
}

func (w c07Reasons) String() string {
	var codes []int
	for c := range w {
		codes = append(codes, c)
	}
	sort.Ints(codes)
	var parts []string
	for _, c := range codes {
		parts = append(parts, fmt.Sprintf("%s (expected code %d)", w[c], c))
	}
	return strings.Join(parts, "; ")
}

func c07AllOfNames(n *gen.Node) (names []string, has bool) {
	v, ok := n.Rule("allOf")
	if !ok {
		return nil, false
	}
	if v.IsList || len(v.List) > 0 {
		for _, it := range v.List {
			names = append(names, strings.Trim(it.Lit, `"`))
		}
		return names, true
	}
	return []string{strings.Trim(v.Lit, `"`)}, true
}

type c07Model struct {
	types map[string]*gen.Node
}

// refInherit flattens one object. stack holds the names of the types being
// flattened (a name met again is a cycle); where says which object is meant in
// the reason texts.
func (m *c07Model) refInherit(n *gen.Node, stack []string, where string, why c07Reasons) *c07Flat {
	f := &c07Flat{}
	if v, ok := n.Rule("additionalProperties"); ok {
		f.AP = v.Lit
	}
	have := map[string]bool{}
	for _, c := range n.Children {
		p := c07Prop{Key: c.Key}
		if v, ok := c.Rule("optional"); (ok && v.Lit == "true") || (c07OptDefault && !(ok && v.Lit == "false")) {
			p.Opt = true
		}
		if c.Kind == gen.KObject {
			p.Obj = m.refInherit(c, stack, where+"."+c.Key, why)
			if p.Obj.AnyAllOf {
				f.AnyAllOf = true
			}
		}
		have[c.Key] = true
		f.Props = append(f.Props, p)
	}
	names, has := c07AllOfNames(n)
	f.HasAllOf = has
	if has {
		f.AnyAllOf = true
	}
	for _, name := range names {
		t, ok := m.types[name]
		inStack := false
		for _, s := range stack {
			if s == name {
				inStack = true
			}
		}
		switch {
		case inStack:
			why.add(c07CodeCycle, fmt.Sprintf("%s inherits from %s, which is being built from it (cyclic chain %s)", where, name, strings.Join(append(append([]string{}, stack...), name), " <- ")))
			continue
		case !ok:
			why.add(c07CodeMissing, fmt.Sprintf("%s inherits from %s, which is not registered", where, name))
			continue
		case t.Kind != gen.KObject:
			why.add(c07CodeNonObject, fmt.Sprintf("%s inherits from %s, which is not an object", where, name))
			continue
		}
		pf := m.refInherit(t, append(stack[:len(stack):len(stack)], name), name, why)
		if pf.AP != "" {
			if f.AP == "" {
				f.AP = pf.AP
			} else if f.AP != pf.AP {
				why.add(c07CodeAPClash, fmt.Sprintf("%s has additionalProperties %s but inherits %s from %s", where, f.AP, pf.AP, name))
			}
		}
		for _, pp := range pf.Props {
			if have[pp.Key] {
				why.add(c07CodeDup, fmt.Sprintf("%s gets property %q twice (again from %s)", where, pp.Key, name))
				continue
			}
			have[pp.Key] = true
			q := pp
			q.Direct = name
			if pp.Origin == "" {
				q.Origin = name
			}
			f.Props = append(f.Props, q)
		}
	}
	return f
}

type c07Verdict struct {
	Reach c07Reasons // refusal reasons met while flattening the root
	All   c07Reasons // ... or any registered type
	Root  *c07Flat
	Types map[string]*c07Flat
}

func c07Reference(p *gen.Project) (v c07Verdict, ok bool) {
	if p.Root == nil || p.Root.Kind != gen.KObject {
		return v, false
	}
	m := &c07Model{types: map[string]*gen.Node{}}
	for _, t := range p.Types {
		m.types[t.Name] = t.Node
	}
	// a type named by additionalProperties has to exist for reasons outside this
	// property (1302): such a project is not modelled
	dangling := false
	look := func(n *gen.Node) {
		n.Walk(func(x *gen.Node) {
			if ap, ok := x.Rule("additionalProperties"); ok && strings.HasPrefix(ap.Lit, `"@`) {
				if _, reg := m.types[strings.Trim(ap.Lit, `"`)]; !reg {
					dangling = true
				}
			}
		})
	}
	look(p.Root)
	for _, t := range p.Types {
		look(t.Node)
	}
	if dangling {
		return v, false
	}
	v.Reach = c07Reasons{}
	v.All = c07Reasons{}
	v.Types = map[string]*c07Flat{}
	v.Root = m.refInherit(p.Root, nil, "the root", v.Reach)
	for c, s := range v.Reach {
		v.All.add(c, s)
	}
	for _, t := range p.Types {
		if t.Node.Kind != gen.KObject {
			continue
		}
		w := c07Reasons{}
		v.Types[t.Name] = m.refInherit(t.Node, []string{t.Name}, t.Name, w)
		for c, s := range w {
			v.All.add(c, s)
		}
	}
	return v, true
}

func c07RenderFlat(f *c07Flat) string {
	var sb strings.Builder
	sb.WriteString("{")
	for i, p := range f.Props {
		if i > 0 {
			sb.WriteString(",")
		}
		sb.WriteString(p.Key)
		if p.Obj != nil {
			sb.WriteString(":" + c07RenderFlat(p.Obj))
		}
	}
	sb.WriteString("}")
	return sb.String()
}

// ---- observation --------------------------------------------------------------------

type c07KT struct {
	Keys []string
	Sub  []*c07KT
}

func (k *c07KT) render() string {
	var sb strings.Builder
	sb.WriteString("{")
	for i, key := range k.Keys {
		if i > 0 {
			sb.WriteString(",")
		}
		sb.WriteString(key)
		if k.Sub[i] != nil {
			sb.WriteString(":" + k.Sub[i].render())
		}
	}
	sb.WriteString("}")
	return sb.String()
}

// c07KeyTree decodes a JSON text through the token stream, keeping key order
// and repeated keys.
func c07KeyTree(text string) (*c07KT, error) {
	dec := stdjson.NewDecoder(strings.NewReader(text))
	dec.UseNumber()
	var value func() (*c07KT, error)
	value = func() (*c07KT, error) {
		tok, err := dec.Token()
		if err != nil {
			return nil, err
		}
		d, isDelim := tok.(stdjson.Delim)
		if !isDelim {
			return nil, nil
		}
		switch d {
		case '{':
			kt := &c07KT{}
			for dec.More() {
				kt0, err := dec.Token()
				if err != nil {
					return nil, err
				}
				key, ok := kt0.(string)
				if !ok {
					return nil, fmt.Errorf("object key is %v", kt0)
				}
				sub, err := value()
				if err != nil {
					return nil, err
				}
				kt.Keys = append(kt.Keys, key)
				kt.Sub = append(kt.Sub, sub)
			}
			if _, err := dec.Token(); err != nil {
				return nil, err
			}
			return kt, nil
		case '[':
			for dec.More() {
				if _, err := value(); err != nil {
					return nil, err
				}
			}
			_, err := dec.Token()
			return nil, err
		}
		return nil, fmt.Errorf("unexpected %v", d)
	}
	kt, err := value()
	if err != nil {
		return nil, err
	}
	if _, err := dec.Token(); err != io.EOF {
		return nil, fmt.Errorf("text after the value")
	}
	if kt == nil {
		return nil, fmt.Errorf("not an object")
	}
	return kt, nil
}

type c07Node struct {
	Keys []string   `json:"keys"`
	From []string   `json:"from"`
	Req  []string   `json:"req"`
	AP   string     `json:"ap,omitempty"`
	Sub  []*c07Node `json:"sub"`
}

func (n *c07Node) render() string {
	var sb strings.Builder
	sb.WriteString("{")
	for i, key := range n.Keys {
		if i > 0 {
			sb.WriteString(",")
		}
		sb.WriteString(key)
		if n.Sub[i] != nil {
			sb.WriteString(":" + n.Sub[i].render())
		}
	}
	sb.WriteString("}")
	return sb.String()
}

func c07DumpNode(n *ischema.ObjectNode) *c07Node {
	out := &c07Node{}
	for i, ch := range n.Children() {
		k := n.Key(i)
		key := k.Key
		if k.IsShortcut {
			key = "<shortcut>" + key
		}
		// the same member looked up by name
		if got, ok := n.Child(k.Key, k.IsShortcut); !ok {
			key += "<not found by name>"
		} else if got != ch {
			key += "<looked up by name: another member>"
		} else if kk, _ := n.Keys().Get(k.Key, k.IsShortcut); kk.Index != i {
			key += fmt.Sprintf("<its key says index %d>", kk.Index)
		}
		out.Keys = append(out.Keys, key)
		out.From = append(out.From, ch.InheritedFrom())
		if on, ok := ch.(*ischema.ObjectNode); ok {
			out.Sub = append(out.Sub, c07DumpNode(on))
		} else {
			out.Sub = append(out.Sub, nil)
		}
	}
	if extra := len(n.Keys().Data) - len(n.Children()); extra != 0 {
		out.Keys = append(out.Keys, fmt.Sprintf("<%d keys without a child>", extra))
		out.From = append(out.From, "")
		out.Sub = append(out.Sub, nil)
	}
	if c := n.Constraint(constraint.RequiredKeysConstraintType); c != nil {
		if rk, ok := c.(*constraint.RequiredKeys); ok {
			out.Req = append([]string{}, rk.Keys()...)
		}
	}
	if c := n.Constraint(constraint.AdditionalPropertiesConstraintType); c != nil {
		out.AP = c.String()
	}
	return out
}

type c07OA struct {
	Key string `json:"k"`
	Opt bool   `json:"o"`
}

type c07ObjObs struct {
	Code    int       `json:"code"`
	Msg     string    `json:"msg,omitempty"`
	Example string    `json:"example,omitempty"`
	ExErr   string    `json:"ex_err,omitempty"`
	OA      [][]c07OA `json:"oa,omitempty"` // one list per ObjectInformer
	OAErr   string    `json:"oa_err,omitempty"`
	Node    *c07Node  `json:"node,omitempty"`
	NodeErr string    `json:"node_err,omitempty"`
	Panic   string    `json:"panic,omitempty"`
	Site    string    `json:"site,omitempty"`
}

type c07Obs struct {
	BuildErr string                `json:"build_err,omitempty"`
	Panic    string                `json:"panic,omitempty"`
	Site     string                `json:"site,omitempty"`
	Root     *c07ObjObs            `json:"root,omitempty"`
	Types    map[string]*c07ObjObs `json:"types,omitempty"`
}

func c07ObserveSchema(s *jschema.JSchema) *c07ObjObs {
	o := &c07ObjObs{}
	note := func(stage string, p *mon.Panic) bool {
		if p != nil && o.Panic == "" {
			o.Panic, o.Site = stage+": "+p.Value, stage+"/"+p.Site
		}
		return p != nil
	}
	var err error
	if note("Check", mon.Guard(func() { err = s.Check() })) {
		return o
	}
	if err != nil {
		v, _ := viewError(err)
		o.Code, o.Msg = v.Code, v.Message
		if !v.HasCode {
			o.Code, o.Msg = -1, err.Error()
		}
		return o
	}
	note("Example", mon.Guard(func() {
		b, eerr := s.Example()
		if eerr != nil {
			o.ExErr = eerr.Error()
			return
		}
		o.Example = string(b)
	}))
	note("openapi", mon.Guard(func() {
		for _, inf := range openapi.Dereference(s) {
			oi, ok := inf.(openapi.ObjectInformer)
			if !ok {
				o.OAErr = fmt.Sprintf("Dereference returned a %T for an object schema", inf)
				continue
			}
			list := []c07OA{}
			for _, pi := range oi.PropertiesInfos() {
				list = append(list, c07OA{pi.Key(), pi.Optional()})
			}
			o.OA = append(o.OA, list)
		}
	}))
	note("node", mon.Guard(func() {
		if s.Inner == nil || s.Inner.RootNode() == nil {
			o.NodeErr = "no compiled root node"
			return
		}
		on, ok := s.Inner.RootNode().(*ischema.ObjectNode)
		if !ok {
			o.NodeErr = fmt.Sprintf("compiled root node is a %T", s.Inner.RootNode())
			return
		}
		o.Node = c07DumpNode(on)
	}))
	return o
}

// c07Observe builds fresh objects and looks at the root and at every JSchema
// type through its own schema object.
func c07Observe(pt project, typesFirst bool) *c07Obs {
	obs := &c07Obs{Types: map[string]*c07ObjObs{}}
	var s *jschema.JSchema
	var berr error
	if p := mon.Guard(func() { s, berr = pt.build() }); p != nil {
		obs.Panic, obs.Site = "build: "+p.Value, "build/"+p.Site
		return obs
	}
	if berr != nil {
		obs.BuildErr = berr.Error()
		return obs
	}
	types := func() {
		for _, t := range pt.Types {
			if ts, ok := s.UserTypeCollection[t.Name].(*jschema.JSchema); ok {
				obs.Types[t.Name] = c07ObserveSchema(ts)
			}
		}
	}
	if typesFirst {
		types()
		obs.Root = c07ObserveSchema(s)
	} else {
		obs.Root = c07ObserveSchema(s)
		types()
	}
	return obs
}

// ---- judging ------------------------------------------------------------------------

type c07Finding struct{ Clause, Key, What string }

type c07Judge struct {
	out    []c07Finding
	prefix string
}

func (j *c07Judge) add(clause, what string) {
	j.out = append(j.out, c07Finding{Clause: clause, What: j.prefix + what})
}

func c07SortedSet(ss []string) string {
	m := map[string]bool{}
	for _, s := range ss {
		m[s] = true
	}
	return strings.Join(mon.SortedKeys(m), ",")
}

// marks and required keys are judged per object that carries an allOf rule.
func (j *c07Judge) walkNode(label, self string, f *c07Flat, n *c07Node) {
	if f.HasAllOf {
		for i, p := range f.Props {
			got := n.From[i]
			ok := false
			if p.Direct == "" {
				ok = got == "" || (self != "" && got == self)
			} else {
				ok = got == p.Direct || got == p.Origin
			}
			if !ok {
				exp := `"" (own property)`
				if p.Direct != "" {
					exp = fmt.Sprintf("%q", p.Direct)
					if p.Origin != p.Direct {
						exp += fmt.Sprintf(" (named in the allOf list) or %q (where it is written)", p.Origin)
					}
				}
				j.add("inherited-from", fmt.Sprintf("%s: property %q is marked InheritedFrom=%q, expected %s", label, p.Key, got, exp))
				break
			}
		}
		var req []string
		for _, p := range f.Props {
			if !p.Opt {
				req = append(req, p.Key)
			}
		}
		if e, g := c07SortedSet(req), c07SortedSet(n.Req); e != g {
			j.add("required-keys", fmt.Sprintf("%s: required keys of the compiled object are [%s], expected [%s] (own and inherited members that are not optional)", label, g, e))
		}
	}
	for i, p := range f.Props {
		if p.Obj != nil && n.Sub[i] != nil && p.Obj.AnyAllOf {
			j.walkNode(label+"."+p.Key, "", p.Obj, n.Sub[i])
		}
	}
}

func (j *c07Judge) compare(label, self string, f *c07Flat, o *c07ObjObs) {
	if o == nil {
		j.add("node-keys", label+": the registered type has no schema object")
		return
	}
	if o.Panic != "" {
		j.out = append(j.out, c07Finding{Clause: "panic", Key: o.Site, What: j.prefix + label + ": " + o.Panic})
		return
	}
	if o.Code != 0 {
		j.add("rejected-valid", fmt.Sprintf("%s: Check() fails with code %d (%s) although every allOf names a registered object type, there is no cycle, no property name occurs twice and no additionalProperties differ", label, o.Code, mon.Trunc(o.Msg, 120)))
		return
	}
	want := c07RenderFlat(f)
	// Example()
	if o.ExErr != "" {
		j.add("example-keys", fmt.Sprintf("%s: Example() fails (%s); expected keys %s", label, mon.Trunc(o.ExErr, 120), want))
	} else if kt, err := c07KeyTree(o.Example); err != nil {
		j.add("example-keys", fmt.Sprintf("%s: Example() returned %s, which is not a JSON object (%v); expected keys %s", label, mon.Trunc(o.Example, 160), err, want))
	} else if got := kt.render(); got != want {
		j.add("example-keys", fmt.Sprintf("%s: Example() %s has keys %s, expected own then inherited: %s", label, mon.Trunc(o.Example, 160), got, want))
	}
	// OpenAPI property listing
	var wantOA []string
	for _, p := range f.Props {
		s := p.Key
		if p.Opt {
			s += "?"
		}
		wantOA = append(wantOA, s)
	}
	if o.OAErr != "" {
		j.add("openapi-keys", label+": "+o.OAErr)
	} else if len(o.OA) != 1 {
		j.add("openapi-keys", fmt.Sprintf("%s: openapi.Dereference returned %d object informers for one object schema", label, len(o.OA)))
	} else {
		var got []string
		for _, p := range o.OA[0] {
			s := p.Key
			if p.Opt {
				s += "?"
			}
			got = append(got, s)
		}
		if g, w := strings.Join(got, ","), strings.Join(wantOA, ","); g != w {
			j.add("openapi-keys", fmt.Sprintf("%s: PropertiesInfos() lists [%s] (? = optional), expected [%s]", label, g, w))
		}
	}
	// compiled node
	if o.Node == nil {
		j.add("node-keys", label+": "+o.NodeErr)
		return
	}
	if got := o.Node.render(); got != want {
		j.add("node-keys", fmt.Sprintf("%s: the compiled object has children %s, expected own then inherited: %s", label, got, want))
		return
	}
	j.walkNode(label, self, f, o.Node)
}

func (j *c07Judge) judge(v c07Verdict, obs *c07Obs, typeNames []string) {
	if obs.Panic != "" {
		j.out = append(j.out, c07Finding{Clause: "panic", Key: obs.Site, What: j.prefix + obs.Panic})
		return
	}
	root := obs.Root
	if root.Panic != "" {
		j.out = append(j.out, c07Finding{Clause: "panic", Key: root.Site, What: j.prefix + "root: " + root.Panic})
		return
	}
	switch {
	case len(v.Reach) > 0:
		if root.Code == 0 {
			j.add("accepted-invalid", "Check() accepts although "+v.Reach.String())
		} else if _, ok := v.All[root.Code]; !ok {
			j.add("refusal-code", fmt.Sprintf("Check() refuses with code %d (%s); the applicable reasons are: %s", root.Code, mon.Trunc(root.Msg, 100), v.All.String()))
		}
	case len(v.All) > 0:
		// only types the root does not inherit from are broken: whether the root's
		// Check() has to fail for them is not part of this property
		if root.Code == 0 {
			j.compare("root", "", v.Root, root)
		} else if _, ok := v.All[root.Code]; !ok {
			j.add("refusal-code", fmt.Sprintf("Check() refuses with code %d (%s); the root's own inheritance is sound and the reasons in other registered types are: %s", root.Code, mon.Trunc(root.Msg, 100), v.All.String()))
		}
	default:
		j.compare("root", "", v.Root, root)
		for _, name := range typeNames {
			if f, ok := v.Types[name]; ok {
				j.compare("type "+name, name, f, obs.Types[name])
			}
		}
	}
}

func c07Digest(o *c07Obs) string {
	b, _ := stdjson.Marshal(o)
	return string(b)
}

func c07FirstDiff(a, b string) string {
	i := 0
	for i < len(a) && i < len(b) && a[i] == b[i] {
		i++
	}
	lo := i - 60
	if lo < 0 {
		lo = 0
	}
	cut := func(s string) string {
		hi := i + 80
		if hi > len(s) {
			hi = len(s)
		}
		return s[lo:hi]
	}
	return fmt.Sprintf("…%s… vs …%s…", cut(a), cut(b))
}

// c07Evaluate runs one project through the library (twice in the same order on
// fresh objects; with full also once with the registered types checked before
// the root) and returns what contradicts the reference model.
// c07OptDefault: the model reads the members as the library does with AreKeysOptionalByDefault.
var c07OptDefault bool

func c07Evaluate(p *gen.Project, l gen.Layout, full bool) (findings []c07Finding, class string) {
	findings, class = c07Evaluate1(p, l, full, false)
	if len(findings) == 0 && class == "accept" && len(projectKey(toTexts(p, l)))%4 == 0 {
		// the same project with keys optional by default: the same members, other required sets
		c07OptDefault = true
		more, _ := c07Evaluate1(p, l, false, true)
		c07OptDefault = false
		for _, f := range more {
			if f.Clause == "openapi-keys" {
				// the OpenAPI view is built from the AST alone and does not know the option (it marks every member
				// without optional: true as required): noted in DESIGN.md, outside the statement
				continue
			}
			f.What = "(keys optional by default) " + f.What
			findings = append(findings, f)
		}
	}
	return findings, class
}

func c07Evaluate1(p *gen.Project, l gen.Layout, full, optDefault bool) (findings []c07Finding, class string) {
	v, ok := c07Reference(p)
	if !ok {
		return nil, "unmodelled"
	}
	pt := toTexts(p, l)
	pt.OptDefault = optDefault
	var names []string
	for _, t := range p.Types {
		names = append(names, t.Name)
	}
	obs := c07Observe(pt, false)
	if obs.BuildErr != "" {
		return nil, "build-error: " + mon.Trunc(obs.BuildErr, 80)
	}
	j := &c07Judge{}
	j.judge(v, obs, names)
	again := c07Observe(pt, false)
	if a, b := c07Digest(obs), c07Digest(again); a != b {
		j.add("nondeterministic", "two executions on fresh objects differ: "+c07FirstDiff(a, b))
	}
	if full && len(j.out) == 0 {
		other := c07Observe(pt, true)
		if other.BuildErr == "" {
			j.prefix = "(every registered type compiled before the root) "
			j.judge(v, other, names)
		}
	}
	switch {
	case len(v.Reach) > 0:
		class = "refuse"
	case len(v.All) > 0:
		class = "unreachable-broken"
	default:
		class = "accept"
	}
	return j.out, class
}

// ---- shrinking ----------------------------------------------------------------------

func c07Clone(p *gen.Project) *gen.Project {
	b, _ := stdjson.Marshal(p)
	var q gen.Project
	_ = stdjson.Unmarshal(b, &q)
	return &q
}

func c07DropRule(n *gen.Node, name string) bool {
	for i, r := range n.Rules {
		if r.Name == name {
			n.Rules = append(n.Rules[:i:i], n.Rules[i+1:]...)
			n.HasRules = len(n.Rules) > 0
			return true
		}
	}
	return false
}

// c07Edit applies the k-th simplification to p; false when there are fewer.
func c07Edit(p *gen.Project, k int) bool {
	n := 0
	hit := func() bool { n++; return n-1 == k }
	for i := range p.Types {
		if hit() {
			p.Types = append(p.Types[:i:i], p.Types[i+1:]...)
			return true
		}
	}
	// an object member of the root, or a type nothing else needs, becomes the root
	for _, c := range p.Root.Children {
		if c.Kind == gen.KObject && hit() {
			c.Key, c.KeyLit = "", ""
			c07DropRule(c, "optional")
			p.Root = c
			return true
		}
	}
	for i, t := range p.Types {
		if t.Node.Kind == gen.KObject && hit() {
			p.Root = t.Node
			p.Types = append(p.Types[:i:i], p.Types[i+1:]...)
			return true
		}
	}
	for i, t := range p.Types {
		if t.Node.Kind != gen.KObject {
			continue
		}
		for _, c := range t.Node.Children {
			if c.Kind == gen.KObject && hit() {
				c.Key, c.KeyLit = "", ""
				c07DropRule(c, "optional")
				p.Types[i].Node = c
				return true
			}
		}
	}
	var objs []*gen.Node
	var collect func(o *gen.Node)
	collect = func(o *gen.Node) {
		if o.Kind != gen.KObject {
			return
		}
		objs = append(objs, o)
		for _, c := range o.Children {
			collect(c)
		}
	}
	collect(p.Root)
	for _, t := range p.Types {
		collect(t.Node)
	}
	for _, o := range objs {
		for i, c := range o.Children {
			if hit() {
				o.Children = append(o.Children[:i:i], o.Children[i+1:]...)
				return true
			}
			if c.Kind == gen.KObject && hit() {
				key := c.Key
				opt, hasOpt := c.Rule("optional")
				nn := gen.Int("1").K(key)
				if hasOpt {
					nn.R("optional", opt.Lit)
				}
				o.Children[i] = nn
				return true
			}
			if _, ok := c.Rule("optional"); ok && hit() {
				c07DropRule(c, "optional")
				return true
			}
			if c.Kind != gen.KObject && (c.Kind != gen.KInt || c.Lit != "1") && hit() {
				c.Kind, c.Lit, c.Children = gen.KInt, "1", nil
				return true
			}
		}
		if _, ok := o.Rule("additionalProperties"); ok && hit() {
			c07DropRule(o, "additionalProperties")
			return true
		}
		if len(o.Rules) > 1 && !sort.SliceIsSorted(o.Rules, func(a, b int) bool { return o.Rules[a].Name < o.Rules[b].Name }) && hit() {
			sort.SliceStable(o.Rules, func(a, b int) bool { return o.Rules[a].Name < o.Rules[b].Name })
			return true
		}
		if v, ok := o.Rule("allOf"); ok && len(v.List) == 1 && hit() {
			for ri := range o.Rules {
				if o.Rules[ri].Name == "allOf" {
					o.Rules[ri].Val = gen.LitV(v.List[0].Lit)
				}
			}
			return true
		}
		if names, ok := c07AllOfNames(o); ok {
			for i := range names {
				// pass 0 drops the name, pass 1 replaces it by the allOf list of the type it names
				for pass := 0; pass < 2; pass++ {
					if !hit() {
						continue
					}
					rest := append([]string{}, names[:i]...)
					if pass == 1 {
						var via []string
						for _, t := range p.Types {
							if t.Name == names[i] {
								via, _ = c07AllOfNames(t.Node)
							}
						}
						if len(via) == 0 {
							return true // nothing to put in its place: an edit without effect
						}
						rest = append(rest, via...)
					}
					rest = append(rest, names[i+1:]...)
					for ri := range o.Rules {
						if o.Rules[ri].Name != "allOf" {
							continue
						}
						switch len(rest) {
						case 0:
							c07DropRule(o, "allOf")
						case 1:
							o.Rules[ri].Val = gen.LitV(gen.Q(rest[0]))
						default:
							var items []gen.RV
							for _, s := range rest {
								items = append(items, gen.LitV(gen.Q(s)))
							}
							o.Rules[ri].Val = gen.ListOf(items...)
						}
						break
					}
					return true
				}
			}
		}
	}
	return false
}

func c07SameProject(a, b *gen.Project) bool {
	x, _ := stdjson.Marshal(a)
	y, _ := stdjson.Marshal(b)
	return string(x) == string(y)
}

func c07Fires(p *gen.Project, clause string) bool {
	fs, _ := c07Evaluate(p, gen.DefaultLayout, true)
	for _, f := range fs {
		if f.Clause == clause {
			return true
		}
	}
	return false
}

// c07Canon renames the types in order of first mention (@a, @b, ...).
func c07Canon(p *gen.Project) *gen.Project {
	var order []string
	seen := map[string]bool{}
	mention := func(s string) {
		if strings.HasPrefix(s, "@") && !seen[s] {
			seen[s] = true
			order = append(order, s)
		}
	}
	var visit func(n *gen.Node)
	visit = func(n *gen.Node) {
		n.Walk(func(m *gen.Node) {
			if names, ok := c07AllOfNames(m); ok {
				for _, s := range names {
					mention(s)
				}
			}
			if v, ok := m.Rule("additionalProperties"); ok {
				mention(strings.Trim(v.Lit, `"`))
			}
		})
	}
	visit(p.Root)
	follow := func() {
		for done := 0; done < len(order); done++ {
			for _, t := range p.Types {
				if t.Name == order[done] {
					visit(t.Node)
				}
			}
		}
	}
	follow()
	for _, t := range p.Types {
		has := false
		t.Node.Walk(func(m *gen.Node) {
			if _, ok := m.Rule("allOf"); ok {
				has = true
			}
		})
		if has {
			mention(t.Name)
			follow()
		}
	}
	for _, t := range p.Types {
		mention(t.Name)
	}
	b, _ := stdjson.Marshal(p)
	text := string(b)
	for i, old := range order {
		text = strings.ReplaceAll(text, old+`"`, fmt.Sprintf("@#%d#\"", i))
		text = strings.ReplaceAll(text, old+`\"`, fmt.Sprintf("@#%d#\\\"", i))
	}
	for i := range order {
		text = strings.ReplaceAll(text, fmt.Sprintf("@#%d#", i), "@"+string(rune('a'+i)))
	}
	var q gen.Project
	if stdjson.Unmarshal([]byte(text), &q) != nil || q.Root == nil {
		return p
	}
	sort.SliceStable(q.Types, func(i, j int) bool { return q.Types[i].Name < q.Types[j].Name })
	// member names in order of first appearance: k1, k2, ... (equal names stay equal)
	newKey := map[string]string{}
	rename := func(n *gen.Node) {
		n.Walk(func(m *gen.Node) {
			if m.KeyLit == "" || m.KeyIsRef {
				return
			}
			if _, ok := newKey[m.Key]; !ok {
				newKey[m.Key] = fmt.Sprintf("k%d", len(newKey)+1)
			}
			m.K(newKey[m.Key])
		})
	}
	rename(q.Root)
	for _, t := range q.Types {
		rename(t.Node)
	}
	return &q
}

func c07Shrink(p *gen.Project, clause string) *gen.Project {
	cur := c07Clone(p)
	if !c07Fires(cur, clause) {
		return nil // the clause does not fire under the default layout
	}
	for k := 0; ; {
		q := c07Clone(cur)
		if !c07Edit(q, k) {
			break
		}
		if !c07SameProject(q, cur) && c07Fires(q, clause) {
			cur = q
			k = 0
		} else {
			k++
		}
	}
	if q := c07Canon(cur); c07Fires(q, clause) {
		cur = q
	}
	return cur
}

// ---- recording ----------------------------------------------------------------------

type c07State struct {
	shrinks int
}

func c07Run1(r *mon.Run, st *c07State, p *gen.Project, l gen.Layout, family string, full bool) {
	pt := toTexts(p, l)
	key := projectKey(pt)
	if !r.Begin(func() []byte { return []byte(key) }) {
		return
	}
	r.Eval(1)
	fs, class := c07Evaluate(p, l, full)
	switch class {
	case "accept", "refuse", "unreachable-broken":
		r.Nontrivial(key)
		r.Count("model_"+class, 1)
		r.Count(family+"_"+class, 1)
	default:
		r.Inconclusive(class)
		if r.Shard == 0 {
			r.Note(class + " :: " + mon.Trunc(key, 200))
		}
		return
	}
	seen := map[string]bool{}
	for _, f := range fs {
		if seen[f.Clause] {
			continue
		}
		seen[f.Clause] = true
		cs := c07Case{p, l}
		vkey, what := key, f.What
		if f.Clause == "panic" {
			r.Violate("panic", f.Key, fmt.Sprintf("%s on %s", f.What, mon.Trunc(key, 300)), cs)
			continue
		}
		if f.Clause == "refusal-code" {
			// the statement demands a refusal, not a particular code: a refusal with a code outside the
			// applicable set is counted and shown in the evidence, never raised
			r.Count("not_judged:refused_with_a_code_outside_the_applicable_set", 1)
			if r.Shard == 0 {
				r.Note("refusal code outside the applicable set (not judged): " + mon.Trunc(f.What, 200) + " :: " + mon.Trunc(key, 200))
			}
			continue
		}
		if st != nil && st.shrinks < 150 {
			st.shrinks++
			if q := c07Shrink(p, f.Clause); q != nil {
				qfs, _ := c07Evaluate(q, gen.DefaultLayout, true)
				for _, qf := range qfs {
					if qf.Clause == f.Clause {
						what = qf.What
						break
					}
				}
				cs = c07Case{q, gen.DefaultLayout}
				vkey = projectKey(toTexts(q, gen.DefaultLayout))
			}
		}
		if len(vkey) > 300 {
			vkey = vkey[:280] + "… #" + mon.Hash(vkey)
		}
		r.Violate(f.Clause, vkey, what, cs)
	}
}

// ---- workload -----------------------------------------------------------------------

var c07TypeNames = []string{"@a", "@b", "@c", "@d", "@e"}

func c07SetAllOf(o *gen.Node, names []string, asList bool) *gen.Node {
	switch {
	case len(names) == 0:
		return o
	case len(names) == 1 && !asList:
		return o.R("allOf", gen.Q(names[0]))
	}
	var items []gen.RV
	for _, s := range names {
		items = append(items, gen.LitV(gen.Q(s)))
	}
	return o.RVal("allOf", gen.ListOf(items...))
}

func c07SetAP(o *gen.Node, ap string) *gen.Node {
	if ap != "" {
		o.R("additionalProperties", ap)
	}
	return o
}

func c07Mem(key string, opt int) *gen.Node {
	n := gen.Int("1").K(key)
	switch opt {
	case 1:
		n.R("optional", "true")
	case 2:
		n.R("optional", "false")
	}
	return n
}

// c07Lists: every ordered subset of {0..n-1} with at most maxLen elements.
func c07Lists(n, maxLen int) [][]int {
	out := [][]int{{}}
	var rec func(cur []int)
	rec = func(cur []int) {
		if len(cur) == maxLen {
			return
		}
		for i := 0; i < n; i++ {
			used := false
			for _, c := range cur {
				if c == i {
					used = true
				}
			}
			if used {
				continue
			}
			next := append(append([]int{}, cur...), i)
			out = append(out, next)
			rec(next)
		}
	}
	rec(nil)
	return out
}

// The graph family: n types, each either a string, an array, or an object with
// one of three member sets (none; a unique required + a unique optional key;
// the shared key "s") and any allOf list; the root has one of three member
// sets and inherits from the first k types (every other choice of root list is
// a renaming of one of these).
type c07Graph struct {
	n       int
	lists   [][]int
	perType int
	total   int
}

func c07NewGraph(n, maxLen int) *c07Graph {
	g := &c07Graph{n: n, lists: c07Lists(n, maxLen)}
	g.perType = 3*len(g.lists) + 2
	g.total = 3 * n
	for i := 0; i < n; i++ {
		g.total *= g.perType
	}
	return g
}

func c07Names(idx []int) []string {
	var out []string
	for _, i := range idx {
		out = append(out, c07TypeNames[i])
	}
	return out
}

func (g *c07Graph) project(idx int) *gen.Project {
	t := idx
	asList := (uint32(idx)*2654435761)>>16&1 == 1 // a single name is written "@a" or ["@a"]
	rootSel := t % (3 * g.n)
	t /= 3 * g.n
	p := &gen.Project{}
	var root *gen.Node
	switch rootSel % 3 {
	case 0:
		root = gen.Obj()
	case 1:
		root = gen.Obj(c07Mem("r", 0), c07Mem("q", 1))
	default:
		root = gen.Obj(c07Mem("s", 0))
	}
	p.Root = c07SetAllOf(root, c07TypeNames[:rootSel/3+1], asList)
	for i := 0; i < g.n; i++ {
		sel := t % g.perType
		t /= g.perType
		letter := c07TypeNames[i][1:]
		var node *gen.Node
		switch {
		case sel == 0:
			node = gen.Str("text")
		case sel == 1:
			node = gen.Arr(gen.Int("1"))
		default:
			sel -= 2
			switch sel % 3 {
			case 0:
				node = gen.Obj()
			case 1:
				node = gen.Obj(c07Mem("u"+letter, 0), c07Mem("o"+letter, 1))
			default:
				node = gen.Obj(c07Mem("s", 0))
			}
			node = c07SetAllOf(node, c07Names(g.lists[sel/3]), asList != (i%2 == 0))
		}
		p.Types = append(p.Types, gen.NamedNode{Name: c07TypeNames[i], Node: node})
	}
	return p
}

var c07APValues = []string{"", "true", "false", `"string"`, `"integer"`, `"@t"`}

func c07WithT(p *gen.Project) *gen.Project {
	uses := false
	visit := func(n *gen.Node) {
		n.Walk(func(m *gen.Node) {
			if v, ok := m.Rule("additionalProperties"); ok && v.Lit == `"@t"` {
				uses = true
			}
		})
	}
	visit(p.Root)
	for _, t := range p.Types {
		visit(t.Node)
	}
	if uses {
		p.Types = append(p.Types, gen.NamedNode{Name: "@t", Node: gen.Str("t")})
	}
	return p
}

// c07Small lists the hand-shaped families completely.
func c07Small() (out []*gen.Project, family []string) {
	emit := func(fam string, p *gen.Project) {
		out = append(out, c07WithT(p))
		family = append(family, fam)
	}
	obj := func(ap string, allOf []string, members ...*gen.Node) *gen.Node {
		return c07SetAllOf(c07SetAP(gen.Obj(members...), ap), allOf, len(allOf) > 1)
	}
	nt := func(name string, n *gen.Node) gen.NamedNode { return gen.NamedNode{Name: name, Node: n} }
	V := c07APValues
	// additionalProperties on child and parent(s)
	for _, x := range V {
		for _, y := range V {
			emit("ap", &gen.Project{Root: obj(x, []string{"@a"}, c07Mem("r", 0)), Types: []gen.NamedNode{nt("@a", obj(y, nil, c07Mem("ua", 0)))}})
			emit("ap", &gen.Project{Root: obj(x, []string{"@a"}), Types: []gen.NamedNode{nt("@a", obj(y, nil))}})
			emit("ap", &gen.Project{Root: gen.Obj(c07Mem("r", 0), obj(x, []string{"@a"}, c07Mem("w", 0)).K("n")), Types: []gen.NamedNode{nt("@a", obj(y, nil, c07Mem("ua", 0)))}})
			emit("ap", &gen.Project{Root: obj("", []string{"@a"}, c07Mem("r", 0)), Types: []gen.NamedNode{
				nt("@a", gen.Obj(c07Mem("ua", 0), obj(x, []string{"@b"}, c07Mem("w", 0)).K("n"))), nt("@b", obj(y, nil, c07Mem("ub", 0)))}})
			for _, z := range V {
				emit("ap", &gen.Project{Root: obj(x, []string{"@b"}, c07Mem("r", 0)), Types: []gen.NamedNode{
					nt("@a", obj(z, nil, c07Mem("ua", 0))), nt("@b", obj(y, []string{"@a"}, c07Mem("ub", 0)))}})
				emit("ap", &gen.Project{Root: obj(x, []string{"@a", "@b"}, c07Mem("r", 0)), Types: []gen.NamedNode{
					nt("@a", obj(y, nil, c07Mem("ua", 0))), nt("@b", obj(z, nil, c07Mem("ub", 0)))}})
				for _, w := range V {
					emit("ap-diamond", &gen.Project{Root: obj(x, []string{"@b", "@c"}, c07Mem("r", 0)), Types: []gen.NamedNode{
						nt("@a", obj(w, nil)), nt("@b", obj(y, []string{"@a"}, c07Mem("ub", 0))), nt("@c", obj(z, []string{"@a"}, c07Mem("uc", 1)))}})
				}
			}
		}
	}
	// every pair of type-name values (the families of similar types included: a
	// differing value is a differing value) on child and parent, and on two parents
	W := []string{`"string"`, `"email"`, `"uri"`, `"uuid"`, `"date"`, `"datetime"`, `"float"`, `"decimal"`, `"integer"`, `"any"`, `"mixed"`, `"enum"`, `"null"`, `"boolean"`, `"object"`, `"array"`, `"@t"`, "false"}
	for _, x := range W {
		for _, y := range W {
			emit("ap-names", &gen.Project{Root: obj(x, []string{"@a"}, c07Mem("r", 0)), Types: []gen.NamedNode{nt("@a", obj(y, nil, c07Mem("ua", 0)))}})
			emit("ap-names", &gen.Project{Root: obj("", []string{"@a", "@b"}, c07Mem("r", 0)), Types: []gen.NamedNode{
				nt("@a", obj(x, nil, c07Mem("ua", 0))), nt("@b", obj(y, nil, c07Mem("ub", 0)))}})
			emit("ap-names", &gen.Project{Root: obj(x, []string{"@b"}), Types: []gen.NamedNode{
				nt("@a", obj(y, nil, c07Mem("ua", 0))), nt("@b", obj("", []string{"@a"}, c07Mem("ub", 0)))}})
		}
	}
	// optional status of own and inherited members
	for m := 0; m < 729; m++ {
		o := [6]int{}
		for i, t := 0, m; i < 6; i, t = i+1, t/3 {
			o[i] = t % 3
		}
		emit("optional", &gen.Project{Root: obj("", []string{"@a", "@b"}, c07Mem("r", o[0]), c07Mem("q", o[1])), Types: []gen.NamedNode{
			nt("@a", obj("", nil, c07Mem("a1", o[2]), c07Mem("a2", o[3]))),
			nt("@b", obj("", []string{"@c"}, c07Mem("b1", o[4]))),
			nt("@c", obj("", nil, c07Mem("c1", o[5])))}})
	}
	// every refusal reason in every position, alone and in pairs
	targets := []string{"@a", "@z", "@n", "@v", "@c", "@d", "@s", "@w"}
	defs := map[string]*gen.Node{}
	mk := func() {
		defs["@a"] = obj("", nil, c07Mem("ua", 0))
		defs["@n"] = gen.Str("text")
		defs["@v"] = gen.Arr(gen.Int("1"))
		defs["@c"] = obj("", []string{"@c"}, c07Mem("uc", 0))
		defs["@d"] = obj("", []string{"@e"}, c07Mem("ud", 0))
		defs["@e"] = obj("", []string{"@d"}, c07Mem("ue", 0))
		defs["@s"] = obj("", nil, c07Mem("r", 0), c07Mem("ua", 1))
		defs["@w"] = gen.Obj(c07Mem("uw", 0), obj("", []string{"@w"}, c07Mem("x", 0)).K("n"))
	}
	closeOver := func(p *gen.Project) *gen.Project {
		have := map[string]bool{}
		for _, t := range p.Types {
			have[t.Name] = true
		}
		for changed := true; changed; {
			changed = false
			need := map[string]bool{}
			visit := func(n *gen.Node) {
				n.Walk(func(m *gen.Node) {
					if names, ok := c07AllOfNames(m); ok {
						for _, s := range names {
							need[s] = true
						}
					}
				})
			}
			visit(p.Root)
			for _, t := range p.Types {
				visit(t.Node)
			}
			for _, s := range mon.SortedKeys(need) {
				if d, ok := defs[s]; ok && !have[s] {
					have[s] = true
					p.Types = append(p.Types, nt(s, d))
					changed = true
				}
			}
		}
		return p
	}
	var lists [][]string
	for _, x := range targets {
		lists = append(lists, []string{x})
		for _, y := range targets {
			if x != y {
				lists = append(lists, []string{x, y})
			}
		}
	}
	for _, l := range lists {
		mk()
		emit("reasons", closeOver(&gen.Project{Root: obj("", l, c07Mem("r", 0))}))
		mk()
		emit("reasons", closeOver(&gen.Project{Root: gen.Obj(c07Mem("r", 0), obj("", l, c07Mem("x", 0)).K("n"))}))
		mk()
		emit("reasons", closeOver(&gen.Project{Root: obj("", []string{"@b"}, c07Mem("r", 0)), Types: []gen.NamedNode{nt("@b", obj("", l, c07Mem("ub", 0)))}}))
		mk()
		emit("reasons", closeOver(&gen.Project{Root: obj("", []string{"@b"}, c07Mem("r", 0)), Types: []gen.NamedNode{
			nt("@b", gen.Obj(c07Mem("ub", 0), obj("", l, c07Mem("x", 0)).K("n")))}}))
		mk()
		emit("reasons-unreachable", closeOver(&gen.Project{Root: gen.Obj(c07Mem("r", 0)), Types: []gen.NamedNode{nt("@b", obj("", l, c07Mem("ub", 0)))}}))
		mk()
		emit("reasons-unreachable", closeOver(&gen.Project{Root: obj("", []string{"@a"}, c07Mem("r", 0)), Types: []gen.NamedNode{nt("@b", obj("", l, c07Mem("ub", 0)))}}))
	}
	// nested objects carrying their own allOf, in the root and in the types
	names2 := c07TypeNames[:2]
	l2 := c07Lists(2, 2)
	for _, nestedList := range l2[1:] {
		for _, rootList := range l2 {
			for own := 0; own < 3; own++ {
				for ka := 0; ka < 4*len(l2)+1; ka++ {
					for kb := 0; kb < 4*len(l2)+1; kb++ {
						var inner *gen.Node
						switch own {
						case 0:
							inner = gen.Obj()
						case 1:
							inner = gen.Obj(c07Mem("x", 0), c07Mem("y", 1))
						default:
							inner = gen.Obj(c07Mem("s", 0))
						}
						p := &gen.Project{Root: c07SetAllOf(gen.Obj(c07Mem("r", 0), c07SetAllOf(inner, c07Names(nestedList), false).K("n")), c07Names(rootList), false)}
						for i, sel := range []int{ka, kb} {
							letter := names2[i][1:]
							other := names2[1-i]
							var node *gen.Node
							if sel == 0 {
								node = gen.Str("text")
							} else {
								sel--
								switch sel % 4 {
								case 0:
									node = gen.Obj()
								case 1:
									node = gen.Obj(c07Mem("u"+letter, 0), c07Mem("o"+letter, 1))
								case 2:
									node = gen.Obj(c07Mem("s", 0))
								default:
									node = gen.Obj(c07Mem("u"+letter, 0), c07SetAllOf(gen.Obj(c07Mem("x"+letter, 2)), []string{other}, true).K("w"+letter))
								}
								node = c07SetAllOf(node, c07Names(l2[sel/4]), false)
							}
							p.Types = append(p.Types, nt(names2[i], node))
						}
						emit("nested", p)
					}
				}
			}
		}
	}
	return out, family
}

func c07Random(rng *rand.Rand) *gen.Project {
	n := 1 + rng.IntN(5)
	names := c07TypeNames[:n]
	poolMode := []int{0, 1, 2, 2}[rng.IntN(4)]
	pool4 := []string{"k", "l", "m", "p"}
	pool12 := []string{"k", "l", "m", "p", "a", "b", "c", "d", "e", "f", "g", "h"}
	dagOnly := rng.IntN(4) != 0
	missing := rng.IntN(12) == 0
	nonObj := rng.IntN(6) == 0
	apMode := rng.IntN(4) // 0,1 none; 2 one value everywhere; 3 random
	apSame := c07APValues[1+rng.IntN(5)]
	uniq := 0
	var mkObj func(self, depth int) *gen.Node
	mkObj = func(self, depth int) *gen.Node {
		var keys []string
		switch poolMode {
		case 0:
			perm := rng.Perm(4)
			for _, i := range perm[:rng.IntN(4)] {
				keys = append(keys, pool4[i])
			}
		case 1:
			perm := rng.Perm(12)
			for _, i := range perm[:rng.IntN(4)] {
				keys = append(keys, pool12[i])
			}
		default:
			for i := rng.IntN(4); i > 0; i-- {
				uniq++
				keys = append(keys, fmt.Sprintf("k%d", uniq))
			}
		}
		o := gen.Obj()
		for _, k := range keys {
			var m *gen.Node
			switch x := rng.IntN(20); {
			case x < 3 && depth < 2:
				m = mkObj(self, depth+1)
			case x < 4:
				m = gen.Str("v")
			case x < 5:
				m = gen.Arr(gen.Int("1"), gen.Int("2"))
			default:
				m = gen.Int("1")
			}
			m.K(k)
			switch x := rng.IntN(12); {
			case x < 4:
				m.R("optional", "true")
			case x < 5:
				m.R("optional", "false")
			}
			o.Children = append(o.Children, m)
		}
		switch apMode {
		case 2:
			if rng.IntN(2) == 0 {
				c07SetAP(o, apSame)
			}
		case 3:
			if rng.IntN(3) == 0 {
				c07SetAP(o, c07APValues[1+rng.IntN(5)])
			}
		}
		if rng.IntN(10) < 7-2*depth {
			var cand []string
			for i, s := range names {
				if !dagOnly || i > self {
					cand = append(cand, s)
				}
			}
			if missing && rng.IntN(3) == 0 {
				cand = append(cand, "@z")
			}
			if len(cand) > 0 {
				k := 1 + rng.IntN(3)
				if k > len(cand) {
					k = len(cand)
				}
				perm := rng.Perm(len(cand))
				var l []string
				for _, i := range perm[:k] {
					l = append(l, cand[i])
				}
				// rules are written in either order
				c07SetAllOf(o, l, rng.IntN(3) == 0)
				if len(o.Rules) == 2 && rng.IntN(2) == 0 {
					o.Rules[0], o.Rules[1] = o.Rules[1], o.Rules[0]
				}
			}
		}
		return o
	}
	p := &gen.Project{Root: mkObj(-1, 0)}
	if _, has := c07AllOfNames(p.Root); !has && rng.IntN(4) != 0 {
		c07SetAllOf(p.Root, []string{names[rng.IntN(n)]}, false)
	}
	for i, s := range names {
		if nonObj && rng.IntN(3) == 0 {
			if rng.IntN(2) == 0 {
				p.Types = append(p.Types, gen.NamedNode{Name: s, Node: gen.Str("text")})
			} else {
				p.Types = append(p.Types, gen.NamedNode{Name: s, Node: gen.Arr(gen.Int("1"))})
			}
			continue
		}
		p.Types = append(p.Types, gen.NamedNode{Name: s, Node: mkObj(i, 0)})
	}
	if rng.IntN(2) == 0 {
		rng.Shuffle(len(p.Types), func(i, j int) { p.Types[i], p.Types[j] = p.Types[j], p.Types[i] })
	}
	return c07WithT(p)
}

func c07Run(r *mon.Run) {
	c07ExtraRun(r)
	st := &c07State{}
	idx := 0
	one := func(p *gen.Project, fam string) {
		if r.Mine(idx) {
			c07Run1(r, st, p, gen.DefaultLayout, fam, idx%4 == 0)
			if idx%50000 == 0 {
				v, _ := c07Reference(p)
				r.Sample(map[string]any{"family": fam, "project": projectKey(toTexts(p, gen.DefaultLayout)), "model_refuses_for": v.All.String(), "model_root_keys": c07RenderFlat(v.Root)})
			}
		}
		idx++
	}
	// (1) hand-shaped families, complete
	small, fams := c07Small()
	for i, p := range small {
		one(p, fams[i])
	}
	if r.Shard == 0 {
		r.Count("small_family_cases_total", int64(len(small)))
	}
	// (2) all inheritance graphs
	graphs := []*c07Graph{c07NewGraph(1, 1), c07NewGraph(2, 2)}
	if r.Thor {
		graphs = append(graphs, c07NewGraph(3, 3))
	} else {
		graphs = append(graphs, c07NewGraph(3, 2))
	}
	for _, g := range graphs {
		fam := fmt.Sprintf("graph%d", g.n)
		for i := 0; i < g.total; i++ {
			if r.Mine(idx) {
				one(g.project(i), fam)
			} else {
				idx++
			}
		}
	}
	if r.Thor {
		g := c07NewGraph(4, 2)
		rng := r.Rand("c07-graph4")
		n := r.Share(2_000_000)
		for i := 0; i < n; i++ {
			c07Run1(r, st, g.project(rng.IntN(g.total)), gen.DefaultLayout, "graph4-sampled", i%4 == 0)
		}
		if r.Shard == 0 {
			r.Count("graph4_universe_sampled_from", int64(g.total))
		}
	}
	// (3) random projects
	rng := r.Rand("c07")
	n := r.Share(r.Pick(30_000, 1_000_000))
	for i := 0; i < n; i++ {
		p := c07Random(rng)
		l := gen.DefaultLayout
		if rng.IntN(4) == 0 {
			l = gen.RandLayout(rng)
			l.Comments, l.EmptyHash, l.HashGlue = 0, 0, false
		}
		c07Run1(r, st, p, l, "random", i%4 == 0)
		if i < 1 {
			v, _ := c07Reference(p)
			r.Sample(map[string]any{"family": "random", "project": projectKey(toTexts(p, l)), "model_refuses_for": v.All.String(), "model_root_keys": c07RenderFlat(v.Root)})
		}
	}
}

func init() {
	register(&mon.CheckDef{
		ID:  "C07",
		Run: c07Run,
		Replay: func(r *mon.Run, raw stdjson.RawMessage) {
			var pl struct {
				Kind string `json:"kind"`
			}
			if stdjson.Unmarshal(raw, &pl) == nil && pl.Kind == "placement" {
				r.Shard, r.OneShot = 0, true
				c07ExtraAll = true
				c07ExtraRun(r) // the placement family is small: a replay runs all of it
				return
			}
			var c c07Case
			if stdjson.Unmarshal(raw, &c) == nil && c.Project != nil {
				c07Run1(r, nil, c.Project, c.Layout, "replay", true)
			}
		},
		Rule:               "projects (root object + registered types; every type registered in the root and in every other type) are printed and compiled on fresh objects. Reference model: each object is flattened depth-first (own members in written order, then the flattened members of every type of its allOf list in written order, transitively) while the refusal reasons are collected on the model: parent not registered (1302), parent not an object (704), cyclic chain incl. a type containing an object that inherits from it (703), a property name arriving twice (402), differing additionalProperties on an object and a parent or on two parents (705). Model accepts: root.Check() and every type's Check() must be nil; ordered key tree of Example() (encoding/json token stream), openapi.Dereference -> ObjectInformer.PropertiesInfos() (Key, Optional) and the compiled ObjectNode (Children/Key, every member also looked up by name, nested objects recursively) must equal own-then-inherited; for objects carrying allOf: InheritedFrom of own members empty, of inherited members the type named in the allOf list or the type where the member is written; RequiredKeys constraint = the non-optional members (as a set). Model refuses (reason reachable from the root): Check() must fail; a code outside the applicable set is reported under the softer clause refusal-code. One accepted project in four is judged a second time with every object created with AreKeysOptionalByDefault (the model then takes a member as optional unless it says optional: false). Every case is executed twice on fresh objects (difference = nondeterministic) and every 4th also with all types compiled before the root. Workload: (0) placements: the inheriting object as root, member, array item, second array item, array item in a member, nested array item, root of a type, array item inside a type, member of a member of a type, over 6 parent shapes (plain, key shortcut first / last, chain, optional member, nested object member) and 8 variants (valid, parent missing, parent not an object, name clash, a quoted @K own key next to an inherited key shortcut, allOf as a list, the parent listed twice, the parent listed next to a type that inherits from it) - Example() must be the own members followed by the inherited ones, the invalid variants must be refused; (1) complete hand-shaped families: all pairs/triples/quadruples of additionalProperties values {absent,true,false,\"string\",\"integer\",\"@t\"} over child/parent, chain, two parents, nested object, diamond; all pairs of 18 values (every type name, \"@t\", false) over child/parent, two parents and a chain; 3^6 optional markings over a two-parent + chain graph; every refusal reason alone and in ordered pairs at 6 positions (root, nested in root, type, nested in type, unreachable type); nested objects with own allOf over 2 types; (2) ALL graphs over <= 3 types (quick: allOf lists <= 2 names; thorough: any list; + 2M sampled graphs over 4 types), each type string / array / object with member set {none, unique required+optional, shared key} and any ordered allOf list incl. itself, root with 3 member sets inheriting from the first k types, allOf written as \"@a\" or [\"@a\"]; (3) random projects (<= 5 types, key pools of 4 / 12 / unique names, optional true/false, nested objects to depth 2 with own allOf, additionalProperties, missing names, shuffled registration order, random layouts). distinct_nontrivial = distinct printed projects with a definite model verdict.",
		MinNontrivialQuick: 150000, MinNontrivialThorough: 2000000,
		MaxInconclusiveFrac: 0.01,
		Assumptions: []string{
			"InheritedFrom: the property text does not say whether 'the type it came from' is the parent named in the allOf list or the ancestor where the member is written; either is accepted (the library uses the former)",
			"when only types the root does not inherit from are broken, the root's verdict is not judged (the library refuses; C05 covers that reading); its code must still be one of the applicable ones",
			"not judged: the AST (taken before allOf compilation), which duplicate the 402 message names, order inside the required-keys list, marks/required keys of objects that carry no allOf rule, the additionalProperties value of the merged object",
			"additionalProperties values are compared as written; the synonyms true/\"any\" are never generated together",
		},
		Exhaustive: "all inheritance graphs over <= 3 types with the listed member sets (quick: allOf lists of <= 2 names), plus the additionalProperties / optional / refusal-reason / nested families",
	})
}
