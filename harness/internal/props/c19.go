package props

import (
	"bytes"
	"encoding/json"
	"errors"
	"fmt"
	"strconv"
	"strings"
	"time"

	schema "github.com/jsightapi/jsight-schema-core"
	cbytes "github.com/jsightapi/jsight-schema-core/bytes"
	"github.com/jsightapi/jsight-schema-core/notations/jschema"
	"github.com/jsightapi/jsight-schema-core/notations/jschema/ischema"
	"github.com/jsightapi/jsight-schema-core/notations/jschema/ischema/constraint"

	"verifharness/internal/mon"
)

// ---- reference: insertion-ordered dictionary --------------------------------

type refDict struct {
	keys []int
	vals map[int]int
}

func newRefDict() *refDict { return &refDict{vals: map[int]int{}} }

func (d *refDict) set(k, v int) {
	if _, ok := d.vals[k]; !ok {
		d.keys = append(d.keys, k)
	}
	d.vals[k] = v
}
func (d *refDict) update(k int, f func(int) int) {
	if v, ok := d.vals[k]; ok {
		d.vals[k] = f(v)
	}
}
func (d *refDict) del(k int) {
	if _, ok := d.vals[k]; !ok {
		return
	}
	delete(d.vals, k)
	for i, kk := range d.keys {
		if kk == k {
			d.keys = append(d.keys[:i:i], d.keys[i+1:]...)
			break
		}
	}
}
func (d *refDict) filter(keep func(k, v int) bool) (seen []int) {
	var nk []int
	for _, k := range d.keys {
		seen = append(seen, k)
		if keep(k, d.vals[k]) {
			nk = append(nk, k)
		} else {
			delete(d.vals, k)
		}
	}
	d.keys = nk
	return
}

// ---- adapters ----------------------------------------------------------------

type kv struct{ K, V int }

// omap is the common face of the three generated ordered maps; keys and values
// are small integers mapped to the container's own key/value types.
type omap interface {
	Name() string
	Set(k, v int)
	Update(k int, f func(int) int)
	Delete(k int)
	Filter(keep func(k, v int) bool)
	Map(f func(k, v int) (int, error)) error
	Find(pred func(k, v int) bool) (kv, bool)
	Each() []kv
	EachSafe() []kv
	Len() int
	Has(k int) bool
	Get(k int) (int, bool)
	GetValue(k int) (int, bool) // ok=false if zero value
	JSON() ([]byte, error)
	KeyJSON(k int) string // how key k must appear when decoded from JSON
}

// the three keys of the exhaustive part include a control character (JSON must escape it as \u0001)
var c19KeyNames = []string{"a", "\x01b", "c", `q"k`, "é\x7f", "", "z\n", "d"}

// c19Universe is the number of keys compared after every operation: the first 8 names in the ordinary families,
// all of them in the many-keys family.
var c19Universe = 8

const c19ManyKeys = 300

func init() {
	for i := 8; i < 8+c19ManyKeys; i++ {
		name := "k" + strconv.Itoa(i)
		switch i % 37 {
		case 5:
			name += "\x02"
		case 11:
			name += `"`
		case 23:
			name += "é😀"
		}
		c19KeyNames = append(c19KeyNames, name)
	}
}

// --- RuleASTNodes
type ruleMap struct{ m *schema.RuleASTNodes }

func rv(v int) schema.RuleASTNode {
	return schema.RuleASTNode{Value: strconv.Itoa(v), TokenType: schema.TokenTypeNumber}
}
func rvi(n schema.RuleASTNode) int { i, _ := strconv.Atoi(n.Value); return i }

func (r ruleMap) Name() string { return "schema.RuleASTNodes" }
func (r ruleMap) Set(k, v int) { r.m.Set(c19KeyNames[k], rv(v)) }
func (r ruleMap) Update(k int, f func(int) int) {
	r.m.Update(c19KeyNames[k], func(n schema.RuleASTNode) schema.RuleASTNode { return rv(f(rvi(n))) })
}
func (r ruleMap) Delete(k int) { r.m.Delete(c19KeyNames[k]) }
func keyIdx(s string) int {
	for i, n := range c19KeyNames {
		if n == s {
			return i
		}
	}
	return -1
}
func (r ruleMap) Filter(keep func(k, v int) bool) {
	r.m.Filter(func(k string, n schema.RuleASTNode) bool { return keep(keyIdx(k), rvi(n)) })
}
func (r ruleMap) Map(f func(k, v int) (int, error)) error {
	return r.m.Map(func(k string, n schema.RuleASTNode) (schema.RuleASTNode, error) {
		v, err := f(keyIdx(k), rvi(n))
		return rv(v), err
	})
}
func (r ruleMap) Find(pred func(k, v int) bool) (kv, bool) {
	it, ok := r.m.Find(func(k string, n schema.RuleASTNode) bool { return pred(keyIdx(k), rvi(n)) })
	return kv{keyIdx(it.Key), rvi(it.Value)}, ok
}
func (r ruleMap) Each() (out []kv) {
	r.m.Each(func(k string, n schema.RuleASTNode) error { out = append(out, kv{keyIdx(k), rvi(n)}); return nil })
	return
}
func (r ruleMap) EachSafe() (out []kv) {
	r.m.EachSafe(func(k string, n schema.RuleASTNode) { out = append(out, kv{keyIdx(k), rvi(n)}) })
	return
}
func (r ruleMap) Len() int       { return r.m.Len() }
func (r ruleMap) Has(k int) bool { return r.m.Has(c19KeyNames[k]) }
func (r ruleMap) Get(k int) (int, bool) {
	n, ok := r.m.Get(c19KeyNames[k])
	return rvi(n), ok
}
func (r ruleMap) GetValue(k int) (int, bool) {
	n := r.m.GetValue(c19KeyNames[k])
	return rvi(n), n.Value != ""
}
func (r ruleMap) JSON() ([]byte, error) { return r.m.MarshalJSON() }
func (r ruleMap) KeyJSON(k int) string  { return c19KeyNames[k] }

// --- ASTNodes
type astMap struct{ m *schema.ASTNodes }

func av(v int) schema.ASTNode {
	return schema.ASTNode{Value: strconv.Itoa(v), TokenType: schema.TokenTypeNumber}
}
func avi(n schema.ASTNode) int { i, _ := strconv.Atoi(n.Value); return i }

func (r astMap) Name() string { return "schema.ASTNodes" }
func (r astMap) Set(k, v int) { r.m.Set(c19KeyNames[k], av(v)) }
func (r astMap) Update(k int, f func(int) int) {
	r.m.Update(c19KeyNames[k], func(n schema.ASTNode) schema.ASTNode { return av(f(avi(n))) })
}
func (r astMap) Delete(k int) { r.m.Delete(c19KeyNames[k]) }
func (r astMap) Filter(keep func(k, v int) bool) {
	r.m.Filter(func(k string, n schema.ASTNode) bool { return keep(keyIdx(k), avi(n)) })
}
func (r astMap) Map(f func(k, v int) (int, error)) error {
	return r.m.Map(func(k string, n schema.ASTNode) (schema.ASTNode, error) {
		v, err := f(keyIdx(k), avi(n))
		return av(v), err
	})
}
func (r astMap) Find(pred func(k, v int) bool) (kv, bool) {
	it, ok := r.m.Find(func(k string, n schema.ASTNode) bool { return pred(keyIdx(k), avi(n)) })
	return kv{keyIdx(it.Key), avi(it.Value)}, ok
}
func (r astMap) Each() (out []kv) {
	r.m.Each(func(k string, n schema.ASTNode) error { out = append(out, kv{keyIdx(k), avi(n)}); return nil })
	return
}
func (r astMap) EachSafe() (out []kv) {
	r.m.EachSafe(func(k string, n schema.ASTNode) { out = append(out, kv{keyIdx(k), avi(n)}) })
	return
}
func (r astMap) Len() int       { return r.m.Len() }
func (r astMap) Has(k int) bool { return r.m.Has(c19KeyNames[k]) }
func (r astMap) Get(k int) (int, bool) {
	n, ok := r.m.Get(c19KeyNames[k])
	return avi(n), ok
}
func (r astMap) GetValue(k int) (int, bool) {
	n := r.m.GetValue(c19KeyNames[k])
	return avi(n), n.Value != ""
}
func (r astMap) JSON() ([]byte, error) { return r.m.MarshalJSON() }
func (r astMap) KeyJSON(k int) string  { return c19KeyNames[k] }

// --- Constraints (keys are constraint.Type values, values are constraint objects)
var c19ConKeys = []constraint.Type{constraint.MinLengthConstraintType, constraint.MaxLengthConstraintType,
	constraint.MinConstraintType, constraint.MaxConstraintType, constraint.PrecisionConstraintType,
	constraint.MinItemsConstraintType, constraint.MaxItemsConstraintType, constraint.OptionalConstraintType}

func cv(v int) constraint.Constraint {
	return constraint.NewMinLength(cbytes.NewBytes(strconv.Itoa(v)))
}
func cvi(c constraint.Constraint) int {
	if c == nil {
		return -1
	}
	i, _ := strconv.Atoi(c.ASTNode().Value)
	return i
}
func conIdx(t constraint.Type) int {
	for i, k := range c19ConKeys {
		if k == t {
			return i
		}
	}
	return -1
}

type conMap struct{ m *ischema.Constraints }

func (r conMap) Name() string { return "ischema.Constraints" }
func (r conMap) Set(k, v int) { r.m.Set(c19ConKeys[k], cv(v)) }
func (r conMap) Update(k int, f func(int) int) {
	r.m.Update(c19ConKeys[k], func(n constraint.Constraint) constraint.Constraint { return cv(f(cvi(n))) })
}
func (r conMap) Delete(k int) { r.m.Delete(c19ConKeys[k]) }
func (r conMap) Filter(keep func(k, v int) bool) {
	r.m.Filter(func(k constraint.Type, n constraint.Constraint) bool { return keep(conIdx(k), cvi(n)) })
}
func (r conMap) Map(f func(k, v int) (int, error)) error {
	return r.m.Map(func(k constraint.Type, n constraint.Constraint) (constraint.Constraint, error) {
		v, err := f(conIdx(k), cvi(n))
		return cv(v), err
	})
}
func (r conMap) Find(pred func(k, v int) bool) (kv, bool) {
	it, ok := r.m.Find(func(k constraint.Type, n constraint.Constraint) bool { return pred(conIdx(k), cvi(n)) })
	if !ok {
		return kv{}, false
	}
	return kv{conIdx(it.Key), cvi(it.Value)}, ok
}
func (r conMap) Each() (out []kv) {
	r.m.Each(func(k constraint.Type, n constraint.Constraint) error {
		out = append(out, kv{conIdx(k), cvi(n)})
		return nil
	})
	return
}
func (r conMap) EachSafe() (out []kv) {
	r.m.EachSafe(func(k constraint.Type, n constraint.Constraint) { out = append(out, kv{conIdx(k), cvi(n)}) })
	return
}
func (r conMap) Len() int       { return r.m.Len() }
func (r conMap) Has(k int) bool { return r.m.Has(c19ConKeys[k]) }
func (r conMap) Get(k int) (int, bool) {
	n, ok := r.m.Get(c19ConKeys[k])
	return cvi(n), ok
}
func (r conMap) GetValue(k int) (int, bool) {
	n := r.m.GetValue(c19ConKeys[k])
	return cvi(n), n != nil
}
func (r conMap) JSON() ([]byte, error) { return r.m.MarshalJSON() }
func (r conMap) KeyJSON(k int) string  { return "" } // documentation silent on the key spelling: only validity, count and order are judged

// ---- the monitor -------------------------------------------------------------

type c19Op struct {
	Op  string `json:"op"`
	K   int    `json:"k,omitempty"`
	V   int    `json:"v,omitempty"`
	Arg int    `json:"arg,omitempty"` // predicate selector
}

var c19OpKinds = []string{"set", "update", "delete", "filter", "map", "find", "mapfail", "filterpanic"}

var errC19Map = errors.New("callback refuses")

// predicates for filter/find: by selector
// c19ReadsBlock is set once a Find whose predicate reads the container has not come back.
var c19ReadsBlock bool

func c19Pred(sel int) func(k, v int) bool {
	switch sel % 6 {
	case 0:
		return func(k, v int) bool { return true }
	case 1:
		return func(k, v int) bool { return false }
	case 2:
		return func(k, v int) bool { return k%2 == 0 }
	case 3:
		return func(k, v int) bool { return k%2 == 1 }
	case 4:
		return func(k, v int) bool { return v%2 == 0 }
	default:
		return func(k, v int) bool { return k != 0 }
	}
}

type c19Case struct {
	Container string  `json:"container"`
	Ops       []c19Op `json:"ops"`
}

func c19New(name string) omap {
	switch name {
	case "schema.RuleASTNodes":
		return ruleMap{&schema.RuleASTNodes{}}
	case "schema.ASTNodes":
		return astMap{&schema.ASTNodes{}}
	default:
		return conMap{&ischema.Constraints{}}
	}
}

var c19Containers = []string{"schema.RuleASTNodes", "schema.ASTNodes", "ischema.Constraints"}

// c19Apply runs one sequence on a fresh container and on the reference dict,
// comparing the whole observable state after every operation.
func c19Apply(r *mon.Run, cs c19Case) bool {
	c19Universe = 8
	for _, op := range cs.Ops {
		if op.K >= 8 && op.K < len(c19KeyNames) {
			c19Universe = len(c19KeyNames)
		}
	}
	m := c19New(cs.Container)
	d := newRefDict()
	var keptJSON, keptCopy []byte
	ok := true
	fail := func(step int, clause, what string) {
		ok = false
		r.Violate(clause, cs.Container+" "+opsString(cs.Ops[:step+1]), what, cs)
	}
	for i, op := range cs.Ops {
		var p *mon.Panic
		switch op.Op {
		case "set":
			p = mon.Guard(func() { m.Set(op.K, op.V) })
			d.set(op.K, op.V)
		case "update":
			p = mon.Guard(func() { m.Update(op.K, func(v int) int { return v + 100 }) })
			d.update(op.K, func(v int) int { return v + 100 })
		case "delete":
			p = mon.Guard(func() { m.Delete(op.K) })
			d.del(op.K)
		case "filter":
			var seen []int
			p = mon.Guard(func() {
				m.Filter(func(k, v int) bool { seen = append(seen, k); return c19Pred(op.Arg)(k, v) })
			})
			want := d.filter(c19Pred(op.Arg))
			if p == nil && fmt.Sprint(seen) != fmt.Sprint(want) {
				fail(i, "filter-visits", fmt.Sprintf("Filter visited keys %v, an insertion-ordered dict visits %v", seen, want))
				return false
			}
		case "filterpanic":
			// the predicate panics at its (Arg+1)-th visit; the caller recovers and goes on using the container: the
			// keys refused before the panic are gone, everything else is as it was
			visits := 0
			pred := c19Pred(op.V)
			mon.Guard(func() {
				m.Filter(func(k, v int) bool {
					visits++
					if visits == op.Arg+1 {
						panic("predicate gives up")
					}
					return pred(k, v)
				})
			})
			var keep []int
			for i, k := range d.keys {
				if i < op.Arg && !pred(k, d.vals[k]) {
					delete(d.vals, k)
					continue
				}
				keep = append(keep, k)
			}
			d.keys = keep
		case "map":
			p = mon.Guard(func() { _ = m.Map(func(k, v int) (int, error) { return v*2 + k, nil }) })
			for _, k := range d.keys {
				d.vals[k] = d.vals[k]*2 + k
			}
		case "mapfail":
			// the callback fails at its (Arg+1)-th visit and hands back a value with the error: a dictionary keeps
			// the entries visited before as mapped, and the failing and all later entries as they were
			var merr error
			visits := 0
			p = mon.Guard(func() {
				merr = m.Map(func(k, v int) (int, error) {
					visits++
					if visits == op.Arg+1 {
						return 777, errC19Map
					}
					return v*2 + k, nil
				})
			})
			for i, k := range d.keys {
				if i >= op.Arg {
					break
				}
				d.vals[k] = d.vals[k]*2 + k
			}
			if p == nil && (merr != nil) != (len(d.keys) > op.Arg) {
				fail(i, "map-error", fmt.Sprintf("Map with a callback failing at visit %d over %d entries returned error %v", op.Arg+1, len(d.keys), merr))
				return false
			}
		case "find":
			var got kv
			var found bool
			// the predicate also reads the container it is asked about (Has, Len, Get of the key it is shown), as a
			// plain dictionary lets it; a call that does not come back within a minute has locked itself out
			reads := 0
			pred := func(k, v int) bool {
				if c19ReadsBlock {
					reads++ // seen to lock itself out once in this process: not tried again (each try costs the full wait)
					return c19Pred(op.Arg)(k, v)
				}
				if m.Has(k) && m.Len() > 0 {
					if gv, ok := m.Get(k); ok && gv == v {
						reads++
					}
				}
				return c19Pred(op.Arg)(k, v)
			}
			done := make(chan struct{})
			go func() {
				defer close(done)
				p = mon.Guard(func() { got, found = m.Find(pred) })
			}()
			select {
			case <-done:
			case <-time.After(30 * time.Second):
				c19ReadsBlock = true
				fail(i, "reentrant-read", "Find with a predicate that reads the container (Has, Len, Get) did not return within 30 s")
				return false
			}
			wantFound := false
			var want kv
			for _, k := range d.keys {
				if c19Pred(op.Arg)(k, d.vals[k]) {
					want, wantFound = kv{k, d.vals[k]}, true
					break
				}
			}
			if p == nil && (found != wantFound || (found && got != want)) {
				fail(i, "find", fmt.Sprintf("Find returned %v,%v; reference %v,%v", got, found, want, wantFound))
				return false
			}
			wantReads := len(d.keys)
			for n, k := range d.keys {
				if c19Pred(op.Arg)(k, d.vals[k]) {
					wantReads = n + 1
					break
				}
			}
			if p == nil && reads != wantReads {
				fail(i, "find", fmt.Sprintf("while Find ran, the container confirmed (Has, Get) %d of the %d entries it showed to the predicate", reads, wantReads))
				return false
			}
		}
		if p != nil {
			fail(i, "panic", "panic: "+p.Value+" at "+p.Site)
			return false
		}
		if what := c19Compare(m, d); what != "" {
			clause := what[:strings.Index(what, ":")]
			fail(i, clause, what)
			return false
		}
		// the JSON handed out after the previous operation is the caller's: marshalling again (this container, and a
		// second container of the same kind) must not change it
		if keptJSON != nil && !bytes.Equal(keptJSON, keptCopy) {
			fail(i, "json-kept", fmt.Sprintf("json-kept: the bytes MarshalJSON returned earlier (%s) read %s after later MarshalJSON calls", mon.Trunc(string(keptCopy), 80), mon.Trunc(string(keptJSON), 80)))
			return false
		}
		if b, err := m.JSON(); err == nil {
			keptJSON, keptCopy = b, bytes.Clone(b)
			other := c19New(cs.Container)
			other.Set(0, 12345)
			_, _ = other.JSON()
		}
	}
	return ok
}

func opsString(ops []c19Op) string {
	var sb strings.Builder
	for i, o := range ops {
		if i > 0 {
			sb.WriteByte(' ')
		}
		switch o.Op {
		case "set":
			fmt.Fprintf(&sb, "set(%d,%d)", o.K, o.V)
		case "update", "delete":
			fmt.Fprintf(&sb, "%s(%d)", o.Op, o.K)
		case "filter", "find", "filterpanic", "mapfail":
			fmt.Fprintf(&sb, "%s(p%d)", o.Op, o.Arg%6)
		default:
			sb.WriteString(o.Op)
		}
	}
	return sb.String()
}

// c19Compare returns "" or "<clause>: description".
func c19Compare(m omap, d *refDict) string {
	if m.Len() != len(d.keys) {
		return fmt.Sprintf("len: Len()=%d, reference has %d entries", m.Len(), len(d.keys))
	}
	nKeys := c19Universe
	for k := 0; k < nKeys; k++ {
		wv, wok := d.vals[k]
		if m.Has(k) != wok {
			return fmt.Sprintf("has: Has(key %d)=%v, reference %v", k, m.Has(k), wok)
		}
		gv, gok := m.Get(k)
		if gok != wok || (wok && gv != wv) {
			return fmt.Sprintf("get: Get(key %d)=%d,%v, reference %d,%v", k, gv, gok, wv, wok)
		}
		gv2, nonzero := m.GetValue(k)
		if nonzero != wok || (wok && gv2 != wv) {
			return fmt.Sprintf("get: GetValue(key %d)=%d (set=%v), reference %d (set=%v)", k, gv2, nonzero, wv, wok)
		}
	}
	var want []kv
	for _, k := range d.keys {
		want = append(want, kv{k, d.vals[k]})
	}
	if got := m.Each(); fmt.Sprint(got) != fmt.Sprint(want) {
		return fmt.Sprintf("order: Each saw %v, reference order %v", got, want)
	}
	if got := m.EachSafe(); fmt.Sprint(got) != fmt.Sprint(want) {
		return fmt.Sprintf("order: EachSafe saw %v, reference order %v", got, want)
	}
	b, err := m.JSON()
	if err != nil {
		return fmt.Sprintf("json: MarshalJSON failed: %v", err)
	}
	if !json.Valid(b) {
		return fmt.Sprintf("json-valid: MarshalJSON returned text that is not JSON: %s", mon.Trunc(string(b), 120))
	}
	// keys in order, one entry per key
	dec := json.NewDecoder(strings.NewReader(string(b)))
	tok, err := dec.Token()
	if err != nil || tok != json.Delim('{') {
		return fmt.Sprintf("json: MarshalJSON is not an object: %s", mon.Trunc(string(b), 120))
	}
	var keys []string
	for dec.More() {
		kt, err := dec.Token()
		if err != nil {
			return "json: " + err.Error()
		}
		ks, _ := kt.(string)
		keys = append(keys, ks)
		var skip json.RawMessage
		if err := dec.Decode(&skip); err != nil {
			return "json: " + err.Error()
		}
	}
	if len(keys) != len(d.keys) {
		return fmt.Sprintf("json-entries: JSON has %d entries %q, reference has %d", len(keys), keys, len(d.keys))
	}
	for i, k := range d.keys {
		if wantK := m.KeyJSON(k); wantK != "" || m.Name() != "ischema.Constraints" {
			if keys[i] != wantK {
				return fmt.Sprintf("json-order: JSON key #%d is %q, reference %q", i, keys[i], wantK)
			}
		}
	}
	if m.Name() == "ischema.Constraints" {
		seen := map[string]bool{}
		for _, k := range keys {
			if seen[k] {
				return fmt.Sprintf("json-entries: JSON repeats key %q", k)
			}
			seen[k] = true
		}
	}
	return ""
}

// ---- string set --------------------------------------------------------------

type c19SetCase struct {
	Init []int `json:"init"` // NewStringSet(...) arguments; nil = zero value
	Zero bool  `json:"zero"`
	Adds []int `json:"adds"`
}

func c19ApplySet(r *mon.Run, cs c19SetCase) bool {
	var s *jschema.StringSet
	var ref []int
	has := map[int]bool{}
	add := func(k int) {
		if !has[k] {
			has[k] = true
			ref = append(ref, k)
		}
	}
	desc := fmt.Sprintf("StringSet zero=%v init=%v adds=%v", cs.Zero, cs.Init, cs.Adds)
	if cs.Zero {
		s = &jschema.StringSet{}
	} else {
		var vv []string
		for _, k := range cs.Init {
			vv = append(vv, c19KeyNames[k])
			add(k)
		}
		// the argument slice is the caller's (with spare capacity, as a slice built by append has): a second set is
		// built from it and gets an element added, and the slice is overwritten afterwards - neither may show in s
		arg := append(make([]string, 0, len(vv)+4), vv...)
		if p := mon.Guard(func() {
			s = jschema.NewStringSet(arg...)
			other := jschema.NewStringSet(arg...)
			other.Add("only in the other set")
			s.Len()
			for i := range arg {
				arg[i] = "overwritten by the caller"
			}
		}); p != nil {
			r.Violate("panic", desc, p.Value, cs)
			return false
		}
	}
	check := func(step string) bool {
		var want []string
		for _, k := range ref {
			want = append(want, c19KeyNames[k])
		}
		got := s.Data()
		if s.Len() != len(ref) {
			r.Violate("set-len", desc+" @"+step, fmt.Sprintf("Len()=%d, reference %d", s.Len(), len(ref)), cs)
			return false
		}
		if fmt.Sprintf("%q", got) != fmt.Sprintf("%q", want) {
			r.Violate("set-order", desc+" @"+step, fmt.Sprintf("Data()=%q, reference %q", got, want), cs)
			return false
		}
		for k := range c19KeyNames {
			if s.Has(c19KeyNames[k]) != has[k] {
				r.Violate("set-has", desc+" @"+step, fmt.Sprintf("Has(%q)=%v, reference %v", c19KeyNames[k], s.Has(c19KeyNames[k]), has[k]), cs)
				return false
			}
		}
		return true
	}
	if !check("init") {
		return false
	}
	for i, k := range cs.Adds {
		if p := mon.Guard(func() { s.Add(c19KeyNames[k]) }); p != nil {
			r.Violate("panic", desc, p.Value, cs)
			return false
		}
		add(k)
		if !check(fmt.Sprintf("add#%d", i)) {
			return false
		}
	}
	return true
}

// ---- workload ----------------------------------------------------------------

func c19Alphabet(nKeys int) []c19Op {
	var ops []c19Op
	for k := 0; k < nKeys; k++ {
		ops = append(ops, c19Op{Op: "set", K: k, V: k + 1})
		ops = append(ops, c19Op{Op: "delete", K: k})
	}
	ops = append(ops, c19Op{Op: "update", K: 0}, c19Op{Op: "update", K: nKeys - 1})
	ops = append(ops, c19Op{Op: "set", K: 0, V: 9})
	for sel := 1; sel < 6; sel++ {
		ops = append(ops, c19Op{Op: "filter", Arg: sel})
	}
	ops = append(ops, c19Op{Op: "mapfail", Arg: 0}, c19Op{Op: "mapfail", Arg: 1})
	ops = append(ops, c19Op{Op: "filterpanic", Arg: 1, V: 1}, c19Op{Op: "filterpanic", Arg: 2, V: 3})
	ops = append(ops, c19Op{Op: "map"}, c19Op{Op: "find", Arg: 3}, c19Op{Op: "find", Arg: 5}, c19Op{Op: "delete", K: nKeys}) // last: a key never set
	return ops
}

func c19Run(r *mon.Run) {
	// (1) exhaustive sequences over the op alphabet (3 keys + 1 never-set key)
	alpha := c19Alphabet(3)
	maxLen := r.Pick(4, 5)
	idx := 0
	var rec func(prefix []c19Op)
	rec = func(prefix []c19Op) {
		if len(prefix) > 0 {
			if r.Mine(idx) {
				for _, cn := range c19Containers {
					cs := c19Case{Container: cn, Ops: prefix}
					r.Eval(1)
					c19Apply(r, cs)
				}
				r.Nontrivial("seq", opsString(prefix))
				if idx%977 == 0 {
					r.Sample(map[string]any{"kind": "exhaustive sequence", "ops": opsString(prefix)})
				}
			}
			idx++
		}
		if len(prefix) == maxLen {
			return
		}
		for _, o := range alpha {
			rec(append(prefix[:len(prefix):len(prefix)], o))
		}
	}
	rec(nil)
	r.Count("exhaustive_sequences_this_shard", int64(idx/mon.LogicalShards))
	r.CountMax("max:exhaustive_len", int64(maxLen))

	// (2) random longer sequences over 6 keys
	rng := r.Rand("c19")
	n := r.Share(r.Pick(60_000, 2_000_000))
	for i := 0; i < n; i++ {
		ln := 1 + rng.IntN(40)
		ops := make([]c19Op, ln)
		for j := range ops {
			o := c19Op{Op: c19OpKinds[rng.IntN(len(c19OpKinds))], K: rng.IntN(7), V: rng.IntN(50), Arg: rng.IntN(6)}
			if rng.IntN(3) == 0 {
				o.Op = "set"
			}
			ops[j] = o
		}
		cn := c19Containers[rng.IntN(3)]
		r.Eval(1)
		c19Apply(r, c19Case{Container: cn, Ops: ops})
		r.Nontrivial("rnd", cn, opsString(ops))
		if i == 0 {
			r.Sample(map[string]any{"kind": "random sequence", "container": cn, "ops": opsString(ops)})
		}
	}

	// (2b) many keys: long sequences over 308 keys (string-keyed containers), sizes crossing 8 .. 256 entries
	for i, nb := 0, r.Share(r.Pick(48, 1600)); i < nb; i++ {
		ln := 200 + rng.IntN(700)
		ops := make([]c19Op, ln)
		grow := rng.IntN(3) != 0
		for j := range ops {
			o := c19Op{Op: "set", K: rng.IntN(len(c19KeyNames)), V: rng.IntN(1000), Arg: rng.IntN(6)}
			switch x := rng.IntN(40); {
			case x < 8 && !grow, x < 3:
				o.Op = "delete"
			case x < 11:
				o.Op = "update"
			case x == 11:
				o.Op = "find"
			case x == 12 && j > ln/2:
				o.Op = []string{"filter", "map", "mapfail"}[rng.IntN(3)]
				if o.Op == "mapfail" {
					o.Arg = rng.IntN(300)
				}
			}
			ops[j] = o
		}
		cn := c19Containers[rng.IntN(2)]
		r.Eval(1)
		c19Apply(r, c19Case{Container: cn, Ops: ops})
		r.Nontrivial("many", cn, opsString(ops))
		r.Count("many_keys_sequences", 1)
	}

	// (3) string sets: all constructor argument lists of length <= 3 over 3 names x all add lists of length <= 3
	lists := [][]int{nil}
	for l := 1; l <= 3; l++ {
		var gen func(p []int)
		gen = func(p []int) {
			if len(p) == l {
				lists = append(lists, append([]int(nil), p...))
				return
			}
			for k := 0; k < 3; k++ {
				gen(append(p, k))
			}
		}
		gen(nil)
	}
	si := 0
	for _, init := range lists {
		for _, adds := range lists {
			for _, zero := range []bool{false, true} {
				if zero && len(init) > 0 {
					continue
				}
				if r.Mine(si) {
					r.Eval(1)
					c19ApplySet(r, c19SetCase{Init: init, Zero: zero, Adds: adds})
					r.Nontrivial("set", fmt.Sprint(init, zero, adds))
				}
				si++
			}
		}
	}
	r.Count("stringset_cases", int64(si/mon.LogicalShards))
}

func init() {
	register(&mon.CheckDef{
		ID:  "C19",
		Run: c19Run,
		Replay: func(r *mon.Run, raw json.RawMessage) {
			var cs c19Case
			if json.Unmarshal(raw, &cs) == nil && cs.Container != "" {
				c19Apply(r, cs)
				return
			}
			var ss c19SetCase
			if json.Unmarshal(raw, &ss) == nil {
				c19ApplySet(r, ss)
			}
		},
		Rule:               "every sequence of <= L operations (L=4 quick, 5 thorough) over an alphabet of 23 operations {set/delete of 3 keys (one holds a control character), update, set-existing, 5 filter predicates, map, map with a callback that fails at its 1st / 2nd visit and hands back a value with the error, 2 find predicates, filter with a predicate that panics at its 2nd / 3rd visit (the caller recovers and goes on), delete of a never-set key} is applied to a fresh RuleASTNodes, ASTNodes and Constraints container and to a reference insertion-ordered dict; Len/Has/Get/GetValue/Each/EachSafe/MarshalJSON are compared after every operation, and the bytes MarshalJSON returned are kept and must still read the same after the next operation's MarshalJSON calls (on this and on another container of the kind); plus random sequences of <= 40 operations over 7 keys (some need JSON escaping), sequences of 200-900 operations over 308 keys on the two string-keyed containers (sizes crossing 8..256 entries), and all StringSet constructor/Add lists of length <= 3 over 3 names (the constructor's argument slice is reused for a second set and overwritten afterwards). distinct_nontrivial = distinct operation sequences (hashed text), every one of which mutates or queries the container at least once.",
		MinNontrivialQuick: 10000, MinNontrivialThorough: 100000,
		Assumptions: []string{"reference model: 40-line insertion-ordered dict in harness/internal/props/c19.go", "encoding/json decides JSON validity and key order of MarshalJSON output",
			"Constraints.MarshalJSON: the spelling of keys is not judged (documentation silent), only validity, entry count, uniqueness"},
		Exhaustive: "all operation sequences up to the stated length over the 19-operation alphabet; all StringSet constructor/Add lists of length <= 3 over 3 names",
	})
}
