// Package mon is the monitor plumbing shared by all property checks:
// worker-side recording (guarded calls, journal, counters, violations,
// distinct-case hashing) and coordinator-side folding (shards, crash triage,
// known findings, evidence, replay files).
package mon

import (
	"crypto/sha256"
	"encoding/binary"
	"encoding/hex"
	"encoding/json"
	"fmt"
	"hash/fnv"
	"math/rand/v2"
	"os"
	"path/filepath"
	"runtime"
	"runtime/debug"
	"sort"
	"strings"
	"sync"
	"sync/atomic"
	"syscall"
	"time"
)

// LogicalShards is fixed so that the case lists are a pure function of the
// seed and tier, whatever the number of cores.
const LogicalShards = 16

// Violation is one refuting observation.
type Violation struct {
	Property string          `json:"property"`
	Clause   string          `json:"clause"`
	Key      string          `json:"key"`
	What     string          `json:"what"`
	Case     json.RawMessage `json:"case,omitempty"`
}

// Result is what one worker (one logical shard) reports.
type Result struct {
	Shard        int              `json:"shard"`
	Evals        int64            `json:"evals"`
	Inconclusive int64            `json:"inconclusive"`
	Counters     map[string]int64 `json:"counters"`
	Samples      []any            `json:"samples"`
	Violations   []Violation      `json:"violations"`
	Notes        []string         `json:"notes,omitempty"`
	MoreViol     int64            `json:"more_violations"` // dropped duplicates / overflow
	Done         bool             `json:"done"`
}

// Run is the worker-side handle passed to a property check.
type Run struct {
	Prop    string
	Tier    string
	Seed    uint64
	Shard   int
	Repo    string
	OutDir  string // per-run scratch dir inside /verif/out
	Thor    bool
	OneShot bool
	Exe     string

	mu       sync.Mutex
	res      Result
	distinct map[uint64]struct{}
	seenViol map[string]int

	journal   *os.File
	caseSeq   atomic.Int64
	startFrom int64
	stopAfter int64
	cpuBudget time.Duration
}

// NewRun creates a worker-side run.
func NewRun(prop, tier string, seed uint64, shard int, repo, outDir string) *Run {
	r := &Run{Prop: prop, Tier: tier, Seed: seed, Shard: shard, Repo: repo, OutDir: outDir,
		Thor: tier == "thorough", distinct: map[uint64]struct{}{}, seenViol: map[string]int{},
		cpuBudget: 300 * time.Second}
	r.res.Shard = shard
	r.res.Counters = map[string]int64{}
	return r
}

// Quick reports whether this is the quick tier.
func (r *Run) Quick() bool { return !r.Thor }

// Pick returns q in the quick tier and t in the thorough tier.
func (r *Run) Pick(q, t int) int {
	if r.Thor {
		return t
	}
	return q
}

// Mine tells whether case number i of a globally enumerated list belongs to
// this logical shard.
func (r *Run) Mine(i int) bool { return i%LogicalShards == r.Shard }

// Share returns this shard's share of n randomly generated cases.
func (r *Run) Share(n int) int {
	s := n / LogicalShards
	if r.Shard < n%LogicalShards {
		s++
	}
	return s
}

// Rand returns a PCG stream determined by (seed, stream name, shard).
func (r *Run) Rand(stream string) *rand.Rand {
	h := fnv.New64a()
	h.Write([]byte(stream))
	return rand.New(rand.NewPCG(r.Seed*0x9E3779B97F4A7C15+uint64(r.Shard)+1, h.Sum64()))
}

// RandGlobal returns a stream that is the same in every shard.
func (r *Run) RandGlobal(stream string) *rand.Rand {
	h := fnv.New64a()
	h.Write([]byte(stream))
	return rand.New(rand.NewPCG(r.Seed*0x9E3779B97F4A7C15, h.Sum64()))
}

// Eval counts n evaluated cases.
func (r *Run) Eval(n int) { atomic.AddInt64(&r.res.Evals, int64(n)) }

// Count adds to a named counter.
func (r *Run) Count(name string, n int64) {
	r.mu.Lock()
	r.res.Counters[name] += n
	r.mu.Unlock()
}

// CountMax keeps the maximum under a named counter.
func (r *Run) CountMax(name string, n int64) {
	r.mu.Lock()
	if n > r.res.Counters[name] {
		r.res.Counters[name] = n
	}
	r.mu.Unlock()
}

// Inconclusive counts a case that could not be judged.
func (r *Run) Inconclusive(why string) {
	atomic.AddInt64(&r.res.Inconclusive, 1)
	r.Count("inconclusive:"+why, 1)
}

// Note records a free-text remark for the evidence file.
func (r *Run) Note(s string) {
	r.mu.Lock()
	if len(r.res.Notes) < 20 {
		r.res.Notes = append(r.res.Notes, s)
	}
	r.mu.Unlock()
}

const maxDistinctPerShard = 500_000

// Nontrivial records a non-trivial case by its identifying bytes.
func (r *Run) Nontrivial(parts ...string) {
	h := fnv.New64a()
	for _, p := range parts {
		h.Write([]byte(p))
		h.Write([]byte{0})
	}
	v := h.Sum64()
	r.mu.Lock()
	if len(r.distinct) < maxDistinctPerShard {
		r.distinct[v] = struct{}{}
	}
	r.mu.Unlock()
}

// Sample keeps a few written-out cases for the evidence file.
func (r *Run) Sample(v any) {
	r.mu.Lock()
	if len(r.res.Samples) < 3 {
		r.res.Samples = append(r.res.Samples, v)
	}
	r.mu.Unlock()
}

// Violate records a violation. Duplicates of (clause,key) are counted only.
func (r *Run) Violate(clause, key, what string, cas any) {
	raw, _ := json.Marshal(cas)
	r.mu.Lock()
	defer r.mu.Unlock()
	id := clause + "\x00" + key
	r.seenViol[id]++
	if r.seenViol[id] > 1 {
		r.res.MoreViol++ // a repeat of a recorded (clause, key): folded
		return
	}
	// keep at most 12 distinct keys per clause and shard so that one frequent
	// defect family cannot crowd out the others; repeats of one key do not count
	r.seenViol["\x01"+clause]++
	if r.seenViol["\x01"+clause] > 12 || len(r.res.Violations) >= 200 {
		r.res.MoreViol++
		r.res.Counters["violations_dropped_beyond_the_per_clause_cap:"+clause]++
		return
	}
	if len(what) > 600 {
		what = what[:600] + "…"
	}
	r.res.Violations = append(r.res.Violations, Violation{Property: r.Prop, Clause: clause, Key: key, What: what, Case: raw})
}

// ---- guarded calls ----------------------------------------------------------

// Panic describes a panic that escaped a call.
type Panic struct {
	Value string
	Site  string // innermost repository function that is not in a leaf utility package
	Stack string
}

const modPath = "github.com/jsightapi/jsight-schema-core/"

var leafPkgs = []string{"bytes.", "internal/ds.", "errs.", "panics.", "verifhook."}

// SiteOf extracts the call-site key from a stack trace.
func SiteOf(stack string) string {
	first := ""
	for _, ln := range strings.Split(stack, "\n") {
		ln = strings.TrimSpace(ln)
		i := strings.Index(ln, modPath)
		if i != 0 {
			continue
		}
		fn := ln[len(modPath):]
		if j := strings.LastIndex(fn, "("); j > 0 {
			fn = fn[:j]
		}
		// strip generic instantiation noise and closures
		fn = strings.TrimSuffix(fn, "[...]")
		if first == "" {
			first = fn
		}
		leaf := false
		for _, p := range leafPkgs {
			if strings.HasPrefix(fn, p) {
				leaf = true
			}
		}
		if !leaf {
			return fn
		}
	}
	if first != "" {
		return first
	}
	return "?"
}

// Begin journals the case about to be executed (so that a process death can be
// attributed) and returns false if the case must be skipped (before a restart
// point).
func (r *Run) Begin(desc func() []byte) bool {
	seq := r.caseSeq.Add(1)
	if seq <= r.startFrom || (r.stopAfter > 0 && seq > r.stopAfter) {
		return false
	}
	if r.journal != nil {
		d := desc()
		buf := make([]byte, 16+len(d))
		binary.LittleEndian.PutUint64(buf, uint64(seq))
		binary.LittleEndian.PutUint64(buf[8:], uint64(len(d)))
		copy(buf[16:], d)
		r.journal.WriteAt(buf, 0)
	}
	return true
}

// Guard runs f and returns a description of the panic that escaped it, if any.
func Guard(f func()) (p *Panic) {
	defer func() {
		if v := recover(); v != nil {
			st := string(debug.Stack())
			p = &Panic{Value: fmt.Sprint(v), Stack: st, Site: SiteOf(afterPanicFrame(st))}
		}
	}()
	f()
	return nil
}

func afterPanicFrame(st string) string {
	if i := strings.Index(st, "panic("); i >= 0 {
		return st[i:]
	}
	return st
}

// ---- worker life cycle -----------------------------------------------------

// StartWorker prepares journal and watchdog.
// Resource bounds of a worker. They are far above what any legitimate case of the
// workloads needs (the deepest nesting in use is 10^4, the longest input 64 KiB) and
// exist so that a runaway recursion or allocation ends the worker quickly instead of
// exhausting the machine: a 1 GiB default stack times 16 workers would.
const (
	workerMaxStack = 256 << 20
	workerMaxRSS   = 3 << 30
)

func (r *Run) StartWorker(startFrom, stopAfter int64) {
	debug.SetMaxStack(workerMaxStack)
	r.startFrom = startFrom
	r.stopAfter = stopAfter
	r.OneShot = stopAfter > 0
	os.MkdirAll(r.OutDir, 0o755)
	if !r.OneShot {
		f, err := os.OpenFile(r.journalPath(), os.O_CREATE|os.O_RDWR|os.O_TRUNC, 0o644)
		if err == nil {
			r.journal = f
		}
	}
	go r.watchdog()
}

func (r *Run) journalPath() string {
	return filepath.Join(r.OutDir, fmt.Sprintf("journal.%d", r.Shard))
}

func cpuTime() time.Duration {
	var ru syscall.Rusage
	syscall.Getrusage(syscall.RUSAGE_SELF, &ru)
	return time.Duration(ru.Utime.Nano() + ru.Stime.Nano())
}

// SetCPUBudget changes the per-case CPU budget.
func (r *Run) SetCPUBudget(d time.Duration) { r.cpuBudget = d }

// watchdog: a case that burns more than the CPU budget without finishing is a
// hang. Uses process CPU time, not wall-clock time.
func (r *Run) watchdog() {
	var lastSeq int64 = -1
	var cpuAt time.Duration
	for {
		time.Sleep(250 * time.Millisecond)
		if rss := rssBytes(); rss > workerMaxRSS {
			fmt.Fprintf(os.Stderr, "VERIF-MEMORY seq=%d rss=%d MiB > %d MiB\n", r.caseSeq.Load(), rss>>20, workerMaxRSS>>20)
			buf := make([]byte, 1<<16)
			n := runtime.Stack(buf, true)
			os.Stderr.Write(buf[:n])
			os.Exit(3)
		}
		seq := r.caseSeq.Load()
		if seq != lastSeq {
			lastSeq = seq
			cpuAt = cpuTime()
			continue
		}
		if seq == 0 {
			continue
		}
		if cpuTime()-cpuAt > r.cpuBudget {
			fmt.Fprintf(os.Stderr, "VERIF-HANG seq=%d cpu>%v\n", seq, r.cpuBudget)
			buf := make([]byte, 1<<16)
			n := runtime.Stack(buf, true)
			os.Stderr.Write(buf[:n])
			os.Exit(3)
		}
	}
}

// Finish writes the shard result file.
func (r *Run) Finish() error {
	r.mu.Lock()
	defer r.mu.Unlock()
	r.res.Done = true
	// distinct hashes
	hs := make([]byte, 0, 8*len(r.distinct))
	for h := range r.distinct {
		hs = binary.LittleEndian.AppendUint64(hs, h)
	}
	if err := os.WriteFile(filepath.Join(r.OutDir, fmt.Sprintf("distinct.%d.%d", r.Shard, r.startFrom)), hs, 0o644); err != nil {
		return err
	}
	b, err := json.Marshal(&r.res)
	if err != nil {
		return err
	}
	return os.WriteFile(filepath.Join(r.OutDir, fmt.Sprintf("result.%d.%d.json", r.Shard, r.startFrom)), b, 0o644)
}

// ---- helpers ---------------------------------------------------------------

// Hash returns a short hex digest.
func Hash(parts ...string) string {
	h := sha256.New()
	for _, p := range parts {
		h.Write([]byte(p))
		h.Write([]byte{0})
	}
	return hex.EncodeToString(h.Sum(nil))[:16]
}

// SortedKeys returns the sorted keys of a map.
func SortedKeys[V any](m map[string]V) []string {
	ks := make([]string, 0, len(m))
	for k := range m {
		ks = append(ks, k)
	}
	sort.Strings(ks)
	return ks
}

// Trunc shortens a string for messages.
func Trunc(s string, n int) string {
	if len(s) <= n {
		return s
	}
	return s[:n] + "…"
}

// ReportReplay prints what a replay observed and returns the exit code.
func (r *Run) ReportReplay() int {
	r.mu.Lock()
	defer r.mu.Unlock()
	if len(r.res.Violations) == 0 {
		fmt.Println("replay: no violation observed")
		return 0
	}
	for _, v := range r.res.Violations {
		fmt.Printf("replay: VIOLATED clause=%s key=%q\n  %s\n", v.Clause, Trunc(v.Key, 200), v.What)
	}
	return 1
}

// rssBytes reads the resident set size of this process.
func rssBytes() int64 {
	b, err := os.ReadFile("/proc/self/statm")
	if err != nil {
		return 0
	}
	f := strings.Fields(string(b))
	if len(f) < 2 {
		return 0
	}
	var pages int64
	fmt.Sscan(f[1], &pages)
	return pages * int64(os.Getpagesize())
}
