package mon

import (
	"bufio"
	"bytes"
	"encoding/base64"
	"encoding/binary"
	"encoding/json"
	"fmt"
	"os"
	"os/exec"
	"path/filepath"
	"runtime"
	"sort"
	"strconv"
	"strings"
	"sync"
	"time"
)

// CheckDef describes one property check.
type CheckDef struct {
	ID     string
	Run    func(r *Run)
	Replay func(r *Run, raw json.RawMessage)
	// Rule is the evidence "rule" text.
	Rule string
	// MinNontrivial: fewer distinct non-trivial cases than this means the
	// monitors saw too little and the check must not look green (exit 2).
	MinNontrivialQuick, MinNontrivialThorough int
	MaxInconclusiveFrac                       float64
	Assumptions                               []string
	Exhaustive                                string // description of the exhaustively enumerated part, if any
	// Shards overrides the number of logical shards actually started (default all 16).
	SingleShard bool
	// Finalize may add coordinator-side observations (e.g. race logs).
	Finalize func(c *Coord)
}

// Coord is the coordinator-side state.
type Coord struct {
	Def    *CheckDef
	Tier   string
	Seed   uint64
	Root   string // /verif
	Repo   string
	OutDir string
	Exe    string

	mu           sync.Mutex
	Merged       Result
	Distinct     map[uint64]struct{}
	Deaths       int
	Restarts     int
	Extra        map[string]any
	inconclusive []string
}

// KnownFinding is one line of known_findings.jsonl.
type KnownFinding struct {
	Status   string `json:"status"` // finding | fixed
	Property string `json:"property"`
	Clause   string `json:"clause"`
	Key      string `json:"key"`
	What     string `json:"what"`
	Commit   string `json:"commit,omitempty"`
}

// LoadKnown reads the committed known-findings file.
func LoadKnown(root string) ([]KnownFinding, error) {
	f, err := os.Open(filepath.Join(root, "known_findings.jsonl"))
	if err != nil {
		if os.IsNotExist(err) {
			return nil, nil
		}
		return nil, err
	}
	defer f.Close()
	var out []KnownFinding
	sc := bufio.NewScanner(f)
	sc.Buffer(make([]byte, 1<<20), 1<<24)
	for sc.Scan() {
		ln := strings.TrimSpace(sc.Text())
		if ln == "" || strings.HasPrefix(ln, "#") {
			continue
		}
		var k KnownFinding
		if err := json.Unmarshal([]byte(ln), &k); err != nil {
			return nil, fmt.Errorf("known_findings.jsonl: %v", err)
		}
		out = append(out, k)
	}
	return out, sc.Err()
}

func (c *Coord) workerCmd(shard int, startFrom, stopAfter int64, logName string) (*exec.Cmd, *os.File, error) {
	cmd := exec.Command(c.Exe, "worker", c.Def.ID, c.Tier, strconv.FormatUint(c.Seed, 10),
		strconv.Itoa(shard), strconv.FormatInt(startFrom, 10), strconv.FormatInt(stopAfter, 10))
	cmd.Env = append(os.Environ(), "VERIF_OUTDIR="+c.OutDir, "VERIF_REPO="+c.Repo, "VERIF_ROOT="+c.Root)
	lf, err := os.Create(filepath.Join(c.OutDir, logName))
	if err != nil {
		return nil, nil, err
	}
	cmd.Stdout = lf
	cmd.Stderr = lf
	return cmd, lf, nil
}

func readJournal(path string) (seq int64, desc []byte, ok bool) {
	b, err := os.ReadFile(path)
	if err != nil || len(b) < 16 {
		return 0, nil, false
	}
	seq = int64(binary.LittleEndian.Uint64(b))
	n := int(binary.LittleEndian.Uint64(b[8:]))
	if n < 0 || 16+n > len(b) {
		return seq, nil, true
	}
	return seq, b[16 : 16+n], true
}

const shardWallLimit = 3 * time.Hour // generous; firing is inconclusive, never a violation

func runWithTimeout(cmd *exec.Cmd, d time.Duration) (err error, timedOut bool) {
	if err := cmd.Start(); err != nil {
		return err, false
	}
	done := make(chan error, 1)
	go func() { done <- cmd.Wait() }()
	select {
	case err := <-done:
		return err, false
	case <-time.After(d):
		cmd.Process.Signal(os.Interrupt)
		cmd.Process.Kill()
		<-done
		return fmt.Errorf("wall-clock watchdog"), true
	}
}

func (c *Coord) runShard(shard int) {
	var startFrom int64
	for attempt := 0; ; attempt++ {
		logName := fmt.Sprintf("worker.%d.%d.log", shard, startFrom)
		cmd, lf, err := c.workerCmd(shard, startFrom, 0, logName)
		if err != nil {
			c.addInconclusive(fmt.Sprintf("shard %d: %v", shard, err))
			return
		}
		err, timedOut := runWithTimeout(cmd, shardWallLimit)
		lf.Close()
		resPath := filepath.Join(c.OutDir, fmt.Sprintf("result.%d.%d.json", shard, startFrom))
		if c.mergeResult(resPath, shard, startFrom) {
			return
		}
		if timedOut {
			c.addInconclusive(fmt.Sprintf("shard %d: wall-clock watchdog fired", shard))
			return
		}
		// The worker died without a result.
		c.mu.Lock()
		c.Deaths++
		c.mu.Unlock()
		seq, desc, ok := readJournal(filepath.Join(c.OutDir, fmt.Sprintf("journal.%d", shard)))
		logTail := tailFile(filepath.Join(c.OutDir, logName), 1<<16)
		if !ok || seq <= startFrom {
			c.addInconclusive(fmt.Sprintf("shard %d died (%v) outside any journalled case; log tail: %s", shard, err, Trunc(logTail, 2000)))
			return
		}
		// Reproduce in a fresh one-shot worker.
		oneLog := fmt.Sprintf("oneshot.%d.%d.log", shard, seq)
		ocmd, olf, oerr := c.workerCmd(shard, seq-1, seq, oneLog)
		if oerr != nil {
			c.addInconclusive(oerr.Error())
			return
		}
		oerr2, oTimed := runWithTimeout(ocmd, shardWallLimit)
		olf.Close()
		oneRes := filepath.Join(c.OutDir, fmt.Sprintf("result.%d.%d.json", shard, seq-1))
		reproduced := false
		if _, statErr := os.Stat(oneRes); statErr != nil && !oTimed && oerr2 != nil {
			reproduced = true
		}
		os.Remove(oneRes)
		os.Remove(filepath.Join(c.OutDir, fmt.Sprintf("distinct.%d.%d", shard, seq-1)))
		if reproduced {
			olog := tailFile(filepath.Join(c.OutDir, oneLog), 1<<20)
			clause, site := classifyDeath(olog)
			c.mu.Lock()
			c.Merged.Violations = append(c.Merged.Violations, Violation{
				Property: c.Def.ID, Clause: clause, Key: site,
				What: fmt.Sprintf("worker process died (%v) reproducibly on one case; %s; input: %s", oerr2, firstFatalLine(olog), Trunc(string(desc), 300)),
				Case: mustJSON(map[string]any{"journal_desc_b64": base64.StdEncoding.EncodeToString(desc), "shard": shard, "seq": seq, "tier": c.Tier, "seed": c.Seed}),
			})
			c.mu.Unlock()
		} else {
			c.addInconclusive(fmt.Sprintf("shard %d died at case %d but the death did not reproduce in a fresh process", shard, seq))
		}
		startFrom = seq
		c.mu.Lock()
		c.Restarts++
		c.mu.Unlock()
		if attempt >= 25 {
			c.addInconclusive(fmt.Sprintf("shard %d: too many worker deaths, rest of shard not explored", shard))
			return
		}
	}
}

func mustJSON(v any) json.RawMessage {
	b, _ := json.Marshal(v)
	return b
}

func firstFatalLine(log string) string {
	for _, ln := range strings.Split(log, "\n") {
		if strings.HasPrefix(ln, "fatal error:") || strings.HasPrefix(ln, "panic:") || strings.HasPrefix(ln, "VERIF-HANG") || strings.HasPrefix(ln, "VERIF-MEMORY") || strings.HasPrefix(ln, "runtime: ") {
			return Trunc(ln, 200)
		}
	}
	return ""
}

func classifyDeath(log string) (clause, site string) {
	clause = "process-death"
	if strings.Contains(log, "VERIF-HANG") {
		clause = "hang"
	} else if strings.Contains(log, "VERIF-MEMORY") {
		clause = "memory"
	} else if strings.Contains(log, "stack overflow") {
		clause = "stack-overflow"
	} else if strings.Contains(log, "concurrent map") {
		clause = "concurrent-map"
	}
	// Use the first goroutine dump that contains repository frames.
	site = "?"
	blocks := strings.Split(log, "\n\n")
	for _, b := range blocks {
		if !strings.Contains(b, modPath) {
			continue
		}
		var fnLines []string
		for _, ln := range strings.Split(b, "\n") {
			if strings.HasPrefix(ln, modPath) {
				fnLines = append(fnLines, ln)
			}
		}
		if len(fnLines) > 0 {
			site = SiteOf(strings.Join(fnLines, "\n"))
			if clause == "stack-overflow" {
				// the innermost frame of an overflowing recursion is arbitrary: use the
				// smallest function name among the top frames as a stable key
				if len(fnLines) > 64 {
					fnLines = fnLines[:64]
				}
				site = ""
				for _, ln := range fnLines {
					if f := SiteOf(ln); f != "?" && (site == "" || f < site) {
						site = f
					}
				}
			}
			break
		}
	}
	return
}

func tailFile(path string, n int64) string {
	f, err := os.Open(path)
	if err != nil {
		return ""
	}
	defer f.Close()
	st, _ := f.Stat()
	// For crash logs the head is the informative part (fatal line + first stack).
	if st.Size() > n {
		buf := make([]byte, n)
		f.Read(buf)
		return string(buf)
	}
	b, _ := os.ReadFile(path)
	return string(b)
}

func (c *Coord) addInconclusive(s string) {
	c.mu.Lock()
	c.inconclusive = append(c.inconclusive, s)
	c.mu.Unlock()
}

func (c *Coord) mergeResult(path string, shard int, startFrom int64) bool {
	b, err := os.ReadFile(path)
	if err != nil {
		return false
	}
	var res Result
	if err := json.Unmarshal(b, &res); err != nil || !res.Done {
		return false
	}
	c.mu.Lock()
	defer c.mu.Unlock()
	c.Merged.Evals += res.Evals
	c.Merged.Inconclusive += res.Inconclusive
	c.Merged.MoreViol += res.MoreViol
	for k, v := range res.Counters {
		if strings.HasPrefix(k, "max:") {
			if v > c.Merged.Counters[k] {
				c.Merged.Counters[k] = v
			}
		} else {
			c.Merged.Counters[k] += v
		}
	}
	for _, s := range res.Samples {
		if len(c.Merged.Samples) < 8 {
			c.Merged.Samples = append(c.Merged.Samples, s)
		}
	}
	c.Merged.Notes = append(c.Merged.Notes, res.Notes...)
	c.Merged.Violations = append(c.Merged.Violations, res.Violations...)
	if hb, err := os.ReadFile(filepath.Join(c.OutDir, fmt.Sprintf("distinct.%d.%d", shard, startFrom))); err == nil {
		for i := 0; i+8 <= len(hb); i += 8 {
			c.Distinct[binary.LittleEndian.Uint64(hb[i:])] = struct{}{}
		}
	}
	return true
}

// RunCheck is the coordinator entry point. It returns the process exit code.
func RunCheck(def *CheckDef, tier string, seed uint64, root, repo, exe string) int {
	t0 := time.Now()
	c := &Coord{Def: def, Tier: tier, Seed: seed, Root: root, Repo: repo, Exe: exe,
		Distinct: map[uint64]struct{}{}, Extra: map[string]any{}}
	c.Merged.Counters = map[string]int64{}
	c.OutDir = filepath.Join(root, "out", "run", def.ID+"-"+tier)
	os.RemoveAll(c.OutDir)
	if err := os.MkdirAll(c.OutDir, 0o755); err != nil {
		fmt.Fprintln(os.Stderr, err)
		return 2
	}
	known, err := LoadKnown(root)
	if err != nil {
		fmt.Fprintln(os.Stderr, err)
		return 2
	}

	par := runtime.NumCPU()
	if par > LogicalShards {
		par = LogicalShards
	}
	if v, err := strconv.Atoi(os.Getenv("VERIF_PAR")); err == nil && v > 0 {
		par = v
	}
	shards := LogicalShards
	if def.SingleShard {
		shards = 1
	}
	sem := make(chan struct{}, par)
	var wg sync.WaitGroup
	for s := 0; s < shards; s++ {
		wg.Add(1)
		sem <- struct{}{}
		go func(s int) {
			defer wg.Done()
			defer func() { <-sem }()
			c.runShard(s)
		}(s)
	}
	wg.Wait()
	if def.Finalize != nil {
		def.Finalize(c)
	}

	// ---- fold violations -----------------------------------------------------
	type vkey struct{ clause, key string }
	seen := map[vkey]bool{}
	var uniq []Violation
	for _, v := range c.Merged.Violations {
		k := vkey{v.Clause, v.Key}
		if seen[k] {
			c.Merged.MoreViol++
			continue
		}
		seen[k] = true
		uniq = append(uniq, v)
	}
	sort.Slice(uniq, func(i, j int) bool {
		if uniq[i].Clause != uniq[j].Clause {
			return uniq[i].Clause < uniq[j].Clause
		}
		return uniq[i].Key < uniq[j].Key
	})
	replayDir := filepath.Join(root, "out", "replay")
	os.MkdirAll(replayDir, 0o755)
	nViol, nKnown := 0, 0
	var knownLines, violLines []string
	for _, v := range uniq {
		isKnown := false
		for _, k := range known {
			if k.Status == "finding" && k.Property == v.Property && k.Clause == v.Clause && k.Key == v.Key {
				isKnown = true
				knownLines = append(knownLines, fmt.Sprintf("KNOWN-FINDING: property=%s clause=%s key=%s %s", v.Property, v.Clause, strconv.Quote(Trunc(v.Key, 200)), k.What))
				break
			}
		}
		if isKnown {
			nKnown++
			continue
		}
		nViol++
		rp := filepath.Join(replayDir, fmt.Sprintf("%s-%s.json", v.Property, Hash(v.Clause, v.Key)))
		rb, _ := json.MarshalIndent(map[string]any{"property": v.Property, "clause": v.Clause, "key": v.Key, "what": v.What,
			"tier": tier, "seed": seed, "case": v.Case}, "", " ")
		os.WriteFile(rp, rb, 0o644)
		violLines = append(violLines, fmt.Sprintf("VIOLATION property=%s replay=%s", v.Property, rp))
		if len(violLines) <= 40 {
			fmt.Printf("  clause=%s key=%s\n    %s\n", v.Clause, strconv.Quote(Trunc(v.Key, 300)), v.What)
		}
	}
	if nViol > 0 {
		perClause := map[string]int{}
		for _, v := range uniq {
			perClause[v.Clause]++
		}
		fmt.Printf("  distinct violations per clause (known ones included): %v\n", perClause)
	}
	for _, l := range knownLines {
		fmt.Println(l)
	}
	for _, l := range violLines {
		fmt.Println(l)
	}

	// ---- evidence ------------------------------------------------------------
	minNT := def.MinNontrivialQuick
	if tier == "thorough" {
		minNT = def.MinNontrivialThorough
	}
	if minNT < 2 {
		minNT = 2
	}
	cov := map[string]any{
		"evaluations":         c.Merged.Evals,
		"distinct_nontrivial": len(c.Distinct),
		"rule":                def.Rule,
		"samples":             c.Merged.Samples,
		"counters":            c.Merged.Counters,
		"verdicts": map[string]any{
			"violations_unlisted": nViol, "known_findings_hit": nKnown, "inconclusive_cases": c.Merged.Inconclusive,
			"duplicate_violation_reports_folded": c.Merged.MoreViol,
		},
		"worker_deaths":         c.Deaths,
		"worker_restarts":       c.Restarts,
		"coordinator_anomalies": c.inconclusive,
		"logical_shards":        shards,
		"min_distinct_required": minNT,
	}
	if def.Exhaustive != "" {
		cov["exhaustive"] = true
		cov["exhaustive_part"] = def.Exhaustive
	}
	if len(c.Merged.Notes) > 0 {
		sort.Strings(c.Merged.Notes)
		cov["notes"] = dedupe(c.Merged.Notes)
	}
	for k, v := range c.Extra {
		cov[k] = v
	}
	if len(c.Merged.Samples) == 0 {
		cov["samples"] = []any{"(no sample recorded)"}
	}
	ev := map[string]any{
		"property_id": def.ID, "tier": tier, "seed": seed, "level": "exploration",
		"coverage": cov, "assumptions": def.Assumptions,
		"wall_s":     time.Since(t0).Seconds(),
		"violations": nViol,
	}
	eb, _ := json.MarshalIndent(ev, "", " ")
	evDir := filepath.Join(root, "evidence")
	if repo != "/repo" {
		// a run against a scratch copy (self-test with a seeded change) must not overwrite the evidence of the real tree
		evDir = filepath.Join(root, "out", "evidence-scratch")
	}
	os.MkdirAll(evDir, 0o755)
	if err := os.WriteFile(filepath.Join(evDir, def.ID+".json"), append(eb, '\n'), 0o644); err != nil {
		fmt.Fprintln(os.Stderr, err)
		return 2
	}
	fmt.Printf("%s %s seed=%d: evaluations=%d distinct_nontrivial=%d violations=%d known=%d inconclusive=%d deaths=%d wall=%.1fs\n",
		def.ID, tier, seed, c.Merged.Evals, len(c.Distinct), nViol, nKnown, c.Merged.Inconclusive, c.Deaths, time.Since(t0).Seconds())
	if nViol > 0 {
		return 1
	}
	if len(c.inconclusive) > 0 {
		for _, s := range c.inconclusive {
			fmt.Fprintln(os.Stderr, "INCONCLUSIVE:", s)
		}
		return 2
	}
	if len(c.Distinct) < minNT {
		fmt.Fprintf(os.Stderr, "CHECK-BROKEN: only %d distinct non-trivial cases observed (< %d)\n", len(c.Distinct), minNT)
		return 2
	}
	if def.MaxInconclusiveFrac > 0 && c.Merged.Evals > 0 &&
		float64(c.Merged.Inconclusive)/float64(c.Merged.Evals) > def.MaxInconclusiveFrac {
		fmt.Fprintf(os.Stderr, "CHECK-BROKEN: %d of %d cases inconclusive\n", c.Merged.Inconclusive, c.Merged.Evals)
		return 2
	}
	return 0
}

func dedupe(ss []string) []string {
	var out []string
	for i, s := range ss {
		if i == 0 || ss[i-1] != s {
			out = append(out, s)
		}
	}
	return out
}

// ReadReplay loads a replay file and returns its case payload.
func ReadReplay(path string) (prop string, raw json.RawMessage, err error) {
	b, err := os.ReadFile(path)
	if err != nil {
		return "", nil, err
	}
	var r struct {
		Property string          `json:"property"`
		Clause   string          `json:"clause"`
		Key      string          `json:"key"`
		What     string          `json:"what"`
		Case     json.RawMessage `json:"case"`
	}
	if err := json.Unmarshal(b, &r); err != nil {
		return "", nil, err
	}
	fmt.Printf("replaying %s clause=%s key=%s\n  recorded: %s\n", r.Property, r.Clause, strconv.Quote(Trunc(r.Key, 200)), r.What)
	return r.Property, r.Case, nil
}

var _ = bytes.MinRead
