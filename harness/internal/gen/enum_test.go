package gen

import "testing"

func TestShardedCoversAll(t *testing.T) {
	alpha := []string{"a", "b", "c", "d", "e"}
	for _, split := range []int{0, 1, 2, 3} {
		for _, maxLen := range []int{1, 2, 3, 4} {
			want := map[string]int{}
			Tokens(alpha, maxLen, func(s []byte, n int) bool { want[string(s)]++; return true })
			got := map[string]int{}
			for sh := 0; sh < 16; sh++ {
				TokensShardedAt(alpha, maxLen, split, sh, 16, func(s []byte, n int, dup bool) bool {
					if !dup {
						got[string(s)]++
					}
					return true
				})
			}
			for k := range want {
				if got[k] != 1 {
					t.Fatalf("split=%d maxLen=%d: %q visited %d times", split, maxLen, k, got[k])
				}
			}
			if len(got) != len(want) {
				t.Fatalf("split=%d maxLen=%d: %d vs %d", split, maxLen, len(got), len(want))
			}
		}
	}
}
