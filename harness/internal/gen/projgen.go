package gen

import (
	"encoding/json"
	"fmt"
	"math/rand/v2"
	"strconv"
	"strings"
)

// ---- pools ----------------------------------------------------------------------

var (
	ValidEmails   = []string{"tom@cats.com", "a.b@example.org", "x_y-z@sub.domain.io"}
	InvalidEmails = []string{"tom", "tom@", "@cats.com", "a b@c d", "tom@@cats"}
	ValidURIs     = []string{"http://tom.cats.com", "https://example.org/a/b?c=d", "ftp://host/file.txt"}
	InvalidURIs   = []string{"tom.cats.com", "not a uri", "http//x"}
	ValidUUIDs    = []string{"550e8400-e29b-41d4-a716-446655440000", "00000000-0000-0000-0000-000000000000", "FFFFFFFF-ffff-FFFF-ffff-FFFFFFFFFFFF",
		"urn:uuid:550e8400-e29b-41d4-a716-446655440000", "URN:UUID:550E8400-E29B-41D4-A716-446655440000", "Urn:Uuid:550e8400-e29b-41d4-a716-446655440000", "urn:UUID:550e8400-e29b-41d4-a716-446655440000",
		"{550e8400-e29b-41d4-a716-446655440000}", "550e8400e29b41d4a716446655440000", "550E8400E29B41D4A716446655440000"}
	InvalidUUIDs = []string{"550e8400-e29b-41d4-a716-44665544000", "550e8400-e29b-41d4-a716-44665544000g", "550e8400e29b41d4a716-446655440000x", "abc",
		"urx:uuid:550e8400-e29b-41d4-a716-446655440000", "urn-uuid:550e8400-e29b-41d4-a716-446655440000", "urn:uuid:550e8400-e29b-41d4-a716-44665544000g", "{550e8400-e29b-41d4-a716-446655440000]",
		"(550e8400-e29b-41d4-a716-446655440000)", "550e8400e29b41d4a71644665544000g", "550e8400-e29b-41d4-a716_446655440000"}
	ValidDates   = []string{"2006-01-02", "2024-02-29", "1999-12-31", "2000-02-29", "2400-02-29", "2023-04-30", "1900-02-28"}
	InvalidDates = []string{"2006-13-02", "2023-02-29", "2006-1-2", "06-01-02", "2006/01/02", "2006-01-32", "1900-02-29", "2100-02-29", "2200-02-29", "2023-04-31", "2023-06-31", "2024-02-30", "2023-00-10", "2023-01-00"}
	ValidDTs     = []string{"2021-01-02T07:23:12+03:00", "2006-01-02T15:04:05Z", "1999-12-31T23:59:59-11:00", "2000-02-29T00:00:00Z", "2024-02-29T12:00:00+01:00"}
	InvalidDTs   = []string{"2021-01-02 07:23:12", "2021-01-02T25:23:12+03:00", "2021-13-02T07:23:12Z", "2021-01-02T07:23:12", "yesterday", "1900-02-29T00:00:00Z", "2100-02-29T12:00:00+01:00", "2023-04-31T10:00:00Z", "2023-02-29T10:00:00Z"}
)

var words = []string{"", "a", "ab", "abc", "abcd", "hello", "Tom", "x-1", "A1b2C3", "zzzzzzzz", "0123456789"}

// simple anchored patterns with a few matching and non-matching strings
type patSpec struct {
	Pat   string
	Match []string
	Miss  []string
}

var Patterns = []patSpec{
	{`^[a-z]+$`, []string{"a", "abc"}, []string{"", "A", "a1", "ab c"}},
	{`^[0-9]{3}$`, []string{"123", "000"}, []string{"12", "1234", "abc"}},
	{`^(cat|dog)-[0-9]+$`, []string{"cat-1", "dog-42"}, []string{"cat", "bird-1", "cat-"}},
	{`^A.*z$`, []string{"Az", "Abcz"}, []string{"az", "Ab", ""}},
	{`^x?y+$`, []string{"y", "xyy"}, []string{"x", "xxy", ""}},
	// strings that need escapes when written: the pattern sees the decoded text
	{`^.{3}$`, []string{"a\\b", "a\tb", "\"q\"", "a/b", "é€😀"}, []string{"a\\\\b", "ab", "\\\\", "a\\tb"}},
	{`^[^\\]+\\$`, []string{"dir\\", "a\\"}, []string{"dir", "\\\\", "a\\b"}},
}

func pick[T any](rng *rand.Rand, s []T) T { return s[rng.IntN(len(s))] }

// ---- numbers around a bound -------------------------------------------------------

// decimalStr renders mantissa * 10^-frac as a plain decimal literal.
func decimalStr(m int64, frac int) string {
	neg := m < 0
	if neg {
		m = -m
	}
	s := strconv.FormatInt(m, 10)
	if frac > 0 {
		for len(s) <= frac {
			s = "0" + s
		}
		s = s[:len(s)-frac] + "." + s[len(s)-frac:]
	}
	if neg {
		s = "-" + s
	}
	return s
}

// NearNumber returns a literal near the bound (mantissa, frac): equal,
// one unit in the last place off, with trailing zeros, sign flipped, far away.
// wantInt forces an integer literal.
func NearNumber(rng *rand.Rand, m int64, frac int, wantInt bool) string {
	if wantInt {
		// integer neighbours of the bound's integer part
		ip := m
		for i := 0; i < frac; i++ {
			ip /= 10
		}
		switch rng.IntN(7) {
		case 0:
			return strconv.FormatInt(ip, 10)
		case 1:
			return strconv.FormatInt(ip+1, 10)
		case 2:
			return strconv.FormatInt(ip-1, 10)
		case 3:
			return strconv.FormatInt(-ip, 10)
		case 4:
			if ip == 0 {
				return "-0"
			}
			return strconv.FormatInt(ip, 10)
		case 5:
			return strconv.FormatInt(ip+int64(rng.IntN(2000))-1000, 10)
		default:
			return strconv.FormatInt(ip*1000+7, 10)
		}
	}
	f := frac
	if f == 0 {
		f = 1 + rng.IntN(2)
		for i := 0; i < f; i++ {
			m *= 10
		}
	}
	switch rng.IntN(8) {
	case 0:
		return decimalStr(m, f)
	case 1:
		return decimalStr(m+1, f)
	case 2:
		return decimalStr(m-1, f)
	case 3:
		return decimalStr(m, f) + strings.Repeat("0", 1+rng.IntN(3))
	case 4:
		return decimalStr(m*10+1, f+1)
	case 5:
		return decimalStr(m*10-1, f+1)
	case 6:
		if m == 0 {
			return "-0." + strings.Repeat("0", f)
		}
		return decimalStr(-m, f)
	default:
		return decimalStr(m+int64(rng.IntN(2000))-1000, f)
	}
}

// RandBound draws a bound as (mantissa, fraction digits).
func RandBound(rng *rand.Rand) (int64, int) {
	if rng.IntN(25) == 0 { // magnitudes around the machine-word and float64-mantissa boundaries
		m := pick(rng, []int64{1 << 31, 1 << 32, 1 << 53, 1<<63 - 1, 999999999999999999, 1000000000000000000}) - int64(rng.IntN(3))
		if rng.IntN(2) == 0 {
			m = -m
		}
		return m, 0
	}
	switch rng.IntN(6) {
	case 0:
		return 0, 0
	case 1:
		return int64(rng.IntN(200)) - 100, 0
	case 2:
		return int64(rng.IntN(2000)) - 1000, 1
	case 3:
		return int64(rng.IntN(20000)) - 10000, 2
	case 4:
		return int64(rng.IntN(100)), 0
	default:
		return int64(rng.IntN(2_000_000)) - 1_000_000, 3
	}
}

// ---- project generator --------------------------------------------------------------

// TypeInfo describes a user type available for references.
type TypeInfo struct {
	Name  string
	Kind  Kind // kind of its root value (KRef for aliases/choices)
	Regex bool
}

type Gen struct {
	Rng   *rand.Rand
	Types []TypeInfo
	Enums []EnumInfo
	// Features
	NoRefs      bool // do not reference user types
	ValueFocus  bool // prefer scalars with rules whose values sit on boundaries
	AllowExotic bool // keys / strings with escapes and non-ASCII
	nodes       int
	MaxNodes    int
	keySeq      int
	wideObj     int // when > 0 the next Object() gets this many members (once)
	wideArr     int // when > 0 the next Array() gets this many items (once)
	calm        bool
	baseCalm    bool
	forceKind   *Kind // set while a scalar of one given kind is wanted
}

type EnumInfo struct {
	Name  string
	Items []string // raw literals
}

func (g *Gen) typesOfKind(kinds ...Kind) []TypeInfo {
	var out []TypeInfo
	for _, t := range g.Types {
		for _, k := range kinds {
			if t.Kind == k {
				out = append(out, t)
			}
		}
	}
	return out
}

func (g *Gen) randString() string {
	if g.Rng.IntN(12) == 0 {
		// strings that spell a literal of another kind, a reference, a container
		return pick(g.Rng, []string{"null", "true", "false", "12", "-1.5", "1e5", "{}", "[]", "@t0", "undefined", "NaN"})
	}
	if g.AllowExotic && g.Rng.IntN(4) == 0 {
		return pick(g.Rng, []string{"a\"b", "a\\b", "tab\there", "line\nbreak", "é", "€uro", "😀", "/", "//x", "a#b", "@a", "{", ":", "*/", "/*", " lead", "trail ", "<&>"})
	}
	return pick(g.Rng, words)
}

func (g *Gen) randKey(i int) string {
	g.keySeq++
	if g.AllowExotic && g.Rng.IntN(5) == 0 {
		k := pick(g.Rng, []string{"a\"b", "a\\b", "é", "k y", "#h", "//", "@k", "k:", "", "😀"}) + strconv.Itoa(g.keySeq)
		// blanks at the ends of a name belong to the name (written raw or as escapes)
		switch g.Rng.IntN(8) {
		case 0:
			k = " " + k
		case 1:
			k += " "
		case 2:
			k = "\t" + k + "\n"
		case 3:
			k = "  " + k + "  "
		}
		return k
	}
	return pick(g.Rng, []string{"id", "name", "k", "value", "items", "x", "size", "tag"}) + strconv.Itoa(g.keySeq)
}

// scalarLiteralOfKind makes an arbitrary literal of a scalar kind.
func (g *Gen) scalarLiteral(k Kind) string {
	switch k {
	case KString:
		return Q(g.randString())
	case KInt:
		return strconv.Itoa(g.Rng.IntN(2000) - 1000)
	case KFloat:
		return decimalStr(int64(g.Rng.IntN(200000)-100000), 1+g.Rng.IntN(3))
	case KBool:
		return pick(g.Rng, []string{"true", "false"})
	}
	return "null"
}

func kindOfLiteral(lit string) Kind {
	switch {
	case strings.HasPrefix(lit, `"`):
		return KString
	case lit == "true" || lit == "false":
		return KBool
	case lit == "null":
		return KNull
	case strings.ContainsAny(lit, ".eE"):
		return KFloat
	}
	return KInt
}

// KindOfLiteral classifies a raw JSON scalar literal.
func KindOfLiteral(lit string) Kind { return kindOfLiteral(lit) }

// extras adds rules that may accompany most shapes.
func (g *Gen) extras(n *Node, inObject bool, allowConst bool) {
	if g.Rng.IntN(6) == 0 {
		n.R("nullable", pick(g.Rng, []string{"true", "false"}))
	}
	if allowConst && g.Rng.IntN(8) == 0 {
		n.R("const", pick(g.Rng, []string{"true", "false"}))
	}
	if inObject && g.Rng.IntN(5) == 0 {
		n.R("optional", pick(g.Rng, []string{"true", "false"}))
	}
	// shuffle rule order
	g.Rng.Shuffle(len(n.Rules), func(i, j int) { n.Rules[i], n.Rules[j] = n.Rules[j], n.Rules[i] })
	// exclusiveMinimum/Maximum may stand anywhere; nothing else is order dependent
}

func (g *Gen) note(n *Node) {
	if g.Rng.IntN(4) == 0 {
		n.Note = pick(g.Rng, []string{"the id", "Name of the product.", "a note, with: punctuation; and (brackets)", "x", "note \"quoted\"", "unicode é note", "{not rules}", "dash - inside",
			"poza liczbą", "déjà", "ух", "Р", "ok 😅", "日本", "a // b", "\"deprecated\"", "\"C:\\temp\"", "'single'", "`code`", "[brackets]", "(parens)", "<tag>", "50% /* off", "tab\there", "trailing dot.", "see *", "*starred*", "**", "a * b", "-5 is the lowest value", "- dash first", "--"})
		if strings.HasPrefix(n.Note, "{") && (n.HasRules || len(n.Rules) > 0) == false {
			n.Note = "n " + n.Note // a note-only annotation must not begin like a rule object
		}
	}
}

// altForValue builds `or` alternatives; want decides whether at least one must
// fit the value's kind.
func (g *Gen) orAlternatives(valKind Kind) RV {
	n := 2 + g.Rng.IntN(2)
	items := make([]RV, 0, n)
	builtin := []string{"string", "integer", "float", "boolean", "null", "email", "date"}
	for i := 0; i < n; i++ {
		switch g.Rng.IntN(6) {
		case 5:
			// rule-set with a format type, often nullable
			rs := []Rule{{"type", LitV(Q(pick(g.Rng, []string{"email", "uri", "uuid", "date", "datetime"})))}}
			if g.Rng.IntN(2) == 0 {
				rs = append(rs, Rule{"nullable", LitV(pick(g.Rng, []string{"true", "true", "false"}))})
				if g.Rng.IntN(2) == 0 {
					rs[0], rs[1] = rs[1], rs[0]
				}
			}
			items = append(items, SetOf(rs...))
		case 4:
			// rule-set with an enum list (its rule name is looked at by a loader of its own)
			var list []RV
			for _, it := range g.enumItemsAround(g.scalarLiteral(pick(g.Rng, []Kind{KString, KInt, KBool}))) {
				list = append(list, LitV(it))
			}
			rs := []Rule{{"type", LitV(`"enum"`)}, {"enum", ListOf(list...)}}
			if g.Rng.IntN(2) == 0 {
				rs[0], rs[1] = rs[1], rs[0]
			}
			items = append(items, SetOf(rs...))
		case 0:
			items = append(items, LitV(Q(pick(g.Rng, builtin))))
		case 1:
			if ts := g.typesOfKind(KString, KInt, KFloat, KBool, KObject, KArray); len(ts) > 0 && !g.NoRefs {
				name := Q(pick(g.Rng, ts).Name)
				switch g.Rng.IntN(4) {
				case 0: // the rule-set spelling of a type reference
					items = append(items, SetOf(Rule{"type", LitV(name)}))
				case 1:
					rs := []Rule{{"type", LitV(name)}, {"nullable", LitV("true")}}
					g.Rng.Shuffle(2, func(i, j int) { rs[i], rs[j] = rs[j], rs[i] })
					items = append(items, SetOf(rs...))
				default:
					items = append(items, LitV(name))
				}
				continue
			}
			items = append(items, LitV(Q(pick(g.Rng, builtin))))
		case 2:
			// rule-set for a number
			m, f := RandBound(g.Rng)
			rs := []Rule{{"type", LitV(Q(pick(g.Rng, []string{"integer", "float"})))}, {pick(g.Rng, []string{"min", "max"}), LitV(decimalStr(m, f))}}
			if g.Rng.IntN(3) == 0 {
				rs = append(rs, Rule{"nullable", LitV("true")})
			}
			if g.Rng.IntN(4) == 0 {
				// an alternative has no example of its own: its constant is the annotated value
				rs = append(rs, Rule{"const", LitV(pick(g.Rng, []string{"true", "true", "false"}))})
			}
			g.Rng.Shuffle(len(rs), func(i, j int) { rs[i], rs[j] = rs[j], rs[i] }) // `type` need not be written first
			items = append(items, SetOf(rs...))
		default:
			rs := []Rule{{"type", LitV(`"string"`)}, {pick(g.Rng, []string{"minLength", "maxLength"}), LitV(strconv.Itoa(g.Rng.IntN(6)))}}
			if g.Rng.IntN(4) == 0 {
				rs = append(rs, Rule{"const", LitV(pick(g.Rng, []string{"true", "true", "false"}))})
			}
			g.Rng.Shuffle(len(rs), func(i, j int) { rs[i], rs[j] = rs[j], rs[i] })
			items = append(items, SetOf(rs...))
		}
	}
	// alternatives must be pairwise distinct (a repeated type name is refused as recursion)
	seen := map[string]bool{}
	var uniq []RV
	for _, it := range items {
		k := it.Lit
		if it.IsSet {
			k = fmt.Sprint(it.Set)
		}
		if !seen[k] {
			seen[k] = true
			uniq = append(uniq, it)
		}
	}
	for len(uniq) < 2 {
		for _, b := range builtin {
			if !seen[Q(b)] {
				seen[Q(b)] = true
				uniq = append(uniq, LitV(Q(b)))
				break
			}
		}
	}
	return ListOf(uniq...)
}

// Scalar makes a scalar leaf with a rule shape.
func (g *Gen) Scalar(inObject bool) *Node {
	g.nodes++
	rng := g.Rng
	kind := pick(rng, []Kind{KString, KString, KInt, KInt, KFloat, KFloat, KBool, KNull})
	if g.forceKind != nil {
		kind = *g.forceKind
	}
	n := &Node{Kind: kind}
	shape := rng.IntN(12)
	if !g.ValueFocus && rng.IntN(3) == 0 {
		shape = 99 // no rules at all
	}
	if g.calm && rng.IntN(8) != 0 {
		shape = 99 // the many members of a wide container are mostly plain, so that the whole is usually accepted
	}
	switch kind {
	case KString:
		switch {
		case shape <= 3: // length / regex rules
			limit := rng.IntN(8)
			// a string whose length is near the limit
			ln := limit + rng.IntN(3) - 1
			if ln < 0 {
				ln = 0
			}
			unit := "a"
			if rng.IntN(4) == 0 {
				unit = pick(rng, []string{"é", "€", "😀", "я", "e\u0301", "\u200d", "𝒳"})
			}
			n.Lit = Q(strings.Repeat(unit, ln))
			if rng.IntN(2) == 0 {
				n.R("minLength", strconv.Itoa(limit))
				if rng.IntN(3) == 0 {
					n.R("maxLength", strconv.Itoa(limit+rng.IntN(4)))
				}
			} else {
				n.R("maxLength", strconv.Itoa(limit))
			}
			if rng.IntN(4) == 0 {
				n.R("type", `"string"`)
			}
			g.extras(n, inObject, true)
		case shape == 4: // regex
			ps := pick(rng, Patterns)
			if rng.IntN(2) == 0 {
				n.Lit = Q(pick(rng, ps.Match))
			} else {
				n.Lit = Q(pick(rng, ps.Miss))
			}
			n.R("regex", Q(ps.Pat))
			g.extras(n, inObject, true)
		case shape == 5: // formats
			f := pick(rng, []string{"email", "uri", "uuid", "date", "datetime"})
			valid, invalid := map[string][]string{"email": ValidEmails, "uri": ValidURIs, "uuid": ValidUUIDs, "date": ValidDates, "datetime": ValidDTs}[f],
				map[string][]string{"email": InvalidEmails, "uri": InvalidURIs, "uuid": InvalidUUIDs, "date": InvalidDates, "datetime": InvalidDTs}[f]
			if rng.IntN(3) != 0 {
				n.Lit = Q(pick(rng, valid))
			} else {
				n.Lit = Q(pick(rng, invalid))
			}
			n.R("type", Q(f))
			g.extras(n, inObject, true)
		default:
			n.Lit = Q(g.randString())
			g.commonShape(n, shape, inObject)
		}
	case KInt, KFloat:
		switch {
		case shape <= 5:
			m, f := RandBound(rng)
			n.Lit = NearNumber(rng, m, f, kind == KInt)
			n.Kind = kindOfLiteral(n.Lit)
			b := decimalStr(m, f)
			switch rng.IntN(4) {
			case 0:
				n.R("min", b)
			case 1:
				n.R("max", b)
			case 2:
				n.R("min", b)
				n.R("exclusiveMinimum", pick(rng, []string{"true", "false"}))
			default:
				n.R("max", b)
				n.R("exclusiveMaximum", pick(rng, []string{"true", "false"}))
			}
			if rng.IntN(5) == 0 { // both bounds with both exclusivity flags, the value on one of the bounds
				n.Rules = nil
				lo, hi := decimalStr(m-int64(1+rng.IntN(3))*pow10(f), f), b
				if rng.IntN(2) == 0 {
					lo, hi = b, decimalStr(m+int64(1+rng.IntN(3))*pow10(f), f)
				}
				n.R("min", lo)
				n.R("exclusiveMinimum", pick(rng, []string{"true", "false"}))
				n.R("max", hi)
				n.R("exclusiveMaximum", pick(rng, []string{"true", "false"}))
			}
			if rng.IntN(4) == 0 { // a second, loose bound on the other side
				if _, ok := n.Rule("min"); ok {
					n.R("max", decimalStr(m+int64(5000+rng.IntN(5000))*pow10(f), f))
				} else {
					n.R("min", decimalStr(m-int64(5000+rng.IntN(5000))*pow10(f), f))
				}
			}
			if n.Kind == KFloat && rng.IntN(3) == 0 {
				fd := fractionDigits(n.Lit)
				p := fd + rng.IntN(3) - 1
				if p < 1 {
					p = 1
				}
				n.R("precision", strconv.Itoa(p))
				if rng.IntN(2) == 0 {
					n.R("type", `"decimal"`)
				}
			} else if rng.IntN(5) == 0 {
				n.R("type", Q(n.Kind.String()))
			}
			g.extras(n, inObject, true)
		default:
			n.Lit = g.scalarLiteral(kind)
			g.commonShape(n, shape, inObject)
		}
	default:
		n.Lit = g.scalarLiteral(kind)
		if shape <= 5 {
			shape = 6 + rng.IntN(6)
		}
		g.commonShape(n, shape, inObject)
	}
	g.note(n)
	return n
}

func pow10(n int) int64 {
	r := int64(1)
	for i := 0; i < n; i++ {
		r *= 10
	}
	return r
}

func fractionDigits(lit string) int {
	i := strings.IndexByte(lit, '.')
	if i < 0 {
		return 0
	}
	return len(lit) - i - 1
}

// commonShape applies the rule shapes that exist for every scalar kind.
func (g *Gen) commonShape(n *Node, shape int, inObject bool) {
	rng := g.Rng
	switch shape {
	case 6: // inline enum around the value
		items := g.enumItemsAround(n.Lit)
		var rv []RV
		for _, it := range items {
			rv = append(rv, LitV(it))
		}
		n.RVal("enum", ListOf(rv...))
		if rng.IntN(4) == 0 {
			n.R("type", `"enum"`)
		}
		g.extras(n, inObject, true)
	case 7: // named enum
		if len(g.Enums) == 0 {
			g.extras(n, inObject, true)
			return
		}
		e := pick(rng, g.Enums)
		if rng.IntN(2) == 0 {
			n.Lit = pick(rng, e.Items)
			n.Kind = kindOfLiteral(n.Lit)
		}
		n.RVal("enum", RV{Bare: e.Name})
		g.extras(n, inObject, true)
	case 8: // type reference
		ts := g.Types
		if len(ts) == 0 || g.NoRefs {
			n.R("type", Q(n.Kind.String()))
			g.extras(n, inObject, true)
			return
		}
		t := pick(rng, ts)
		if same := g.typesOfKind(n.Kind); len(same) > 0 && rng.IntN(3) != 0 {
			t = pick(rng, same)
		}
		n.R("type", Q(t.Name))
		g.extras(n, inObject, false)
	case 9: // or
		n.RVal("or", g.orAlternatives(n.Kind))
		if rng.IntN(5) == 0 {
			n.R("type", `"mixed"`)
		}
		g.extras(n, inObject, false)
	case 10: // any
		n.R("type", `"any"`)
		g.extras(n, inObject, false)
	case 11: // own JSON kind
		n.R("type", Q(n.Kind.String()))
		g.extras(n, inObject, true)
	default:
		// no rules
	}
}

// enumItemsAround returns 2-4 distinct items, containing the literal or near misses of it.
func (g *Gen) enumItemsAround(lit string) []string {
	rng := g.Rng
	k := kindOfLiteral(lit)
	cands := []string{lit}
	switch k {
	case KString:
		var s string
		json.Unmarshal([]byte(lit), &s)
		cands = append(cands, Q(s+"x"), Q("other"), strconv.Itoa(rng.IntN(9)), "null")
		if rng.IntN(3) == 0 { // strings that are different texts but equal when read as numbers
			cands = append([]string{lit}, pick(rng, [][]string{{`"1.1"`, `"1.10"`, `"2.0"`}, {`"7"`, `"007"`}, {`"1000"`, `"1e3"`}, {`"0"`, `"-0"`, `"0.0"`}})...)
		}
		if _, err := strconv.Atoi(s); err == nil && s != "" {
			cands = append(cands, s)
		}
	case KInt:
		cands = append(cands, Q(lit), lit+"0", "true", Q("a"))
	case KFloat:
		cands = append(cands, Q(lit), "1", "false")
	case KBool:
		cands = append(cands, Q(lit), "1", "null")
	default:
		cands = append(cands, Q("null"), "0", "false")
	}
	include := rng.IntN(3) != 0
	var out []string
	seen := map[string]bool{}
	if include {
		out = append(out, lit)
		seen[lit] = true
	} else {
		seen[lit] = true
	}
	for _, c := range cands[1:] {
		if !seen[c] && len(out) < 4 {
			out = append(out, c)
			seen[c] = true
		}
	}
	rng.Shuffle(len(out), func(i, j int) { out[i], out[j] = out[j], out[i] })
	if len(out) == 0 {
		out = []string{`"z"`, "1"}
	}
	return out
}

// Value makes a value of any kind (containers recurse).
func (g *Gen) Value(depth int, inObject bool) *Node {
	rng := g.Rng
	if depth <= 0 || g.nodes >= g.MaxNodes {
		return g.Scalar(inObject)
	}
	switch r := rng.IntN(10); {
	case r < 2:
		return g.Object(depth, inObject)
	case r < 4:
		return g.Array(depth, inObject)
	case r == 4 && !g.NoRefs && len(g.Types) > 0:
		g.nodes++
		n := Ref(pick(rng, g.Types).Name)
		if rng.IntN(3) == 0 && len(g.Types) > 1 {
			a, b := rng.IntN(len(g.Types)), rng.IntN(len(g.Types))
			if a != b {
				n = Ref(g.Types[a].Name, g.Types[b].Name)
				if rng.IntN(8) == 0 { // a repeated name: refused today (1303); if it is ever accepted the AST must still show three
					n = Ref(g.Types[a].Name, g.Types[b].Name, g.Types[a].Name)
				}
			}
		}
		if len(n.Refs) >= 2 && rng.IntN(6) == 0 {
			n.R("type", `"mixed"`) // says what a choice is anyway
		}
		if inObject && rng.IntN(4) == 0 {
			n.R("optional", "true")
		}
		if rng.IntN(5) == 0 {
			n.R("nullable", "true")
		}
		g.note(n)
		return n
	}
	return g.Scalar(inObject)
}

func (g *Gen) Object(depth int, inObject bool) *Node {
	rng := g.Rng
	g.nodes++
	n := Obj()
	cnt := rng.IntN(5)
	wide := g.wideObj > 0
	if wide {
		cnt, g.wideObj = g.wideObj, 0
	}
	usedKeys := map[string]bool{}
	for i := 0; i < cnt; i++ {
		var c *Node
		if wide && i%8 != 3 {
			g.calm = true
			c = g.Scalar(true)
			g.calm = g.baseCalm
		} else {
			c = g.Value(depth-1, true)
		}
		key := g.randKey(i)
		if usedKeys[key] {
			key += "_"
		}
		usedKeys[key] = true
		c.K(key)
		n.Children = append(n.Children, c)
	}
	// a key shortcut member: the key type must be a string type
	shortcuts := 0
	if !g.NoRefs && rng.IntN(6) == 0 {
		if ts := g.typesOfKind(KString); len(ts) > 0 {
			// one key shortcut, or several (of different key types); later ones
			// often hold a value of the same kind as the first, with rules of their own
			want := 1
			if rng.IntN(2) == 0 {
				want = 2 + rng.IntN(2)
			}
			var first *Kind
			for _, ti := range rng.Perm(len(ts)) {
				if shortcuts == want {
					break
				}
				if first != nil && rng.IntN(2) == 0 {
					g.forceKind = first
				}
				c := g.Scalar(false)
				g.forceKind = nil
				if first == nil {
					k := c.Kind
					first = &k
				}
				c.KRefKey(ts[ti].Name)
				// anywhere among the members, not only last
				at := rng.IntN(len(n.Children) + 1)
				n.Children = append(n.Children, nil)
				copy(n.Children[at+1:], n.Children[at:])
				n.Children[at] = c
				shortcuts++
			}
		}
	}
	if len(n.Children) == 0 && rng.IntN(6) == 0 {
		// an empty container as the example of a choice of types
		n.RVal("or", g.orForContainer("object"))
		g.note(n)
		return n
	}
	ap := rng.IntN(8)
	if shortcuts > 0 && rng.IntN(2) == 0 {
		ap = 0 // the additional-properties rule next to key shortcuts
	}
	switch ap {
	case 0:
		v := pick(rng, []string{"true", "false", `"string"`, `"integer"`, `"any"`, `"null"`, `"float"`, `"boolean"`, `"array"`, `"object"`,
			`"decimal"`, `"enum"`, `"mixed"`, `"email"`, `"uri"`, `"uuid"`, `"date"`, `"datetime"`})
		if ts := g.Types; len(ts) > 0 && !g.NoRefs && rng.IntN(3) == 0 {
			v = Q(pick(rng, ts).Name)
		}
		n.R("additionalProperties", v)
	case 1:
		n.R("type", `"object"`)
	case 2:
		if os := g.typesOfKind(KObject); len(os) > 0 && !g.NoRefs {
			n.RVal("allOf", LitV(Q(pick(rng, os).Name)))
		}
	}
	if rng.IntN(6) == 0 {
		n.R("nullable", "true")
	}
	if inObject && rng.IntN(6) == 0 {
		n.R("optional", pick(rng, []string{"true", "false"}))
	}
	g.note(n)
	return n
}

// orForContainer makes an `or` list that an (empty) object or array satisfies: "any" or the container's own type,
// as plain names and as rule-sets, next to alternatives it does not fit.
func (g *Gen) orForContainer(kind string) RV {
	fits := []RV{LitV(`"any"`), LitV(Q(kind)), SetOf(Rule{"type", LitV(Q(kind))}), SetOf(Rule{"type", LitV(`"any"`)})}
	other := []RV{LitV(`"string"`), LitV(`"integer"`), SetOf(Rule{"type", LitV(`"integer"`)}, Rule{"min", LitV("0")}), LitV(`"null"`), LitV(`"boolean"`)}
	items := []RV{pick(g.Rng, fits), pick(g.Rng, other)}
	if g.Rng.IntN(3) == 0 {
		items = append(items, LitV(`"float"`))
	}
	g.Rng.Shuffle(len(items), func(i, j int) { items[i], items[j] = items[j], items[i] })
	return ListOf(items...)
}

func (g *Gen) Array(depth int, inObject bool) *Node {
	rng := g.Rng
	g.nodes++
	n := Arr()
	cnt := rng.IntN(4)
	wide := g.wideArr > 0
	if wide {
		cnt, g.wideArr = g.wideArr, 0
	}
	for i := 0; i < cnt; i++ {
		if wide && i%8 != 3 {
			g.calm = true
			n.Children = append(n.Children, g.Scalar(false))
			g.calm = g.baseCalm
		} else {
			n.Children = append(n.Children, g.Value(depth-1, false))
		}
	}
	if cnt == 0 && rng.IntN(6) == 0 {
		n.RVal("or", g.orForContainer("array"))
		g.note(n)
		return n
	}
	if cnt > 0 || rng.IntN(2) == 0 {
		switch rng.IntN(6) {
		case 0:
			lim := cnt + rng.IntN(3) - 1
			if lim < 0 || cnt == 0 {
				lim = 0
			}
			n.R("minItems", strconv.Itoa(lim))
		case 1:
			lim := cnt + rng.IntN(3) - 1
			if lim < 0 || cnt == 0 {
				lim = 0
			}
			n.R("maxItems", strconv.Itoa(lim))
		case 2:
			n.R("type", `"array"`)
		}
	}
	if inObject && rng.IntN(6) == 0 {
		n.R("optional", pick(rng, []string{"true", "false"}))
	}
	g.note(n)
	return n
}

// Project generates a whole project: user types first, then enums, then the root.
func GenProject(rng *rand.Rand, valueFocus, exotic bool) *Project {
	p := &Project{}
	g := &Gen{Rng: rng, ValueFocus: valueFocus, AllowExotic: exotic, MaxNodes: 14}
	// one project in twelve is "big" in one dimension: sizes around the usual thresholds (8, 16, 32, 64, 128, 256
	// members / items / enum entries / types / characters) or a deep chain of containers
	big := -1
	if rng.IntN(12) == 0 {
		big = rng.IntN(6)
	}
	bigSize := pick(rng, []int{9, 15, 16, 17, 31, 33, 63, 65, 127, 129, 255, 257})
	bigCalm := big >= 0 && rng.IntN(4) != 0 // most big projects keep their scalars plain, so that they are usually accepted
	g.calm, g.baseCalm = bigCalm, bigCalm
	// how the names of this project are spelled (every legal character class: hyphens, underscores, capitals, leading digits)
	style := 0
	if rng.IntN(3) == 0 {
		style = 1 + rng.IntN(NameStyles-1)
	}
	// enums
	for i, n := 0, rng.IntN(3); i < n; i++ {
		name := StyledName(style, "e", i)
		cnt := 1 + rng.IntN(4)
		if big == 4 && i == 0 {
			cnt = bigSize
		}
		seen := map[string]bool{}
		var items []string
		for len(items) < cnt {
			it := g.scalarLiteral(pick(rng, []Kind{KString, KInt, KFloat, KBool, KNull}))
			if !seen[it] {
				seen[it] = true
				items = append(items, it)
			}
		}
		g.Enums = append(g.Enums, EnumInfo{name, items})
		p.Enums = append(p.Enums, NamedText{name, "[" + strings.Join(items, ", ") + "]"})
	}
	// user types: scalars with rules, objects, arrays, aliases, regexes
	nt := rng.IntN(5)
	if big == 3 {
		nt = pick(rng, []int{9, 10, 11, 17, 33})
	}
	for i := 0; i < nt; i++ {
		name := StyledName(style, "t", i)
		g.nodes = 0
		var node *Node
		switch r := rng.IntN(10); {
		case r < 5:
			node = g.Scalar(false)
		case r < 7:
			node = g.Object(1, false)
		case r == 7:
			node = g.Array(1, false)
		case r == 8 && len(g.Types) > 0:
			node = Ref(pick(rng, g.Types).Name)
			if rng.IntN(2) == 0 && len(g.Types) > 1 {
				node = Ref(g.Types[0].Name, g.Types[len(g.Types)-1].Name)
			}
		default:
			ps := pick(rng, Patterns)
			p.Regexes = append(p.Regexes, NamedText{name, "/" + ps.Pat + "/"})
			g.Types = append(g.Types, TypeInfo{Name: name, Kind: KString, Regex: true})
			continue
		}
		// a type's root is not an object member: drop "optional"
		dropRule(node, "optional")
		p.Types = append(p.Types, NamedNode{name, node})
		g.Types = append(g.Types, TypeInfo{Name: name, Kind: node.Kind})
	}
	g.nodes = 0
	switch big {
	case 0:
		g.wideObj = bigSize
		p.Root = g.Object(1, false)
	case 1:
		g.wideArr = bigSize
		p.Root = g.Array(1, false)
	case 2: // a chain of containers 4..9 deep around an ordinary value
		g.MaxNodes = 30
		inner := g.Value(2, false)
		for d := 4 + rng.IntN(6); d > 0; d-- {
			if rng.IntN(2) == 0 {
				dropRule(inner, "optional")
				inner = Arr(inner)
			} else {
				inner = Obj(inner.K(g.randKey(0)), g.Scalar(true).K(g.randKey(1)))
			}
		}
		p.Root = inner
	case 5: // a long string around the usual buffer sizes, with a length rule next to its length
		unit := pick(rng, []string{"a", "ab", "é", "€", "😀", "x y"})
		cnt := bigSize * pick(rng, []int{1, 2, 4, 16})
		n := Str(strings.Repeat(unit, cnt))
		chars := cnt * len([]rune(unit))
		switch rng.IntN(4) {
		case 0:
			n.R("maxLength", strconv.Itoa(chars+rng.IntN(2)))
		case 1:
			n.R("minLength", strconv.Itoa(chars-rng.IntN(2)))
		case 2:
			n.R("minLength", strconv.Itoa(chars)).R("maxLength", strconv.Itoa(chars))
		}
		p.Root = n
	default:
		p.Root = g.Value(2+rng.IntN(2), false)
	}
	dropRule(p.Root, "optional")
	return p
}

func dropRule(n *Node, name string) {
	out := n.Rules[:0]
	for _, r := range n.Rules {
		if r.Name != name {
			out = append(out, r)
		}
	}
	n.Rules = out
	if len(n.Rules) == 0 {
		n.HasRules = false
	}
}

// NameStyles is the number of spellings StyledName knows.
const NameStyles = 6

// StyledName spells the i-th name of a family ("t" types, "e" enum rules) in one
// of the legal ways: @t0, @pet-t0, @T_0, @0t, @t0-x, @-t_0-.
func StyledName(style int, family string, i int) string {
	n := strconv.Itoa(i)
	switch style % NameStyles {
	case 1:
		return "@pet-" + family + n
	case 2:
		return "@" + strings.ToUpper(family) + "_" + n
	case 3:
		return "@" + n + family
	case 4:
		return "@" + family + n + "-x"
	case 5:
		return "@-" + family + "_" + n + "-"
	}
	return "@" + family + n
}
