package gen

import (
	"go/ast"
	"go/parser"
	"go/token"
	"io/fs"
	"path/filepath"
	"sort"
	"strconv"
	"strings"
)

// Corpus harvests every string literal (<= 4000 bytes, non-empty) from the
// repository's *_test.go files. The result is sorted and free of duplicates.
func Corpus(repo string) []string {
	seen := map[string]struct{}{}
	filepath.WalkDir(repo, func(path string, d fs.DirEntry, err error) error {
		if err != nil {
			return nil
		}
		if d.IsDir() {
			if n := d.Name(); n == ".git" || n == "vendor" || n == "testdata" {
				return filepath.SkipDir
			}
			return nil
		}
		if !strings.HasSuffix(path, "_test.go") {
			return nil
		}
		f, err := parser.ParseFile(token.NewFileSet(), path, nil, parser.SkipObjectResolution)
		if err != nil {
			return nil
		}
		ast.Inspect(f, func(n ast.Node) bool {
			if bl, ok := n.(*ast.BasicLit); ok && bl.Kind == token.STRING {
				if s, err := strconv.Unquote(bl.Value); err == nil && len(s) > 0 && len(s) <= 4000 {
					seen[s] = struct{}{}
				}
			}
			return true
		})
		return nil
	})
	out := make([]string, 0, len(seen))
	for s := range seen {
		out = append(out, s)
	}
	sort.Strings(out)
	return out
}

// SplitTokens cuts a schema-like text into coarse tokens: quoted strings,
// words/numbers, runs of blanks, comment openers, single punctuation bytes.
func SplitTokens(s string) []string {
	var out []string
	i := 0
	for i < len(s) {
		c := s[i]
		j := i + 1
		switch {
		case c == '"':
			for j < len(s) && s[j] != '"' {
				if s[j] == '\\' && j+1 < len(s) {
					j++
				}
				j++
			}
			if j < len(s) {
				j++
			}
		case isWord(c):
			for j < len(s) && isWord(s[j]) {
				j++
			}
		case c == ' ' || c == '\t' || c == '\n' || c == '\r':
			for j < len(s) && (s[j] == ' ' || s[j] == '\t' || s[j] == '\n' || s[j] == '\r') {
				j++
			}
		case c == '/' && j < len(s) && (s[j] == '/' || s[j] == '*'):
			j++
		case c == '*' && j < len(s) && s[j] == '/':
			j++
		case c == '#':
			for j < len(s) && s[j] == '#' {
				j++
			}
		}
		out = append(out, s[i:j])
		i = j
	}
	return out
}

func isWord(c byte) bool {
	return c >= 'a' && c <= 'z' || c >= 'A' && c <= 'Z' || c >= '0' && c <= '9' || c == '_' || c == '@' || c == '-' || c == '.' || c >= 0x80
}
