package gen

import (
	"encoding/json"
	"math/rand/v2"
	"strings"
)

// ---- schema project model -----------------------------------------------------

type Kind int

const (
	KObject Kind = iota
	KArray
	KString
	KInt
	KFloat
	KBool
	KNull
	KRef // a type shortcut used as value: @a  or  @a | @b
)

func (k Kind) String() string {
	return [...]string{"object", "array", "string", "integer", "float", "boolean", "null", "reference"}[k]
}

// TokenType is the AST token type the library reports for this kind.
func (k Kind) TokenType() string {
	switch k {
	case KInt, KFloat:
		return "number"
	}
	return k.String()
}

// RV is a rule value.
type RV struct {
	Lit    string `json:"lit,omitempty"`  // raw JSON literal: "abc" (with quotes), 12, true, null, or a quoted type name "@a"
	Bare   string `json:"bare,omitempty"` // bare enum rule reference: @name
	List   []RV   `json:"list,omitempty"` // array value (or, enum, allOf); IsList tells an empty list from none
	Set    []Rule `json:"set,omitempty"`  // a rule-set object inside `or`
	IsList bool   `json:"is_list,omitempty"`
	IsSet  bool   `json:"is_set,omitempty"`
}

type Rule struct {
	Name string `json:"name"`
	Val  RV     `json:"val"`
}

// Node is one element of the example.
type Node struct {
	Kind     Kind     `json:"kind"`
	Key      string   `json:"key,omitempty"`     // decoded key (object members)
	KeyLit   string   `json:"key_lit,omitempty"` // the key as written, with quotes; or the shortcut text @a
	KeyIsRef bool     `json:"key_is_ref,omitempty"`
	Lit      string   `json:"lit,omitempty"`  // raw scalar literal
	Refs     []string `json:"refs,omitempty"` // KRef: the type names
	Rules    []Rule   `json:"rules,omitempty"`
	HasRules bool     `json:"has_rules,omitempty"` // an annotation with a rule object is written even when Rules is empty
	Note     string   `json:"note,omitempty"`
	Children []*Node  `json:"children,omitempty"`
}

type NamedNode struct {
	Name string `json:"name"`
	Node *Node  `json:"node"`
}

type NamedText struct {
	Name string `json:"name"`
	Text string `json:"text"`
}

// Project is a root schema plus user types, regex types and enum rules.
type Project struct {
	Root    *Node       `json:"root"`
	Types   []NamedNode `json:"types,omitempty"`
	Regexes []NamedText `json:"regexes,omitempty"` // /pattern/ texts
	Enums   []NamedText `json:"enums,omitempty"`   // [ ... ] texts
}

// Rule returns the first rule with that name.
func (n *Node) Rule(name string) (RV, bool) {
	for _, r := range n.Rules {
		if r.Name == name {
			return r.Val, true
		}
	}
	return RV{}, false
}

// Walk visits the node and its descendants in source order.
func (n *Node) Walk(f func(*Node)) {
	f(n)
	for _, c := range n.Children {
		c.Walk(f)
	}
}

// HasAnnotations tells whether any node in the subtree carries rules or a note.
func (n *Node) HasAnnotations() bool {
	found := false
	n.Walk(func(m *Node) {
		if m.HasRules || len(m.Rules) > 0 || m.Note != "" {
			found = true
		}
	})
	return found
}

// Lit helpers ---------------------------------------------------------------

// Q returns the canonical JSON string literal of s (no HTML escaping).
func Q(s string) string {
	var sb strings.Builder
	enc := json.NewEncoder(&sb)
	enc.SetEscapeHTML(false)
	enc.Encode(s)
	return strings.TrimSuffix(sb.String(), "\n")
}

func Str(s string) *Node   { return &Node{Kind: KString, Lit: Q(s)} }
func Int(s string) *Node   { return &Node{Kind: KInt, Lit: s} }
func Float(s string) *Node { return &Node{Kind: KFloat, Lit: s} }
func Bool(b bool) *Node {
	if b {
		return &Node{Kind: KBool, Lit: "true"}
	}
	return &Node{Kind: KBool, Lit: "false"}
}
func Null() *Node               { return &Node{Kind: KNull, Lit: "null"} }
func Ref(names ...string) *Node { return &Node{Kind: KRef, Refs: names} }
func Obj(members ...*Node) *Node {
	return &Node{Kind: KObject, Children: members}
}
func Arr(items ...*Node) *Node { return &Node{Kind: KArray, Children: items} }

// K sets the key of a member.
func (n *Node) K(key string) *Node {
	n.Key, n.KeyLit, n.KeyIsRef = key, Q(key), false
	return n
}

// KRefKey makes the member's key a type shortcut.
func (n *Node) KRefKey(typ string) *Node {
	n.Key, n.KeyLit, n.KeyIsRef = typ, typ, true
	return n
}

// R appends a rule with a literal value.
func (n *Node) R(name, lit string) *Node {
	if n.hasRule(name) { // a rule is written once (a second one is refused as a duplicate whatever it says)
		return n
	}
	n.Rules = append(n.Rules, Rule{name, RV{Lit: lit}})
	n.HasRules = true
	return n
}

func (n *Node) hasRule(name string) bool {
	for _, r := range n.Rules {
		if r.Name == name {
			return true
		}
	}
	return false
}

// RVal appends a rule with an arbitrary value.
func (n *Node) RVal(name string, v RV) *Node {
	if n.hasRule(name) {
		return n
	}
	n.Rules = append(n.Rules, Rule{name, v})
	n.HasRules = true
	return n
}

// N sets the note.
func (n *Node) N(note string) *Node { n.Note = note; return n }

func ListOf(items ...RV) RV { return RV{List: items, IsList: true} }
func LitV(lit string) RV    { return RV{Lit: lit} }
func SetOf(rules ...Rule) RV {
	return RV{Set: rules, IsSet: true}
}

// ---- printer --------------------------------------------------------------------

// Layout are the presentation choices; none of them changes the meaning.
type Layout struct {
	NL          string `json:"nl"`           // "\n", "\r\n" or "\r"
	Indent      string `json:"indent"`       // per level
	Multi       bool   `json:"multi"`        // annotations as /* */ instead of //
	QuoteNames  bool   `json:"quote_names"`  // "min" instead of min
	Pad         int    `json:"pad"`          // 0 tight, 1 normal, 2 airy spacing inside rule objects
	Spread      bool   `json:"spread"`       // with Multi: one rule per line
	ColonStyle  int    `json:"colon_style"`  // 0 `"k":1`  1 `"k": 1`  2 `"k" : 1`
	Lead        int    `json:"lead"`         // blank lines before
	Trail       int    `json:"trail"`        // blank lines after
	Comments    int    `json:"comments"`     // 0 none, 1 `# …` line-end comments, 2 also ### blocks
	Compact     bool   `json:"compact"`      // annotation-free containers on one line
	TrailBlanks bool   `json:"trail_blanks"` // blanks before line ends
	AnnGap      int    `json:"ann_gap"`      // blanks between element and annotation (1..n)
	BlankLines  bool   `json:"blank_lines"`  // empty lines between members
	PipeStyle   int    `json:"pipe_style"`   // 0 `@a | @b`  1 `@a|@b`  2 `@a| @b`  3 `@a |@b`
	DashStyle   int    `json:"dash_style"`   // {rules} and note: 0 `{..} - note`  1 `{..}-note`  2 (/* */ only) `{..} -` NL `note`  3 (/* */ only) `{..}` NL `- note`
	QuoteMix    int    `json:"quote_mix"`    // 0 all rule names as QuoteNames says; 1 / 2 alternately quoted and bare, starting quoted / bare
	OpenGap     int    `json:"open_gap"`     // between the annotation opener and its body: 0 blank, 1 nothing, 2 TAB, 3 two blanks, 4 blank+TAB
	SpreadHead  bool   `json:"spread_head"`  // with Spread: the first rule stays on the line of the opening brace, a line break follows every comma
	GapTab      bool   `json:"gap_tab"`      // a TAB instead of blanks between the element and its annotation
	EmptyPad    bool   `json:"empty_pad"`    // a blank inside empty containers: `[ ]`, `{ }`
	EmptyDash   bool   `json:"empty_dash"`   // rules without a note are followed by a dash with nothing behind it: `{..} -`
	BlockInAnn  bool   `json:"block_in_ann"` // a ### block comment between the rules of an annotation and what follows them
	EmptyCmt    bool   `json:"empty_cmt"`    // a ### block comment inside empty containers: `[### c ###]`, with EmptyPad `[ ### c ### ]`
	EmptyAnn    int    `json:"empty_ann"`    // elements without rules and note get an empty annotation at the line end: 1 `//`, 2 `// ` + blanks, 3 `/**/`, 4 `/* */`
	ColonTab    bool   `json:"colon_tab"`    // a TAB between a rule name and its colon, a TAB behind the colon
	EmptyHash   int    `json:"empty_hash"`   // line-end user comments without text: 1 `#` directly before the line break, 2 `#` and blanks
	CloseTight  bool   `json:"close_tight"`  // no blank between the body of a /* */ annotation and its closing */
	HashGlue    bool   `json:"hash_glue"`    // line-end user comments start directly behind the last byte of the line, without a blank
	NoteBelow   bool   `json:"note_below"`   // an annotation that is only a note stands on a line of its own below its one-line element (last member / item, or the root)
}

// DefaultLayout is the plain style used by the repository's own examples.
var DefaultLayout = Layout{NL: "\n", Indent: "  ", Pad: 1, ColonStyle: 1, AnnGap: 1}

// RandLayout draws a layout.
func RandLayout(rng *rand.Rand) Layout {
	l := Layout{
		NL:          []string{"\n", "\n", "\r\n", "\r"}[rng.IntN(4)],
		Indent:      []string{"", " ", "  ", "\t", "    "}[rng.IntN(5)],
		Multi:       rng.IntN(3) == 0,
		QuoteNames:  rng.IntN(3) == 0,
		Pad:         rng.IntN(3),
		Spread:      rng.IntN(2) == 0,
		ColonStyle:  rng.IntN(3),
		Lead:        rng.IntN(3) % 2 * rng.IntN(3),
		Trail:       rng.IntN(3) % 2 * rng.IntN(3),
		Comments:    []int{0, 0, 1, 2}[rng.IntN(4)],
		Compact:     rng.IntN(3) == 0,
		TrailBlanks: rng.IntN(4) == 0,
		AnnGap:      1 + rng.IntN(3),
		BlankLines:  rng.IntN(5) == 0,
		PipeStyle:   []int{0, 0, 1, 2, 3}[rng.IntN(5)],
		DashStyle:   []int{0, 0, 0, 1, 2, 3}[rng.IntN(6)],
		QuoteMix:    []int{0, 0, 0, 1, 2}[rng.IntN(5)],
		OpenGap:     []int{0, 0, 0, 1, 2, 3, 4}[rng.IntN(7)],
		SpreadHead:  rng.IntN(3) == 0,
		GapTab:      rng.IntN(6) == 0,
		EmptyPad:    rng.IntN(4) == 0,
		EmptyDash:   rng.IntN(6) == 0,
		BlockInAnn:  rng.IntN(8) == 0,
		NoteBelow:   rng.IntN(6) == 0,
		EmptyCmt:    rng.IntN(6) == 0,
		EmptyAnn:    []int{0, 0, 0, 0, 0, 0, 1, 2, 3, 4}[rng.IntN(10)],
		ColonTab:    rng.IntN(8) == 0,
		EmptyHash:   []int{0, 0, 0, 0, 0, 0, 0, 1, 1, 2}[rng.IntN(10)],
		CloseTight:  rng.IntN(6) == 0,
		HashGlue:    rng.IntN(8) == 0,
	}
	return l
}

type printer struct {
	l        Layout
	sb       strings.Builder
	comment  int  // running counter for deterministic comment texts
	ruleSeq  int  // running counter of printed rule names (QuoteMix)
	emptyAnn bool // the last thing printed was an empty annotation (no user comment may follow inside it)
}

// Print renders a node as schema text.
func Print(n *Node, l Layout) string {
	if l.NL == "" {
		l.NL = "\n"
	}
	if l.AnnGap < 1 {
		l.AnnGap = 1
	}
	p := &printer{l: l}
	for i := 0; i < l.Lead; i++ {
		p.sb.WriteString(l.NL)
	}
	p.element(n, 0, "", false)
	for i := 0; i < l.Trail; i++ {
		p.sb.WriteString(l.NL)
	}
	return p.sb.String()
}

func (p *printer) nl() {
	if p.l.TrailBlanks {
		p.sb.WriteString(" ")
	}
	p.sb.WriteString(p.l.NL)
}

func (p *printer) indent(level int) {
	for i := 0; i < level; i++ {
		p.sb.WriteString(p.l.Indent)
	}
}

// lineEndComment may add a user comment at the end of the current line. Only
// called where the line ends outside a multi-line annotation.
func (p *printer) lineEndComment() {
	if p.emptyAnn {
		p.emptyAnn = false
		return
	}
	if p.l.EmptyHash != 0 {
		p.comment++
		if p.comment%2 == 1 {
			p.sb.WriteString(p.hashLead() + []string{"#", "# \t "}[(p.l.EmptyHash-1)%2])
		}
		return
	}
	if p.l.Comments == 0 {
		return
	}
	p.comment++
	if p.comment%3 == 0 {
		p.sb.WriteString(p.hashLead() + "# c" + string(rune('a'+p.comment%26)))
	}
}

// hashLead is what stands between the line and a line-end user comment.
func (p *printer) hashLead() string {
	if p.l.HashGlue {
		return ""
	}
	return " "
}

// blockComment may add a ### block on lines of its own (between members).
func (p *printer) blockComment(level int) {
	if p.l.Comments < 2 {
		return
	}
	p.comment++
	if p.comment%4 == 0 {
		p.indent(level)
		p.sb.WriteString("###")
		p.sb.WriteString(p.l.NL)
		p.indent(level)
		p.sb.WriteString("block { \" comment")
		p.sb.WriteString(p.l.NL)
		p.indent(level)
		p.sb.WriteString("###")
		p.sb.WriteString(p.l.NL)
	}
}

func (p *printer) hasAnn(n *Node) bool { return n.HasRules || len(n.Rules) > 0 || n.Note != "" }

func (p *printer) ruleName(name string) string {
	q := p.l.QuoteNames
	if p.l.QuoteMix != 0 {
		p.ruleSeq++
		q = (p.ruleSeq+p.l.QuoteMix)%2 == 0
	}
	if q {
		return `"` + name + `"`
	}
	return name
}

func (p *printer) rv(v RV, level int, spread bool) string {
	sp := ""
	if p.l.Pad >= 1 {
		sp = " "
	}
	in := ""
	if p.l.Pad == 2 {
		in = " "
	}
	switch {
	case v.IsList || len(v.List) > 0:
		parts := make([]string, len(v.List))
		for i, it := range v.List {
			parts[i] = p.rv(it, level, false)
		}
		return "[" + in + strings.Join(parts, in+","+sp) + in + "]"
	case v.IsSet || len(v.Set) > 0:
		return p.ruleObject(v.Set, level, false)
	case v.Bare != "":
		return v.Bare
	}
	return v.Lit
}

func (p *printer) ruleObject(rules []Rule, level int, spread bool) string {
	sp := ""
	if p.l.Pad >= 1 {
		sp = " "
	}
	in := ""
	if p.l.Pad == 2 {
		in = " "
	}
	colon := in + ":" + sp
	if p.l.ColonTab {
		colon = "\t:\t"
	}
	var sb strings.Builder
	sb.WriteString("{")
	if spread && len(rules) > 0 {
		for i, r := range rules {
			if i > 0 || !p.l.SpreadHead {
				sb.WriteString(p.l.NL)
				for k := 0; k <= level+1; k++ {
					sb.WriteString(p.l.Indent)
				}
			}
			sb.WriteString(p.ruleName(r.Name) + colon + p.rv(r.Val, level+1, false))
			if i+1 < len(rules) {
				sb.WriteString(",")
			}
		}
		if !p.l.SpreadHead {
			sb.WriteString(p.l.NL)
			for k := 0; k <= level; k++ {
				sb.WriteString(p.l.Indent)
			}
		}
		sb.WriteString("}")
		return sb.String()
	}
	sb.WriteString(in)
	for i, r := range rules {
		if i > 0 {
			sb.WriteString(in + "," + sp)
		}
		sb.WriteString(p.ruleName(r.Name) + colon + p.rv(r.Val, level, false))
	}
	sb.WriteString(in + "}")
	return sb.String()
}

// annotation writes the annotation of n (if any) at the current position.
func (p *printer) annotation(n *Node, level int) {
	if !p.hasAnn(n) {
		return
	}
	if p.l.GapTab {
		p.sb.WriteString("\t")
	} else {
		p.sb.WriteString(strings.Repeat(" ", p.l.AnnGap))
	}
	body := ""
	if n.HasRules || len(n.Rules) > 0 {
		body = p.ruleObject(n.Rules, level, p.l.Multi && p.l.Spread)
		if p.l.BlockInAnn && !p.l.Multi { // user comments are not part of the /* */ form
			body += " ### c ###"
		}
		if n.Note == "" && p.l.EmptyDash {
			body += []string{" -", " - ", "-"}[len(n.Rules)%3]
		}
		if n.Note != "" {
			switch {
			case p.l.DashStyle == 1:
				body += "-" + n.Note
			case p.l.DashStyle == 2 && p.l.Multi:
				body += " -" + p.l.NL + strings.Repeat(p.l.Indent, level+1) + "     " + n.Note
			case p.l.DashStyle == 3 && p.l.Multi:
				body += p.l.NL + strings.Repeat(p.l.Indent, level+1) + "- " + n.Note
			default:
				body += " - " + n.Note
			}
		}
	} else {
		body = n.Note
	}
	gap := []string{" ", "", "\t", "  ", " \t"}[p.l.OpenGap%5]
	if p.l.Multi {
		closer := " */"
		if p.l.CloseTight && !strings.HasSuffix(body, "/") {
			closer = "*/"
		}
		p.sb.WriteString("/*" + gap + body + closer)
	} else {
		p.sb.WriteString("//" + gap + body)
	}
}

// noteBelow tells whether the annotation of the one-line element n goes on the
// next line: only a note, nothing follows the element on its line, and the
// element has a line of its own (or is the root).
func (p *printer) noteBelow(n *Node, level int, tail string, ownLine bool) bool {
	return p.l.NoteBelow && tail == "" && (ownLine || level == 0) && n.Note != "" && !n.HasRules && len(n.Rules) == 0
}

// annotationAfter prints the annotation of a one-line element behind it, or on the next line.
func (p *printer) annotationAfter(n *Node, level int, tail string, ownLine bool) {
	switch {
	case p.noteBelow(n, level, tail, ownLine):
		p.nl()
		p.indent(level)
	case !p.hasAnn(n) && p.l.EmptyAnn != 0 && ownLine:
		// nothing to say, said explicitly
		p.sb.WriteString([]string{" //", " //  \t", " /**/", " /* */"}[(p.l.EmptyAnn-1)%4])
		p.emptyAnn = true
		return
	}
	p.annotation(n, level)
}

func (p *printer) key(n *Node) {
	if n.KeyLit == "" {
		return
	}
	p.sb.WriteString(n.KeyLit)
	switch p.l.ColonStyle {
	case 0:
		p.sb.WriteString(":")
	case 1:
		p.sb.WriteString(": ")
	default:
		p.sb.WriteString(" : ")
	}
}

// element prints n (with its key) starting at the current position; tail is
// "," when a sibling follows.
func (p *printer) element(n *Node, level int, tail string, ownLine bool) {
	p.key(n)
	switch n.Kind {
	case KObject, KArray:
		open, close := "{", "}"
		if n.Kind == KArray {
			open, close = "[", "]"
		}
		if len(n.Children) == 0 {
			if p.l.EmptyPad {
				open += " "
			}
			if p.l.EmptyCmt {
				open += "### c ###"
				if p.l.EmptyPad {
					open += " "
				}
			}
			p.sb.WriteString(open + close + tail)
			p.annotationAfter(n, level, tail, ownLine)
			return
		}
		if p.l.Compact && !n.HasAnnotations() {
			p.sb.WriteString(open)
			for i, c := range n.Children {
				t := ""
				if i+1 < len(n.Children) {
					t = ","
				}
				if p.l.Pad >= 1 && i > 0 {
					p.sb.WriteString(" ")
				}
				p.element(c, level+1, t, false)
			}
			p.sb.WriteString(close + tail)
			return
		}
		p.sb.WriteString(open)
		p.annotation(n, level)
		if !(p.hasAnn(n) && p.l.Multi) {
			p.lineEndComment()
		}
		p.nl()
		for i, c := range n.Children {
			if p.l.BlankLines && i > 0 {
				p.sb.WriteString(p.l.NL)
			}
			p.blockComment(level + 1)
			p.indent(level + 1)
			t := ""
			if i+1 < len(n.Children) {
				t = ","
			}
			p.element(c, level+1, t, true)
			p.nl()
		}
		p.indent(level)
		p.sb.WriteString(close + tail)
		if ownLine {
			p.lineEndComment() // a comment may also follow the closing bracket (and its comma)
		}
	case KRef:
		p.sb.WriteString(strings.Join(n.Refs, []string{" | ", "|", "| ", " |"}[p.l.PipeStyle%4]))
		p.sb.WriteString(tail)
		p.annotationAfter(n, level, tail, ownLine)
		if !(p.hasAnn(n) && p.l.Multi) && ownLine {
			p.lineEndComment()
		}
	default:
		p.sb.WriteString(n.Lit + tail)
		p.annotationAfter(n, level, tail, ownLine)
		if !(p.hasAnn(n) && p.l.Multi) && ownLine {
			p.lineEndComment()
		}
	}
}
