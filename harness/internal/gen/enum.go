// Package gen holds the seeded workload generators and enumerators.
package gen

// Tokens enumerates every concatenation of 1..maxLen tokens from alpha in
// lexicographic order of token indices. visit gets the text and the number of
// tokens; when it returns false the extensions of this text are skipped
// (viable-prefix pruning).
func Tokens(alpha []string, maxLen int, visit func(s []byte, n int) bool) {
	buf := make([]byte, 0, 64)
	var rec func(depth int)
	rec = func(depth int) {
		for _, t := range alpha {
			l := len(buf)
			buf = append(buf, t...)
			if visit(buf, depth+1) && depth+1 < maxLen {
				rec(depth + 1)
			}
			buf = buf[:l]
		}
	}
	rec(0)
}

// TokensSharded is like Tokens but partitions the space over shards by the
// first SplitDepth tokens (so that pruning stays effective inside a shard and
// the load is balanced). Shorter texts are visited in every shard (needed for
// pruning); visit is told so through dup=true for all shards but shard 0, and
// callers that count should ignore those.
func TokensShardedAt(alpha []string, maxLen, splitDepth int, shard, nshards int, visit func(s []byte, n int, dup bool) bool) {
	if splitDepth >= maxLen {
		splitDepth = maxLen - 1
	}
	if splitDepth < 0 {
		splitDepth = 0
	}
	buf := make([]byte, 0, 64)
	top := 0 // running number of the partition-level text; identical in every shard because shared levels are visited identically
	var rec func(depth int)
	rec = func(depth int) {
		for _, t := range alpha {
			l := len(buf)
			buf = append(buf, t...)
			n := depth + 1
			switch {
			case n <= splitDepth: // shared prefix level: every shard visits it
				if visit(buf, n, shard != 0) && n < maxLen {
					rec(depth + 1)
				}
			case n == splitDepth+1: // partition level
				mine := top%nshards == shard
				top++
				if mine && visit(buf, n, false) && n < maxLen {
					rec(depth + 1)
				}
			default:
				if visit(buf, n, false) && n < maxLen {
					rec(depth + 1)
				}
			}
			buf = buf[:l]
		}
	}
	rec(0)
}

// TokensSharded splits after the first token (texts of one token are visited in every shard).
func TokensSharded(alpha []string, maxLen int, shard, nshards int, visit func(s []byte, n int) bool) {
	TokensShardedAt(alpha, maxLen, 1, shard, nshards, func(s []byte, n int, dup bool) bool { return visit(s, n) })
}
