// Package gen holds the seeded workload generators and enumerators.
package gen

// Tokens enumerates every concatenation of 1..maxLen tokens from alpha in
// lexicographic order of token indices. visit gets the text and the number of
// tokens; when it returns false the extensions of this text are skipped
// (viable-prefix pruning).
func Tokens(alpha []string, maxLen int, visit func(s []byte, n int) bool) {
	buf := make([]byte, 0, 64)
	var rec func(depth int)
	rec = func(depth int) {
		for _, t := range alpha {
			l := len(buf)
			buf = append(buf, t...)
			if visit(buf, depth+1) && depth+1 < maxLen {
				rec(depth + 1)
			}
			buf = buf[:l]
		}
	}
	rec(0)
}

// TokensSharded is like Tokens but partitions the space over shards by the
// first two tokens (so that pruning stays effective inside a shard). Texts of
// a single token are visited in every shard (needed for pruning); callers
// that count should count them in shard 0 only.
func TokensSharded(alpha []string, maxLen int, shard, nshards int, visit func(s []byte, n int) bool) {
	buf := make([]byte, 0, 64)
	top := 0
	var rec func(depth int)
	rec = func(depth int) {
		for _, t := range alpha {
			l := len(buf)
			buf = append(buf, t...)
			switch {
			case depth == 0:
				if visit(buf, 1) && maxLen > 1 {
					rec(1)
				} else {
					top += len(alpha)
				}
			case depth == 1:
				mine := top%nshards == shard
				top++
				if mine && visit(buf, 2) && maxLen > 2 {
					rec(2)
				}
			default:
				if visit(buf, depth+1) && depth+1 < maxLen {
					rec(depth + 1)
				}
			}
			buf = buf[:l]
		}
	}
	rec(0)
}
