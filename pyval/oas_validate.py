#!/usr/bin/env python3
"""Independent OpenAPI-3.0-dialect JSON Schema validator service for C08.

Reads one JSON object per line:
  {"id": n, "schema": <Schema Object text>, "components": {"name": <Schema Object text>, ...}, "instances": [<JSON text>, ...]}
and answers one line:
  {"id": n, "wellformed": bool, "wf_error": str, "results": [{"valid": bool, "error": str}, ...]}

* numbers are parsed as Decimal (exact multipleOf);
* dialect: JSON Schema draft 4 (boolean exclusiveMinimum/Maximum), as OpenAPI 3.0 prescribes;
* `nullable: true` on a schema S is rewritten to anyOf[{enum:[null]}, S'] - the reading most favourable to the converter;
* the rewrite walks by keyword position (properties -> name -> schema, items, additionalProperties, anyOf/allOf/oneOf lists, not),
  never by key name alone, so a property called "example" stays a property;
* `example`, `description` are annotations and dropped; `format` is asserted only for date, date-time, uuid, email, uri
  with small independent checkers;
* well-formedness: every keyword must be one the converter is known to emit, with the right value type, and every $ref
  must point at an existing component.
"""
import sys, json, re
from decimal import Decimal
from datetime import date

import copy
import jsonschema
from jsonschema import Draft4Validator, FormatChecker
from jsonschema.validators import extend

KEYWORDS = {
    "type": str, "properties": dict, "required": list, "additionalProperties": (bool, dict), "items": dict,
    "minItems": int, "maxItems": int, "minLength": int, "maxLength": int, "pattern": str,
    "minimum": (int, Decimal), "maximum": (int, Decimal), "exclusiveMinimum": bool, "exclusiveMaximum": bool,
    "multipleOf": (int, Decimal), "enum": list, "anyOf": list, "allOf": list, "oneOf": list, "not": dict,
    "$ref": str, "nullable": bool, "format": str, "example": object, "description": str, "default": object,
}
TYPES = {"object", "array", "string", "integer", "number", "boolean"}


class Malformed(Exception):
    pass


def rewrite(s, comps, path):
    """returns the draft-4 schema for OpenAPI schema object s; raises Malformed"""
    if not isinstance(s, dict):
        raise Malformed(f"{path}: schema is not an object")
    out = {}
    for k, v in s.items():
        if k not in KEYWORDS:
            raise Malformed(f"{path}: unknown keyword {k!r}")
        t = KEYWORDS[k]
        if t is not object and (not isinstance(v, t) or (isinstance(v, bool) and t in (int, (int, Decimal)))):
            raise Malformed(f"{path}: keyword {k!r} has a value of type {type(v).__name__}")
    if "type" in s and s["type"] not in TYPES:
        raise Malformed(f"{path}: type {s['type']!r}")
    for k, v in s.items():
        if k in ("example", "description", "nullable", "default"):
            continue
        if k == "properties":
            out[k] = {name: rewrite(sub, comps, f"{path}/properties/{name}") for name, sub in v.items()}
        elif k in ("items", "not"):
            out[k] = rewrite(v, comps, f"{path}/{k}")
        elif k == "additionalProperties":
            out[k] = v if isinstance(v, bool) else rewrite(v, comps, f"{path}/{k}")
        elif k in ("anyOf", "allOf", "oneOf"):
            if not v:
                raise Malformed(f"{path}: empty {k}")
            out[k] = [rewrite(sub, comps, f"{path}/{k}/{i}") for i, sub in enumerate(v)]
        elif k == "required":
            if not all(isinstance(x, str) for x in v):
                raise Malformed(f"{path}: required is not a list of strings")
            if len(set(v)) != len(v):
                raise Malformed(f"{path}: required repeats a name")
            if v:
                out[k] = v
        elif k == "$ref":
            m = re.fullmatch(r"#/components/schemas/(.+)", v)
            if not m or m.group(1) not in comps:
                raise Malformed(f"{path}: $ref {v!r} does not point at a registered component")
            out[k] = v
        elif k == "pattern":
            try:
                re.compile(v)
            except re.error as e:
                raise Malformed(f"{path}: pattern {v!r}: {e}")
            out[k] = v
        elif k in ("minItems", "maxItems", "minLength", "maxLength"):
            if v < 0:
                raise Malformed(f"{path}: negative {k}")
            out[k] = v
        elif k == "multipleOf":
            if v <= 0:
                raise Malformed(f"{path}: multipleOf {v}")
            out[k] = v
        elif k == "enum":
            if not v:
                raise Malformed(f"{path}: empty enum")
            out[k] = v
        else:
            out[k] = v
    if "exclusiveMinimum" in s and "minimum" not in s:
        raise Malformed(f"{path}: exclusiveMinimum without minimum")
    if "exclusiveMaximum" in s and "maximum" not in s:
        raise Malformed(f"{path}: exclusiveMaximum without maximum")
    if s.get("nullable") is True:
        return {"anyOf": [{"enum": [None]}, out]}
    return out


fc = FormatChecker(formats=())


@fc.checks("date")
def _date(v):
    if not isinstance(v, str):
        return True
    m = re.fullmatch(r"(\d{4})-(\d{2})-(\d{2})", v)
    if not m:
        return False
    try:
        date(int(m.group(1)), int(m.group(2)), int(m.group(3)))
    except ValueError:
        return False
    return True


@fc.checks("date-time")
def _datetime(v):
    if not isinstance(v, str):
        return True
    m = re.fullmatch(r"(\d{4})-(\d{2})-(\d{2})[Tt](\d{2}):(\d{2}):(\d{2})(\.\d+)?([Zz]|[+-]\d{2}:\d{2})", v)
    if not m:
        return False
    try:
        date(int(m.group(1)), int(m.group(2)), int(m.group(3)))
    except ValueError:
        return False
    return int(m.group(4)) < 24 and int(m.group(5)) < 60 and int(m.group(6)) <= 60


@fc.checks("uuid")
def _uuid(v):
    if not isinstance(v, str):
        return True
    # `format` is an annotation with an open vocabulary in OpenAPI 3.0; JSight's "uuid" takes the spellings the usual
    # parsers take (canonical, urn:uuid: with a case-insensitive prefix, braces, 32 hex digits): the same reading is
    # used here, so that the difference between them cannot raise an alarm.
    canon = r"[0-9a-fA-F]{8}-[0-9a-fA-F]{4}-[0-9a-fA-F]{4}-[0-9a-fA-F]{4}-[0-9a-fA-F]{12}"
    return (re.fullmatch(canon, v) is not None or re.fullmatch(r"(?i:urn:uuid:)" + canon, v) is not None
            or re.fullmatch(r"\{" + canon + r"\}", v) is not None or re.fullmatch(r"[0-9a-fA-F]{32}", v) is not None)


@fc.checks("email")
def _email(v):
    if not isinstance(v, str):
        return True
    return re.fullmatch(r"[^@\s]+@[^@\s]+", v) is not None


@fc.checks("uri")
def _uri(v):
    if not isinstance(v, str):
        return True
    # JSight's "uri" follows Go's url.ParseRequestURI: an absolute URI or an absolute path ("/a/b").
    # The format keyword is an annotation with an open vocabulary in OpenAPI 3.0; the looser reading is used
    # so that the difference between "URI" and "URI reference" cannot raise an alarm.
    return re.match(r"[A-Za-z][A-Za-z0-9+.-]*:", v) is not None or v.startswith("/")


def is_number(checker, inst):
    if isinstance(inst, bool):
        return False
    return isinstance(inst, (int, Decimal, float))


def is_integer(checker, inst):
    if isinstance(inst, bool):
        return False
    if isinstance(inst, int):
        return True
    return False


type_checker = Draft4Validator.TYPE_CHECKER.redefine("number", is_number).redefine("integer", is_integer)
Validator = extend(Draft4Validator, type_checker=type_checker)
# OpenAPI 3.0's own description of the Schema Object (schemas/v3.0/schema.json) declares `enum` with
# "uniqueItems": false, and JSON Schema Wright Draft 00, which OpenAPI 3.0 builds on, says the elements SHOULD be
# unique: `enum: [1.0, 1]` is well formed there, while the Draft 4 meta-schema demands unique items.
_meta = copy.deepcopy(dict(Draft4Validator.META_SCHEMA))
_meta["properties"]["enum"].pop("uniqueItems", None)
Validator.META_SCHEMA = _meta


def loads(text):
    return json.loads(text, parse_float=Decimal)


def handle(req):
    resp = {"id": req.get("id"), "wellformed": True, "wf_error": "", "results": []}
    try:
        comps_raw = {name: loads(t) for name, t in req.get("components", {}).items()}
        root_raw = loads(req["schema"])
    except Exception as e:
        resp["wellformed"] = False
        resp["wf_error"] = f"not JSON: {e}"
        return resp
    try:
        comps = {name: rewrite(s, comps_raw, f"#/components/schemas/{name}") for name, s in comps_raw.items()}
        root = rewrite(root_raw, comps_raw, "#")
    except Malformed as e:
        resp["wellformed"] = False
        resp["wf_error"] = str(e)
        return resp
    doc = dict(root)
    doc["components"] = {"schemas": comps}
    try:
        Validator.check_schema({k: v for k, v in doc.items() if k != "components"})
        v = Validator(doc, format_checker=fc)
    except Exception as e:
        resp["wellformed"] = False
        resp["wf_error"] = f"meta-schema: {str(e)[:300]}"
        return resp
    for inst_text in req.get("instances", []):
        try:
            inst = loads(inst_text)
        except Exception as e:
            resp["results"].append({"valid": False, "error": f"instance is not JSON: {e}"})
            continue
        try:
            errs = sorted(v.iter_errors(inst), key=lambda e: list(e.absolute_path))
        except RecursionError:
            resp["results"].append({"valid": True, "error": "validator recursion limit (not judged)", "skipped": True})
            continue
        except Exception as e:
            resp["results"].append({"valid": True, "error": f"validator failure {type(e).__name__}: {e} (not judged)", "skipped": True})
            continue
        if errs:
            e = errs[0]
            resp["results"].append({"valid": False, "error": f"at /{'/'.join(map(str, e.absolute_path))}: {e.message[:200]} (keyword {e.validator})"})
        else:
            resp["results"].append({"valid": True, "error": ""})
    return resp


def main():
    sys.setrecursionlimit(5000)
    for line in sys.stdin:
        line = line.strip()
        if not line:
            continue
        try:
            req = json.loads(line)
            resp = handle(req)
        except Exception as e:  # never die on one request
            resp = {"id": None, "wellformed": True, "wf_error": "", "results": [], "service_error": f"{type(e).__name__}: {e}"}
        sys.stdout.write(json.dumps(resp) + "\n")
        sys.stdout.flush()


if __name__ == "__main__":
    main()
